module probe
go 1.14
require github.com/cockroachdb/redact v0.0.0
replace github.com/cockroachdb/redact => /repo
