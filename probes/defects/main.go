// Demonstration of the four defects found on the pinned tree (DESIGN.md §6).
// Not part of any check: the checks are static. Run with `go run .` against
// /repo to see the behaviour before/after the "fix:" commits.
package main

import (
	"fmt"
	"reflect"

	"github.com/cockroachdb/redact"
)

// regSafe is registered as a safe type and has a String method.
type regSafe struct{ n int }

func (r regSafe) String() string { return fmt.Sprintf("RS%d", r.n) }

// F6: nested panic escaping a nested Print.
type pv struct{}

func (pv) String() string { panic("inner-boom") }

type px struct{}

func (px) String() string { panic(pv{}) }

type sf struct{}

func (sf) SafeFormat(w redact.SafePrinter, _ rune) {
	w.UnsafeString("a")
	w.Print("bbbbbbbb", px{})
}

type f struct{}

func (f) Format(s fmt.State, verb rune) {
	if sp, ok := s.(redact.SafePrinter); ok {
		sp.Print(redact.Safe("leak1"), redact.RedactableString("‹r›"))
		sp.Printf("lit %d", redact.Safe(2))
		return
	}
	fmt.Fprint(s, "plain")
}

func main() {
	fmt.Printf("F4: %q\n", redact.Sprintf("x %v y", redact.Unsafe(f{})))
	var b redact.StringBuilder
	func() {
		defer func() { fmt.Println("F1 panic:", recover()) }()
		b.UnsafeRune(-1)
		b.SafeRune(0xD800)
		fmt.Printf("F1: %q\n", b.RedactableString())
	}()
	func() {
		defer func() { fmt.Println("F2 panic:", recover()) }()
		var b2 redact.StringBuilder
		redact.JoinTo(&b2, ",", 5)
		redact.JoinTo(&b2, ",", nil)
		fmt.Printf("F2: %q\n", b2.RedactableString())
	}()
	func() {
		var b2 redact.StringBuilder
		redact.JoinTo(&b2, ",", "ab")
		fmt.Printf("F2 string: %q\n", b2.RedactableString())
	}()
	fmt.Printf("F6: %q\n", redact.Sprintf("x %v y", sf{}))
	redact.RegisterSafeType(reflect.TypeOf(regSafe{}))
	fmt.Printf("F5: %q %q\n", redact.Sprint([]interface{}{regSafe{1}}), redact.Sprint(map[string]interface{}{"k": regSafe{2}}))
	s, e := redact.HelperForErrorf("%w %w", fmt.Errorf("boom"), 5)
	fmt.Printf("F3: %q err=%v\n", s, e)
	s, e = redact.HelperForErrorf("%w %w", fmt.Errorf("boom"))
	fmt.Printf("F3 missing: %q err=%v\n", s, e)
	s, e = redact.HelperForErrorf("%w %[5]w", fmt.Errorf("boom"))
	fmt.Printf("F3 badindex: %q err=%v\n", s, e)
}
