package rules

import (
	"sort"

	"golang.org/x/tools/go/ssa"
)

// staticCallees lists the in-module functions fn calls statically
// (including deferred calls and immediately invoked closures).
func (c *Ctx) staticCallees(fn *ssa.Function) []*ssa.Function {
	seen := map[*ssa.Function]bool{}
	var out []*ssa.Function
	for _, b := range fn.Blocks {
		for _, ins := range b.Instrs {
			ci, ok := ins.(ssa.CallInstruction)
			if !ok {
				continue
			}
			var f *ssa.Function
			if g := ci.Common().StaticCallee(); g != nil {
				f = g
			}
			if f != nil && c.P.InModule(f) && !seen[f] {
				seen[f] = true
				out = append(out, f)
			}
		}
	}
	for _, an := range fn.AnonFuncs {
		if !seen[an] {
			seen[an] = true
			out = append(out, an)
		}
	}
	return out
}

// sccOf returns the strongly connected component (static calls only) that
// contains fn.
func (c *Ctx) sccOf(fn *ssa.Function) map[*ssa.Function]bool {
	fwd := c.reach(fn, false)
	res := map[*ssa.Function]bool{}
	for g := range fwd {
		if c.reach(g, false)[fn] {
			res[g] = true
		}
	}
	res[fn] = true
	return res
}

// reach is the set of functions reachable from fn through static calls.
func (c *Ctx) reach(fn *ssa.Function, includeSelf bool) map[*ssa.Function]bool {
	seen := map[*ssa.Function]bool{}
	var visit func(f *ssa.Function)
	visit = func(f *ssa.Function) {
		for _, g := range c.staticCallees(f) {
			if !seen[g] {
				seen[g] = true
				visit(g)
			}
		}
	}
	visit(fn)
	if includeSelf {
		seen[fn] = true
	}
	return seen
}

func sortedFns(m map[*ssa.Function]bool) []*ssa.Function {
	var out []*ssa.Function
	for f := range m {
		out = append(out, f)
	}
	sort.Slice(out, func(i, j int) bool { return out[i].String() < out[j].String() })
	return out
}

func sortStrings(s []string) { sort.Strings(s) }
