package rules

import (
	"bytes"
	"encoding/json"
	"fmt"
	"go/ast"
	"go/parser"
	"go/printer"
	"go/token"
	"os"
	"path/filepath"
	"sort"
	"strings"

	"redactverif/report"
)

// Engine C, part a3: audit of the recorded patch. Every function of the fork
// is compared with the function of the same name in the reconstructed import
// base after *erasing the instrumentation forms* on the fork side and mapping
// the buffer primitives on both sides. What remains must be identical: the
// patch may classify, it may not change what fmt computes.
//
// Instrumentation forms (by shape, not by position):
//   E1  defer <recv>.start*().restore()
//   E2  calls of the redact-only helpers startPrint, rejectWrap
//   E3  printVerbArg(a, v) stands for printArg(a, v)
//   E4  func(params){ body }(same-named args) stands for body
//   E5  if/else-if chains, tagless switches and type-switch arms whose condition or types
//       mention redact-specific names (the override, the registries, the
//       wrapper/redactable type variables, handleSpecialValues, and anything
//       selected from the interfaces/markers/wrappers packages)
//   E6  short variable declarations whose variables are no longer used
//   E7  if A { if B {S} } (no else) stands for if A && B {S}
//   E9  `v := e` directly followed by the only statement using v once stands
//       for that statement with e in place of v
//   E10 `return recv.h(...)` where h is an unexported straight-line method of
//       the hand-written files stands for h's body
//   E8  buffer primitives: Cap()/Reset()/Take*() vs cap/[:0]/conversion;
//       WriteByte(x) vs append(buf, x); result type RedactableString vs string

func init() { register("C04.a3", ruleC04a3) }

var redactOnlyHelpers = map[string]bool{"startPrint": true, "rejectWrap": true}

var redactNames = map[string]bool{
	"override": true, "overrideUnsafe": true, "overrideSafe": true, "noOverride": true,
	"safeTypeRegistry": true, "safeWrapperType": true, "unsafeWrapperType": true,
	"redactableStringType": true, "redactableBytesType": true,
	"handleSpecialValues": true, "redactErrorFn": true,
}

type auditor struct {
	pkgAliases     map[string]bool          // import names of the redact-specific packages
	own            map[string]bool          // unexported names declared in the hand-written files of the package
	ownFuncs       map[string]*ast.FuncDecl // their method declarations (for E10)
	boundRestorers map[string]bool          // locals holding the result of a start* helper
	inlineOwn      bool                     // second reading: own helper statements read in place instead of erased
}

// returnsOwnStruct: the own method has exactly one result (the restorer).
func (a *auditor) returnsOwnStruct(name string) bool {
	fd := a.ownFuncs[name]
	return fd != nil && fd.Type.Results != nil && len(fd.Type.Results.List) == 1
}

// printArgWrappers: unexported methods of the hand-written files that take
// (operand, verb) and hand exactly those to printArg (E3 by declaration).
var printArgWrappers = map[string]bool{}

func notePrintArgWrappers(own map[string]*ast.FuncDecl) {
	for name, fd := range own {
		var params []string
		for _, f := range fd.Type.Params.List {
			for _, n := range f.Names {
				params = append(params, n.Name)
			}
		}
		if len(params) != 2 {
			continue
		}
		ast.Inspect(fd.Body, func(n ast.Node) bool {
			call, ok := n.(*ast.CallExpr)
			if !ok || len(call.Args) != 2 {
				return true
			}
			sel, ok := call.Fun.(*ast.SelectorExpr)
			if !ok || sel.Sel.Name != "printArg" {
				return true
			}
			a0, ok0 := call.Args[0].(*ast.Ident)
			a1, ok1 := call.Args[1].(*ast.Ident)
			if ok0 && ok1 && a0.Name == params[0] && a1.Name == params[1] {
				printArgWrappers[name] = true
			}
			return true
		})
	}
}

// ownMethods parses the hand-written files and returns the unexported
// methods declared there, by name.
func ownMethods(dir string) map[string]*ast.FuncDecl {
	out := map[string]*ast.FuncDecl{}
	files, _ := filepath.Glob(filepath.Join(dir, "*.go"))
	for _, fn := range files {
		b := filepath.Base(fn)
		if b == "print.go" || b == "format.go" || strings.HasSuffix(b, "_test.go") {
			continue
		}
		f, err := parser.ParseFile(token.NewFileSet(), fn, nil, 0)
		if err != nil {
			continue
		}
		for _, d := range f.Decls {
			if fd, ok := d.(*ast.FuncDecl); ok && fd.Recv != nil && fd.Body != nil && !ast.IsExported(fd.Name.Name) {
				out[fd.Name.Name] = fd
			}
		}
	}
	notePrintArgWrappers(out)
	return out
}

// inlineOwnStmts applies E10 at statement level: `recv.h(ident...)` as a
// statement, h an unexported no-result method of the hand-written files whose
// body has no return, stands for that body (receiver and parameters renamed).
// Used for the second reading of a function (see auditFuncs): the first
// reading erases such calls altogether.
func (a *auditor) inlineOwnStmts(list []ast.Stmt, depth int) []ast.Stmt {
	if a.ownFuncs == nil || depth > 2 {
		return list
	}
	var out []ast.Stmt
	for _, st := range list {
		switch x := st.(type) {
		case *ast.IfStmt:
			x.Body.List = a.inlineOwnStmts(x.Body.List, depth)
			if e, ok := x.Else.(*ast.BlockStmt); ok {
				e.List = a.inlineOwnStmts(e.List, depth)
			}
		case *ast.BlockStmt:
			x.List = a.inlineOwnStmts(x.List, depth)
		case *ast.ForStmt:
			x.Body.List = a.inlineOwnStmts(x.Body.List, depth)
		case *ast.RangeStmt:
			x.Body.List = a.inlineOwnStmts(x.Body.List, depth)
		case *ast.SwitchStmt:
			for _, c := range x.Body.List {
				cc := c.(*ast.CaseClause)
				cc.Body = a.inlineOwnStmts(cc.Body, depth)
			}
		case *ast.TypeSwitchStmt:
			for _, c := range x.Body.List {
				cc := c.(*ast.CaseClause)
				cc.Body = a.inlineOwnStmts(cc.Body, depth)
			}
		}
		es, ok := st.(*ast.ExprStmt)
		if !ok {
			out = append(out, st)
			continue
		}
		call, ok := es.X.(*ast.CallExpr)
		if !ok {
			out = append(out, st)
			continue
		}
		sel, ok := call.Fun.(*ast.SelectorExpr)
		if !ok {
			out = append(out, st)
			continue
		}
		recvID, ok := sel.X.(*ast.Ident)
		h := a.ownFuncs[sel.Sel.Name]
		if !ok || h == nil || h.Type.Results != nil || len(h.Recv.List) != 1 || len(h.Recv.List[0].Names) != 1 || redactOnlyHelpers[sel.Sel.Name] {
			out = append(out, st)
			continue
		}
		hasRet := false
		ast.Inspect(h.Body, func(n ast.Node) bool {
			if _, ok := n.(*ast.ReturnStmt); ok {
				hasRet = true
			}
			return true
		})
		var params []string
		for _, f := range h.Type.Params.List {
			for _, n := range f.Names {
				params = append(params, n.Name)
			}
		}
		if hasRet || len(params) != len(call.Args) {
			out = append(out, st)
			continue
		}
		ren := map[string]string{h.Recv.List[0].Names[0].Name: recvID.Name}
		okArgs := true
		for i, arg := range call.Args {
			id, ok := arg.(*ast.Ident)
			if !ok {
				okArgs = false
				break
			}
			ren[params[i]] = id.Name
		}
		if !okArgs {
			out = append(out, st)
			continue
		}
		var buf bytes.Buffer
		if err := printer.Fprint(&buf, token.NewFileSet(), h.Body); err != nil {
			out = append(out, st)
			continue
		}
		expr, err := parser.ParseExpr("func()" + buf.String())
		if err != nil {
			out = append(out, st)
			continue
		}
		body := expr.(*ast.FuncLit).Body
		ast.Inspect(body, func(n ast.Node) bool {
			if id, ok := n.(*ast.Ident); ok {
				if r, ok := ren[id.Name]; ok {
					id.Name = r
				}
			}
			return true
		})
		// the inlined body keeps its own scope for deferred calls: wrap it as
		// the immediately invoked closure form E4 knows
		out = append(out, a.inlineOwnStmts(body.List, depth+1)...)
	}
	return out
}

// inlineOwnReturn applies E10: `return recv.h(ident...)` where h is an
// unexported method of the hand-written files whose body is a statement list
// ending in its only return stands for that body, receiver and parameters
// renamed (a tail of an entry point moved into a helper).
func (a *auditor) inlineOwnReturn(list []ast.Stmt) []ast.Stmt {
	if len(list) == 0 || a.ownFuncs == nil {
		return list
	}
	ret, ok := list[len(list)-1].(*ast.ReturnStmt)
	if !ok || len(ret.Results) != 1 {
		return list
	}
	call, ok := ret.Results[0].(*ast.CallExpr)
	if !ok {
		return list
	}
	sel, ok := call.Fun.(*ast.SelectorExpr)
	if !ok {
		return list
	}
	recvID, ok := sel.X.(*ast.Ident)
	if !ok {
		return list
	}
	h := a.ownFuncs[sel.Sel.Name]
	if h == nil || len(h.Recv.List) != 1 || len(h.Recv.List[0].Names) != 1 || len(h.Body.List) == 0 {
		return list
	}
	// only return: the last statement
	nret := 0
	ast.Inspect(h.Body, func(n ast.Node) bool {
		if _, ok := n.(*ast.ReturnStmt); ok {
			nret++
		}
		return true
	})
	if _, last := h.Body.List[len(h.Body.List)-1].(*ast.ReturnStmt); nret != 1 || !last {
		return list
	}
	ren := map[string]string{h.Recv.List[0].Names[0].Name: recvID.Name}
	var params []string
	for _, f := range h.Type.Params.List {
		for _, n := range f.Names {
			params = append(params, n.Name)
		}
	}
	if len(params) != len(call.Args) {
		return list
	}
	for i, arg := range call.Args {
		id, ok := arg.(*ast.Ident)
		if !ok {
			return list
		}
		ren[params[i]] = id.Name
	}
	// copy the body by printing and re-parsing (keeps the helper's AST intact)
	var buf bytes.Buffer
	if err := printer.Fprint(&buf, token.NewFileSet(), h.Body); err != nil {
		return list
	}
	expr, err := parser.ParseExpr("func()" + buf.String())
	if err != nil {
		return list
	}
	body := expr.(*ast.FuncLit).Body
	ast.Inspect(body, func(n ast.Node) bool {
		if id, ok := n.(*ast.Ident); ok {
			if r, ok := ren[id.Name]; ok {
				id.Name = r
			}
		}
		return true
	})
	return append(append([]ast.Stmt{}, list[:len(list)-1]...), body.List...)
}

// ownNames collects the unexported top-level names (functions, methods,
// variables, constants, types) declared in the files of package rfmt that are
// not imported from fmt: whatever the generated files say about them is
// redact-specific by construction.
func ownNames(dir string) map[string]bool {
	out := map[string]bool{}
	files, _ := filepath.Glob(filepath.Join(dir, "*.go"))
	for _, fn := range files {
		b := filepath.Base(fn)
		if b == "print.go" || b == "format.go" || strings.HasSuffix(b, "_test.go") {
			continue
		}
		f, err := parser.ParseFile(token.NewFileSet(), fn, nil, 0)
		if err != nil {
			continue
		}
		add := func(n string) {
			if n != "" && n != "_" && !ast.IsExported(n) {
				out[n] = true
			}
		}
		for _, d := range f.Decls {
			switch x := d.(type) {
			case *ast.FuncDecl:
				add(x.Name.Name)
			case *ast.GenDecl:
				for _, sp := range x.Specs {
					switch y := sp.(type) {
					case *ast.ValueSpec:
						for _, n := range y.Names {
							add(n.Name)
						}
					case *ast.TypeSpec:
						add(y.Name.Name)
					}
				}
			}
		}
	}
	return out
}

func (a *auditor) mentionsRedact(n ast.Node) bool {
	found := false
	ast.Inspect(n, func(x ast.Node) bool {
		switch v := x.(type) {
		case *ast.Ident:
			if redactNames[v.Name] || a.own[v.Name] {
				found = true
			}
		case *ast.SelectorExpr:
			if id, ok := v.X.(*ast.Ident); ok && a.pkgAliases[id.Name] {
				found = true
			}
			if redactNames[v.Sel.Name] || a.own[v.Sel.Name] {
				found = true
			}
		}
		return !found
	})
	return found
}

// isStartRestore: `<recv>.<helper>().<method>()` where helper is one of the
// printer's classification helpers — by the names the repository uses today
// (start*/restore), or any unexported method declared in the hand-written
// files (own), whatever it is called.
func (a *auditor) isStartRestore(call *ast.CallExpr) bool {
	sel, ok := call.Fun.(*ast.SelectorExpr)
	if !ok {
		return false
	}
	inner, ok := sel.X.(*ast.CallExpr)
	if !ok || len(call.Args) != 0 {
		return false
	}
	isel, ok := inner.Fun.(*ast.SelectorExpr)
	if !ok {
		return false
	}
	if sel.Sel.Name == "restore" && strings.HasPrefix(isel.Sel.Name, "start") {
		return true
	}
	return a.own[isel.Sel.Name] && a.own[sel.Sel.Name]
}

func callName(e ast.Expr) string {
	call, ok := e.(*ast.CallExpr)
	if !ok {
		return ""
	}
	if sel, ok := call.Fun.(*ast.SelectorExpr); ok {
		return sel.Sel.Name
	}
	return ""
}

// eraseStmts applies E1, E2, E4, E5, E7 to a statement list.
func (a *auditor) eraseStmts(list []ast.Stmt) []ast.Stmt {
	var out []ast.Stmt
	for _, s := range list {
		switch x := s.(type) {
		case *ast.DeferStmt:
			if a.isStartRestore(x.Call) {
				continue
			}
			// E1 with the restorer bound to a local first:
			// r := recv.start*(); defer r.restore()
			if sel, ok := x.Call.Fun.(*ast.SelectorExpr); ok && len(x.Call.Args) == 0 {
				if id, ok := sel.X.(*ast.Ident); ok && a.boundRestorers[id.Name] {
					continue
				}
			}
		case *ast.AssignStmt:
			// E2 for results: `a, b := ownFunction(...)` (classification
			// computed by hand-written code)
			if len(x.Rhs) == 1 && len(x.Lhs) > 1 {
				if call, ok := x.Rhs[0].(*ast.CallExpr); ok {
					name := ""
					switch f := call.Fun.(type) {
					case *ast.Ident:
						name = f.Name
					case *ast.SelectorExpr:
						name = f.Sel.Name
					}
					if a.own[name] {
						continue
					}
				}
			}
			if x.Tok == token.DEFINE && len(x.Lhs) == 1 && len(x.Rhs) == 1 {
				if id, ok := x.Lhs[0].(*ast.Ident); ok {
					if call, ok := x.Rhs[0].(*ast.CallExpr); ok {
						if sel, ok := call.Fun.(*ast.SelectorExpr); ok && (strings.HasPrefix(sel.Sel.Name, "start") || a.own[sel.Sel.Name]) && a.returnsOwnStruct(sel.Sel.Name) {
							if a.boundRestorers == nil {
								a.boundRestorers = map[string]bool{}
							}
							a.boundRestorers[id.Name] = true
						}
					}
				}
			}
		case *ast.ExprStmt:
			if redactOnlyHelpers[callName(x.X)] {
				continue
			}
			// E2, by declaration: a statement that only calls an unexported
			// method declared in the hand-written files
			if call, ok := x.X.(*ast.CallExpr); ok {
				if sel, ok := call.Fun.(*ast.SelectorExpr); ok && a.own[sel.Sel.Name] && !printArgWrappers[sel.Sel.Name] && a.ownFuncs[sel.Sel.Name] != nil && a.ownFuncs[sel.Sel.Name].Type.Results == nil {
					continue
				}
			}
			// E4: immediately invoked closure
			if call, ok := x.X.(*ast.CallExpr); ok {
				if fl, ok := call.Fun.(*ast.FuncLit); ok && closureArgsMatch(fl, call) {
					out = append(out, a.eraseStmts(fl.Body.List)...)
					continue
				}
			}
		case *ast.IfStmt:
			if r := a.eraseIf(x); r == nil {
				continue
			} else {
				out = append(out, r)
				continue
			}
		case *ast.BlockStmt:
			x.List = a.eraseStmts(x.List)
		case *ast.ForStmt:
			x.Body.List = a.eraseStmts(x.Body.List)
		case *ast.RangeStmt:
			x.Body.List = a.eraseStmts(x.Body.List)
		case *ast.SwitchStmt:
			// E5 in switch form: a tagless switch all of whose cases test
			// redact-specific names is the same as such an if/else-if chain
			if x.Tag == nil && len(x.Body.List) > 0 {
				all := true
				for _, c := range x.Body.List {
					cc := c.(*ast.CaseClause)
					if len(cc.List) == 0 {
						all = false
					}
					for _, e := range cc.List {
						if !a.mentionsRedact(e) {
							all = false
						}
					}
				}
				if all {
					continue
				}
			}
			for _, c := range x.Body.List {
				cc := c.(*ast.CaseClause)
				cc.Body = a.eraseStmts(cc.Body)
			}
		case *ast.TypeSwitchStmt:
			var keep []ast.Stmt
			for _, c := range x.Body.List {
				cc := c.(*ast.CaseClause)
				drop := false
				for _, t := range cc.List {
					if a.mentionsRedact(t) {
						drop = true
					}
				}
				if drop {
					continue
				}
				cc.Body = a.eraseStmts(cc.Body)
				keep = append(keep, cc)
			}
			x.Body.List = keep
			if len(keep) == 0 {
				continue
			}
		case *ast.LabeledStmt:
			inner := a.eraseStmts([]ast.Stmt{x.Stmt})
			if len(inner) == 1 {
				x.Stmt = inner[0]
			}
		}
		out = append(out, s)
	}
	return out
}

func closureArgsMatch(fl *ast.FuncLit, call *ast.CallExpr) bool {
	var params []string
	for _, f := range fl.Type.Params.List {
		for _, n := range f.Names {
			params = append(params, n.Name)
		}
	}
	if len(params) != len(call.Args) {
		return false
	}
	for i, a := range call.Args {
		id, ok := a.(*ast.Ident)
		if !ok || id.Name != params[i] {
			return false
		}
	}
	return true
}

// eraseIf handles E5 and E7 for one if statement (with its else chain).
func (a *auditor) eraseIf(x *ast.IfStmt) ast.Stmt {
	redact := (x.Init != nil && a.mentionsRedact(x.Init)) || a.mentionsRedact(x.Cond)
	if redact {
		// the whole chain must be redact-specific
		switch e := x.Else.(type) {
		case nil:
			return nil
		case *ast.IfStmt:
			if a.eraseIf(e) == nil {
				return nil
			}
		}
		// mixed chain: keep as is (will show up as a difference)
		return x
	}
	x.Body.List = a.eraseStmts(x.Body.List)
	switch e := x.Else.(type) {
	case *ast.IfStmt:
		if r := a.eraseIf(e); r == nil {
			x.Else = nil
		} else {
			x.Else = r
		}
	case *ast.BlockStmt:
		e.List = a.eraseStmts(e.List)
	}
	// E7: flatten
	if x.Else == nil && x.Init == nil && len(x.Body.List) == 1 {
		if inner, ok := x.Body.List[0].(*ast.IfStmt); ok && inner.Else == nil && inner.Init == nil {
			return &ast.IfStmt{Cond: &ast.BinaryExpr{X: x.Cond, Op: token.LAND, Y: inner.Cond}, Body: inner.Body}
		}
	}
	return x
}

// dropUnused applies E6: a short variable declaration of a single variable
// that no later statement of the same block (or of its nested blocks) uses.
func dropUnused(body *ast.BlockStmt) {
	usesIn := func(list []ast.Stmt, name string) int {
		n := 0
		for _, s := range list {
			ast.Inspect(s, func(x ast.Node) bool {
				if id, ok := x.(*ast.Ident); ok && id.Name == name {
					n++
				}
				return true
			})
		}
		return n
	}
	var walk func(list []ast.Stmt) []ast.Stmt
	walk = func(list []ast.Stmt) []ast.Stmt {
		var out []ast.Stmt
		for i, s := range list {
			if as, ok := s.(*ast.AssignStmt); ok && as.Tok == token.DEFINE && len(as.Lhs) == 1 {
				if id, ok := as.Lhs[0].(*ast.Ident); ok && id.Name != "_" && usesIn(list[i+1:], id.Name) == 0 {
					continue
				}
			}
			switch x := s.(type) {
			case *ast.IfStmt:
				x.Body.List = walk(x.Body.List)
				if e, ok := x.Else.(*ast.BlockStmt); ok {
					e.List = walk(e.List)
				}
			case *ast.BlockStmt:
				x.List = walk(x.List)
			case *ast.ForStmt:
				x.Body.List = walk(x.Body.List)
			case *ast.RangeStmt:
				x.Body.List = walk(x.Body.List)
			case *ast.SwitchStmt:
				for _, c := range x.Body.List {
					cc := c.(*ast.CaseClause)
					cc.Body = walk(cc.Body)
				}
			case *ast.TypeSwitchStmt:
				for _, c := range x.Body.List {
					cc := c.(*ast.CaseClause)
					cc.Body = walk(cc.Body)
				}
			}
			out = append(out, s)
		}
		return out
	}
	body.List = walk(body.List)
}

// inlineAdjacent applies E9: `v := e` immediately followed by the only
// statement that uses v, exactly once, stands for that statement with e in
// place of v (a temporary introduced or removed for readability).
func inlineAdjacent(body *ast.BlockStmt) {
	count := func(n ast.Node, name string) int {
		k := 0
		ast.Inspect(n, func(x ast.Node) bool {
			if sel, ok := x.(*ast.SelectorExpr); ok {
				// the selected field or method is not a use of the variable
				ast.Inspect(sel.X, func(y ast.Node) bool {
					if id, ok := y.(*ast.Ident); ok && id.Name == name {
						k++
					}
					return true
				})
				return false
			}
			if id, ok := x.(*ast.Ident); ok && id.Name == name {
				k++
			}
			return true
		})
		return k
	}
	var walk func(list []ast.Stmt) []ast.Stmt
	walk = func(list []ast.Stmt) []ast.Stmt {
		var out []ast.Stmt
		for i := 0; i < len(list); i++ {
			s := list[i]
			if as, ok := s.(*ast.AssignStmt); ok && as.Tok == token.DEFINE && len(as.Lhs) == 1 && len(as.Rhs) == 1 && i+1 < len(list) {
				if id, ok := as.Lhs[0].(*ast.Ident); ok && id.Name != "_" {
					next := list[i+1]
					rest := 0
					for _, t := range list[i+2:] {
						rest += count(t, id.Name)
					}
					simple := false
					switch next.(type) {
					case *ast.ExprStmt, *ast.AssignStmt, *ast.ReturnStmt:
						simple = true
					}
					if simple && rest == 0 && count(next, id.Name) == 1 {
						rhs := as.Rhs[0]
						replaced := false
						var sub func(n ast.Node) bool
						sub = func(n ast.Node) bool {
							switch x := n.(type) {
							case *ast.CallExpr:
								for j, a := range x.Args {
									if aid, ok := a.(*ast.Ident); ok && aid.Name == id.Name {
										x.Args[j] = rhs
										replaced = true
									}
								}
								if fid, ok := x.Fun.(*ast.Ident); ok && fid.Name == id.Name {
									_ = fid
								}
							case *ast.ReturnStmt:
								for j, a := range x.Results {
									if aid, ok := a.(*ast.Ident); ok && aid.Name == id.Name {
										x.Results[j] = rhs
										replaced = true
									}
								}
							case *ast.AssignStmt:
								for j, a := range x.Rhs {
									if aid, ok := a.(*ast.Ident); ok && aid.Name == id.Name {
										x.Rhs[j] = rhs
										replaced = true
									}
								}
							}
							return !replaced
						}
						ast.Inspect(next, sub)
						if replaced {
							continue // the declaration is gone; next is emitted on the following iteration
						}
					}
				}
			}
			switch x := s.(type) {
			case *ast.IfStmt:
				x.Body.List = walk(x.Body.List)
				if e, ok := x.Else.(*ast.BlockStmt); ok {
					e.List = walk(e.List)
				}
			case *ast.BlockStmt:
				x.List = walk(x.List)
			case *ast.ForStmt:
				x.Body.List = walk(x.Body.List)
			case *ast.RangeStmt:
				x.Body.List = walk(x.Body.List)
			case *ast.SwitchStmt:
				for _, c := range x.Body.List {
					cc := c.(*ast.CaseClause)
					cc.Body = walk(cc.Body)
				}
			case *ast.TypeSwitchStmt:
				for _, c := range x.Body.List {
					cc := c.(*ast.CaseClause)
					cc.Body = walk(cc.Body)
				}
			}
			out = append(out, s)
		}
		return out
	}
	body.List = walk(body.List)
}

// mapPrimitives rewrites expressions (E3, E8) in place; side is "fork" or "base".
func mapPrimitives(fd *ast.FuncDecl, side string) {
	// result type
	if fd.Type.Results != nil {
		for _, f := range fd.Type.Results.List {
			if sel, ok := f.Type.(*ast.SelectorExpr); ok && sel.Sel.Name == "RedactableString" {
				f.Type = ast.NewIdent("string")
			}
		}
	}
	rewrite := func(e ast.Expr) ast.Expr {
		call, ok := e.(*ast.CallExpr)
		if !ok {
			return e
		}
		sel, ok := call.Fun.(*ast.SelectorExpr)
		if ok {
			switch sel.Sel.Name {
			case "printVerbArg":
				sel.Sel = ast.NewIdent("printArg")
			default:
				if printArgWrappers[sel.Sel.Name] {
					sel.Sel = ast.NewIdent("printArg")
				}
			case "Cap":
				if len(call.Args) == 0 {
					return &ast.CallExpr{Fun: ast.NewIdent("cap"), Args: []ast.Expr{sel.X}}
				}
			case "TakeRedactableString":
				return &ast.CallExpr{Fun: ast.NewIdent("string"), Args: []ast.Expr{sel.X}}
			case "TakeRedactableBytes":
				return sel.X
			}
		}
		// []byte(X) where X was TakeRedactableBytes → X
		if at, ok := call.Fun.(*ast.ArrayType); ok && at.Len == nil && len(call.Args) == 1 {
			if inner, ok := call.Args[0].(*ast.CallExpr); ok {
				if isel, ok := inner.Fun.(*ast.SelectorExpr); ok && isel.Sel.Name == "TakeRedactableBytes" {
					return isel.X
				}
			}
		}
		return e
	}
	var fix func(n ast.Node)
	fix = func(n ast.Node) {
		ast.Inspect(n, func(x ast.Node) bool {
			switch v := x.(type) {
			case *ast.AssignStmt:
				for i, r := range v.Rhs {
					v.Rhs[i] = rewrite(r)
				}
			case *ast.CallExpr:
				for i, a := range v.Args {
					v.Args[i] = rewrite(a)
				}
				rewrite(v)
			case *ast.BinaryExpr:
				v.X = rewrite(v.X)
				v.Y = rewrite(v.Y)
			case *ast.ExprStmt:
				v.X = rewrite(v.X)
			case *ast.ReturnStmt:
				for i, r := range v.Results {
					v.Results[i] = rewrite(r)
				}
			}
			return true
		})
	}
	fix(fd)
	// statements: Reset() and EMIT
	var stm func(list []ast.Stmt) []ast.Stmt
	emit := func(x ast.Expr) ast.Stmt {
		return &ast.ExprStmt{X: &ast.CallExpr{Fun: ast.NewIdent("EMIT"), Args: []ast.Expr{x}}}
	}
	stm = func(list []ast.Stmt) []ast.Stmt {
		var out []ast.Stmt
		for _, s := range list {
			switch x := s.(type) {
			case *ast.ExprStmt:
				if call, ok := x.X.(*ast.CallExpr); ok {
					if sel, ok := call.Fun.(*ast.SelectorExpr); ok {
						if sel.Sel.Name == "Reset" && len(call.Args) == 0 {
							out = append(out, &ast.AssignStmt{Lhs: []ast.Expr{sel.X}, Tok: token.ASSIGN, Rhs: []ast.Expr{&ast.SliceExpr{X: sel.X, High: &ast.BasicLit{Kind: token.INT, Value: "0"}}}})
							continue
						}
						if sel.Sel.Name == "WriteByte" && len(call.Args) == 1 {
							out = append(out, emit(call.Args[0]))
							continue
						}
					}
				}
			case *ast.AssignStmt:
				// base side of fmtSbx: buf := *f.buf ; buf = append(buf, a, b) ; *f.buf = buf
				if len(x.Lhs) == 1 && len(x.Rhs) == 1 {
					if id, ok := x.Lhs[0].(*ast.Ident); ok && id.Name == "buf" {
						if st, ok := x.Rhs[0].(*ast.StarExpr); ok && exprString(st.X) == "f.buf" {
							continue
						}
						if call, ok := x.Rhs[0].(*ast.CallExpr); ok {
							if fn, ok := call.Fun.(*ast.Ident); ok && fn.Name == "append" && len(call.Args) >= 2 && exprString(call.Args[0]) == "buf" && !call.Ellipsis.IsValid() {
								for _, a := range call.Args[1:] {
									out = append(out, emit(a))
								}
								continue
							}
						}
					}
					if st, ok := x.Lhs[0].(*ast.StarExpr); ok && exprString(st.X) == "f.buf" && exprString(x.Rhs[0]) == "buf" {
						continue
					}
				}
			case *ast.IfStmt:
				x.Body.List = stm(x.Body.List)
				if e, ok := x.Else.(*ast.BlockStmt); ok {
					e.List = stm(e.List)
				}
			case *ast.ForStmt:
				x.Body.List = stm(x.Body.List)
			case *ast.RangeStmt:
				x.Body.List = stm(x.Body.List)
			case *ast.BlockStmt:
				x.List = stm(x.List)
			}
			out = append(out, s)
		}
		return out
	}
	if fd.Body != nil {
		fd.Body.List = stm(fd.Body.List)
	}
}

func exprString(e ast.Expr) string {
	var b bytes.Buffer
	printer.Fprint(&b, token.NewFileSet(), e)
	return b.String()
}

// renameParams alpha-renames parameters to p0, p1, …
func renameParams(fd *ast.FuncDecl) {
	m := map[string]string{}
	k := 0
	if fd.Type.Params != nil {
		for _, f := range fd.Type.Params.List {
			for _, n := range f.Names {
				m[n.Name] = fmt.Sprintf("p%d", k)
				k++
			}
		}
	}
	if fd.Recv != nil {
		for _, f := range fd.Recv.List {
			for _, n := range f.Names {
				m[n.Name] = "recv"
			}
		}
	}
	ast.Inspect(fd, func(n ast.Node) bool {
		if id, ok := n.(*ast.Ident); ok {
			if r, ok := m[id.Name]; ok {
				id.Name = r
			}
		}
		// do not rename field selectors
		if sel, ok := n.(*ast.SelectorExpr); ok {
			ast.Inspect(sel.X, func(x ast.Node) bool {
				if id, ok := x.(*ast.Ident); ok {
					if r, ok := m[id.Name]; ok {
						id.Name = r
					}
				}
				return true
			})
			return false
		}
		return true
	})
}

// auditFuncs parses src and returns normalised function texts.
func (a *auditor) auditFuncs(name, src, side string) (map[string][]string, error) {
	fset := token.NewFileSet()
	f, err := parser.ParseFile(fset, name, src, 0)
	if err != nil {
		return nil, err
	}
	if side == "fork" {
		a.pkgAliases = map[string]bool{}
		for _, im := range f.Imports {
			p := strings.Trim(im.Path.Value, `"`)
			if strings.HasPrefix(p, "github.com/cockroachdb/redact/") && !strings.HasSuffix(p, "/fmtsort") && !strings.HasSuffix(p, "/internal/buffer") {
				if im.Name != nil {
					a.pkgAliases[im.Name.Name] = true
				} else {
					a.pkgAliases[filepath.Base(p)] = true
				}
			}
		}
	}
	out := map[string][]string{}
	for _, d := range f.Decls {
		fd, ok := d.(*ast.FuncDecl)
		if !ok || fd.Body == nil {
			continue
		}
		key := fd.Name.Name
		if fd.Recv != nil && len(fd.Recv.List) == 1 {
			key = exprString(fd.Recv.List[0].Type) + "." + key
		}
		fd.Doc = nil
		if side == "fork" {
			fd.Body.List = a.inlineOwnReturn(fd.Body.List)
			if a.inlineOwn {
				fd.Body.List = a.inlineOwnStmts(fd.Body.List, 0)
			}
			fd.Body.List = a.eraseStmts(fd.Body.List)
			for k := 0; k < 3; k++ {
				dropUnused(fd.Body)
			}
			fd.Body.List = a.eraseStmts(fd.Body.List) // flatten what E6 uncovered
		}
		inlineAdjacent(fd.Body)
		mapPrimitives(fd, side)
		renameParams(fd)
		fd = canonFunc(fd)
		var b bytes.Buffer
		if err := printer.Fprint(&b, token.NewFileSet(), fd); err != nil {
			return nil, err
		}
		var lines []string
		for _, l := range strings.Split(b.String(), "\n") {
			l = strings.TrimSpace(l)
			l = reIface.ReplaceAllString(l, "any")
			l = rePtr.ReplaceAllString(l, "reflect.Pointer")
			if l != "" {
				lines = append(lines, l)
			}
		}
		out[key] = lines
	}
	return out, nil
}

// functions the fork rewrote as a whole; each has its own rule.
var auditSkip = map[string]string{
	"*buffer.write":       "buffer primitive (A-buf)",
	"*buffer.writeString": "buffer primitive (A-buf)",
	"*buffer.writeByte":   "buffer primitive (A-buf)",
	"*buffer.writeRune":   "buffer primitive (A-buf)",
	"*fmt.writePadding":   "rewritten; shape rule C04.b",
}

func ruleC04a3(c *Ctx) []*report.Result {
	r := report.NewResult("C04.a3", "audit of the instrumentation: after erasing the instrumentation forms (deferred start*/restore, redact-only helper calls, closures that only carry such a defer, branches, tagless switches and type-switch arms on redact-specific names, variables they alone use) and mapping the buffer primitives, every function of print.go/format.go is identical (i) to the function of the same name in the import base reconstructed from the recorded patch, when that patch is current, and (ii) to the function of the same name in the reference fmt, up to the recorded upstream evolution — (ii) does not use the recorded patch at all: the fork classifies output, it does not change what fmt computes", 110)
	base, stale := c.reconstructBaseStale(report.NewResult("x", "", 0))
	own := ownNames(filepath.Join(c.P.Dir, "internal/rfmt"))
	for _, f := range []string{"print.go", "format.go"} {
		cur, err := os.ReadFile(filepath.Join(c.P.Dir, "internal/rfmt", f))
		if err != nil {
			r.Undecide("cannot read " + f)
			continue
		}
		a := &auditor{own: own, ownFuncs: ownMethods(filepath.Join(c.P.Dir, "internal/rfmt"))}
		fork, err1 := a.auditFuncs(f, string(cur), "fork")
		// second reading of the fork: statements that only call an unexported
		// helper of the hand-written files are read in place instead of being
		// erased (a piece of fmt's own code moved into a helper)
		a2 := &auditor{own: own, ownFuncs: a.ownFuncs, inlineOwn: true}
		fork2, _ := a2.auditFuncs(f, string(cur), "fork")
		if err1 != nil {
			r.Undecide(fmt.Sprintf("cannot parse %s: %v", f, err1))
			continue
		}
		// (i) against the reconstructed import base
		if src, ok := base[f]; ok && !stale[f] {
			orig, err2 := a.auditFuncs(f, src, "base")
			if err2 != nil {
				r.Undecide(fmt.Sprintf("cannot parse the import base of %s: %v", f, err2))
				continue
			}
			keys := make([]string, 0, len(orig))
			for k := range orig {
				keys = append(keys, k)
			}
			sort.Strings(keys)
			for _, k := range keys {
				construct := "rfmt " + f + " / " + k
				if why, skip := auditSkip[k]; skip {
					r.Note(k + ": " + why)
					continue
				}
				fk, ok := fork[k]
				if !ok {
					r.Fail(construct, "internal/rfmt/"+f, "function of the import base is missing from the fork", nil, "")
					continue
				}
				d := lineDiff(orig[k], fk)
				if len(d) != 0 && fork2 != nil {
					if d2 := lineDiff(orig[k], fork2[k]); len(d2) == 0 {
						d = nil
						fork[k] = fork2[k]
					}
				}
				if len(d) == 0 {
					r.Ok(k + ": identical to the import base after erasure")
				} else {
					r.Fail(construct, "internal/rfmt/"+f, "deviates from the import base beyond the instrumentation forms: "+strings.Join(firstN(d, 6), " | "), nil, "")
				}
			}
		} else {
			r.Note(f + ": the recorded patch is not current; decided by the direct comparison with the reference fmt only")
			r.Floor -= map[string]int{"print.go": 42, "format.go": 24}[f] // the obligations of (i) for this file are not stated
		}
		// (ii) against the reference fmt, without the recorded patch
		c.auditAgainstReference(r, a, f, fork, nil, nil, fork2)
	}
	return []*report.Result{r}
}

type mappedEvolution map[string]map[string][]string // file -> function -> diff lines (audit normal form)

const absentInBase = "<not in the import base>"

// auditAgainstReference compares the erased and mapped fork functions with
// the mapped functions of each reference fmt; a difference must be exactly
// the one recorded in evolution_mapped.json for that reference. With gen
// non-nil nothing is reported and the table is filled instead (from the
// reconstructed import base, which is what the fork must reduce to).
func (c *Ctx) auditAgainstReference(r *report.Result, a *auditor, f string, fork map[string][]string, gen map[string]mappedEvolution, only func(string) bool, alts ...map[string][]string) {
	refs, _ := filepath.Glob(filepath.Join(c.oracleDir(), "go*"))
	sort.Strings(refs)
	type refData struct {
		name  string
		funcs map[string][]string
		evo   map[string][]string
	}
	var rds []refData
	for _, rd := range refs {
		b, err := os.ReadFile(filepath.Join(rd, f+".txt"))
		if err != nil {
			continue
		}
		ft, err := (&auditor{}).auditFuncs(f, string(b), "base")
		if err != nil {
			if r != nil {
				r.Undecide("reference " + rd + "/" + f + " does not parse")
			}
			continue
		}
		var evo mappedEvolution
		if eb, err := os.ReadFile(filepath.Join(rd, "evolution_mapped.json")); err == nil {
			json.Unmarshal(eb, &evo)
		}
		rds = append(rds, refData{filepath.Base(rd), ft, evo[f]})
	}
	if gen != nil {
		for _, rd := range rds {
			if gen[rd.name] == nil {
				gen[rd.name] = mappedEvolution{}
			}
			m := map[string][]string{}
			for k, up := range rd.funcs {
				fk, ok := fork[k]
				if !ok {
					m[k] = []string{absentInBase}
					continue
				}
				if d := lineDiff(fk, up); len(d) > 0 {
					m[k] = d
				}
			}
			for k, fk := range fork {
				if _, ok := rd.funcs[k]; !ok {
					m[k] = lineDiff(fk, nil)
				}
			}
			gen[rd.name][f] = m
		}
		return
	}
	if len(rds) == 0 {
		r.Undecide("no reference fmt sources under " + c.oracleDir())
		return
	}
	// the functions to account for: those of a reference or of a recorded entry
	keys := map[string]bool{}
	for _, rd := range rds {
		for k := range rd.funcs {
			keys[k] = true
		}
		for k := range rd.evo {
			keys[k] = true
		}
	}
	var ks []string
	for k := range keys {
		ks = append(ks, k)
	}
	sort.Strings(ks)
	for _, k := range ks {
		if _, skip := auditSkip[k]; skip {
			continue
		}
		if only != nil && !only(k) {
			continue
		}
		construct := "rfmt " + f + " / " + k + " vs reference"
		okAny, why := false, ""
		for _, rd := range rds {
			rec := rd.evo[k]
			up, inRef := rd.funcs[k]
			fk, inFork := fork[k]
			if len(rec) == 1 && rec[0] == absentInBase {
				// added upstream after the import: nothing to compare
				okAny = true
				break
			}
			if !inFork {
				why = "function of the reference fmt (" + rd.name + ") is missing from the fork"
				continue
			}
			if !inRef {
				up = nil
			}
			d := lineDiff(fk, up)
			if equalStrings(d, rec) || (len(d) == 0 && len(rec) == 0) {
				okAny = true
				break
			}
			for _, alt := range alts {
				if ak, ok := alt[k]; ok {
					if d2 := lineDiff(ak, up); equalStrings(d2, rec) || (len(d2) == 0 && len(rec) == 0) {
						okAny = true
					}
				}
			}
			if okAny {
				break
			}
			if why == "" || len(d) < 8 {
				seen := map[string]int{}
				for _, l := range rec {
					seen[l]++
				}
				var beyond []string
				for _, l := range d {
					if seen[l] > 0 {
						seen[l]--
					} else {
						beyond = append(beyond, l)
					}
				}
				for l, n := range seen {
					if n > 0 {
						beyond = append(beyond, "(recorded evolution line no longer present: "+l+")")
					}
				}
				sort.Strings(beyond)
				why = fmt.Sprintf("after erasure it differs from %s's fmt beyond the recorded upstream evolution ('-' fork, '+' reference): %s", rd.name, strings.Join(firstN(beyond, 6), " | "))
			}
		}
		if okAny {
			r.Ok(k + ": fmt's function after erasure")
		} else {
			r.Fail(construct, "internal/rfmt/"+f, why, nil, "")
		}
	}
}
