package rules

import (
	"fmt"
	"go/constant"
	"go/token"
	"go/types"
	"strings"

	"golang.org/x/tools/go/ssa"

	"redactverif/report"
)

func init() {
	register("C12.a", ruleC12a)
	register("C12.e", ruleC12e)
	register("C02.b", ruleC02b)
	register("C05.e", ruleC05e)
	register("C01.c", ruleC01c)
}

// printingRoots: exported functions and methods from which printing starts.
func (c *Ctx) printingRoots() []*ssa.Function {
	var out []*ssa.Function
	for _, fn := range c.P.ModuleFunctions() {
		if fn.Parent() != nil || fn.Object() == nil || !fn.Object().Exported() {
			continue
		}
		if strings.HasPrefix(fn.Name(), "Register") {
			continue
		}
		out = append(out, fn)
	}
	// every method of the printer is reachable through callbacks
	for _, fn := range c.P.ModuleFunctions() {
		if recvNamed(fn) == tPP && fn.Parent() == nil {
			out = append(out, fn)
		}
	}
	return out
}

// ruleC12a: no shared mutable state on print paths.
func ruleC12a(c *Ctx) []*report.Result {
	r := report.NewResult("C12.a", "every write to a package-level variable (store, map update through it, or its address passed to a call) lies in a package initialiser or in an exported Register* function, and no Register* function is reachable from a printing entry point or printer method; the module starts no goroutine, uses no channel and no sync primitive other than the printer pool", 3)
	writers := map[*ssa.Function][]string{}
	for _, fn := range c.P.ModuleFunctions() {
		for _, b := range fn.Blocks {
			for _, ins := range b.Instrs {
				pos := c.P.Pos(ins.Pos())
				switch x := ins.(type) {
				case *ssa.Store:
					if g := rootGlobal(x.Addr); g != nil {
						writers[fn] = append(writers[fn], g.Name()+" @"+pos)
					}
				case *ssa.MapUpdate:
					if u, ok := x.Map.(*ssa.UnOp); ok {
						if g, ok := u.X.(*ssa.Global); ok {
							writers[fn] = append(writers[fn], g.Name()+" (map update) @"+pos)
						}
					}
				case *ssa.Go:
					r.Fail(shortFn(fn.String())+" / goroutine", pos, "the module starts a goroutine", nil, "")
				case *ssa.Send, *ssa.Select, *ssa.MakeChan:
					r.Fail(shortFn(fn.String())+" / channel", pos, "the module uses a channel", nil, "")
				case ssa.CallInstruction:
					f := x.Common().StaticCallee()
					if f != nil && (pkgPathOf(f) == "sync" || pkgPathOf(f) == "sync/atomic") {
						if !strings.HasPrefix(f.String(), "(*sync.Pool).") {
							r.Fail(shortFn(fn.String())+" / sync primitive", pos, "unexpected synchronisation primitive "+f.String(), nil, "")
						} else {
							r.Ok(shortFn(fn.String()) + " uses the printer pool")
						}
					}
					for _, a := range x.Common().Args {
						if g, ok := a.(*ssa.Global); ok {
							// address of a global handed to a call: only the pool
							if f == nil || !strings.HasPrefix(f.String(), "(*sync.Pool).") {
								writers[fn] = append(writers[fn], g.Name()+" (address passed to a call) @"+pos)
							}
						}
					}
				}
			}
		}
	}
	reachFromPrint := map[*ssa.Function]bool{}
	for _, root := range c.printingRoots() {
		reachFromPrint[root] = true
		for f := range c.reach(root, false) {
			reachFromPrint[f] = true
		}
	}
	for fn, ws := range writers {
		name := shortFn(fn.String())
		isInit := fn.Name() == "init" || strings.HasPrefix(fn.Name(), "init#")
		isRegister := fn.Object() != nil && fn.Object().Exported() && strings.HasPrefix(fn.Name(), "Register") && fn.Signature.Recv() == nil
		switch {
		case isInit:
			r.Ok(name + " initialises " + fmt.Sprint(len(ws)) + " package variables")
		case isRegister && !reachFromPrint[fn]:
			r.Ok(name + " (configuration entry point, not reachable from printing) writes " + ws[0])
		case isRegister:
			r.Fail(name+" / reachable from printing", c.P.Pos(fn.Pos()), "a Register* function is reachable from a printing entry point", nil, "")
		default:
			r.Fail(name+" / writes package state", c.P.Pos(fn.Pos()), "a function on the printing side writes package-level state: "+strings.Join(ws, ", ")+" — results then depend on earlier calls and concurrent calls race", nil, "")
		}
	}
	return []*report.Result{r}
}

// ruleC12e: a printer never outlives its call.
func ruleC12e(c *Ctx) []*report.Result {
	r := report.NewResult("C12.e", "a *pp (or a restorer holding one) is stored only into local variables: never into a package variable, a heap object or a channel; it leaves the call only as the interface argument of a user callback or into the pool", 1)
	holdsPP := func(t types.Type) bool {
		if p, ok := t.(*types.Pointer); ok && namedOf(p.Elem()) == tPP {
			return true
		}
		return namedOf(t) == restorerName
	}
	// the matcher sees the types it is about (so that "no store" is a finding
	// about the code and not about the matcher)
	makers := 0
	for _, fn := range c.P.ModuleFunctions() {
		if res := fn.Signature.Results(); res.Len() == 1 && holdsPP(res.At(0).Type()) {
			makers++
		}
	}
	if makers > 0 {
		r.Ok(fmt.Sprintf("%d functions return a printer or a restorer holding one", makers))
	}
	for _, fn := range c.P.ModuleFunctions() {
		for _, b := range fn.Blocks {
			for _, ins := range b.Instrs {
				st, ok := ins.(*ssa.Store)
				if !ok || !holdsPP(st.Val.Type()) {
					continue
				}
				construct := shortFn(fn.String()) + " / printer stored"
				pos := c.P.Pos(st.Pos())
				local := false
				switch a := st.Addr.(type) {
				case *ssa.Alloc:
					local = !a.Heap || closureCellOnly(a)
				case *ssa.FieldAddr:
					if al, ok := a.X.(*ssa.Alloc); ok {
						local = !al.Heap
					}
				}
				if local {
					r.Ok(construct + " into a local @" + pos)
				} else {
					r.Fail(construct, pos, "a printer is stored into "+st.Addr.String()+", which outlives the call", nil, "")
				}
			}
		}
	}
	return []*report.Result{r}
}

// closureCellOnly: a heap cell that exists only because a closure captures
// the variable, the closure being used as a call argument and nothing else
// (it cannot outlive the call unless the callee keeps it, which for the
// module's own helpers the same rule excludes).
func closureCellOnly(al *ssa.Alloc) bool {
	if al.Referrers() == nil {
		return false
	}
	for _, ref := range *al.Referrers() {
		switch x := ref.(type) {
		case *ssa.Store:
			if x.Addr != ssa.Value(al) {
				return false
			}
		case *ssa.UnOp, *ssa.DebugRef:
		case *ssa.MakeClosure:
			if x.Referrers() == nil {
				return false
			}
			for _, u := range *x.Referrers() {
				ci, ok := u.(ssa.CallInstruction)
				if !ok {
					return false
				}
				if _, isGo := u.(*ssa.Go); isGo {
					return false
				}
				if ci.Common().Value == ssa.Value(x) {
					continue // called in place
				}
				g := ci.Common().StaticCallee()
				if g == nil {
					return false
				}
				// the callee only calls the function value
				for i, a := range ci.Common().Args {
					if a != ssa.Value(x) || i >= len(g.Params) {
						continue
					}
					if g.Params[i].Referrers() == nil {
						continue
					}
					for _, pu := range *g.Params[i].Referrers() {
						if _, isDbg := pu.(*ssa.DebugRef); isDbg {
							continue
						}
						pc, ok := pu.(ssa.CallInstruction)
						if !ok || pc.Common().Value != ssa.Value(g.Params[i]) {
							return false
						}
						if _, isGo := pu.(*ssa.Go); isGo {
							return false
						}
					}
				}
			}
		default:
			return false
		}
	}
	return true
}

// setter: calling fn installs the value when param < 0, or when the
// argument for parameter param is that value.
type setter struct {
	fn    *ssa.Function
	param int
}

// installers finds the family of printer methods returning a restorer
// through which a given value reaches the printer's override field
// (field == "override") or Buffer.SetMode (field == "mode"): a method that
// stores the constant, one that stores a parameter, and methods of the
// family that call those with the constant or pass their own parameter on.
// The second result lists the call sites outside the family at which the
// value is installed: these are the sites that classify an operand.
func (c *Ctx) installers(field string, val int64) (map[*ssa.Function]setter, []*ssa.Call) {
	fam := map[*ssa.Function]setter{}
	inFamily := func(fn *ssa.Function) bool { return recvNamed(fn) == tPP && returnsRestorer(fn) }
	paramIdx := func(fn *ssa.Function, v ssa.Value) int {
		if p, ok := v.(*ssa.Parameter); ok {
			return paramIndex(fn, p)
		}
		return -1
	}
	note := func(fn *ssa.Function, v ssa.Value) bool {
		if k, ok := intConst(v); ok {
			if k == val {
				if _, had := fam[fn]; !had {
					fam[fn] = setter{fn, -1}
					return true
				}
			}
			return false
		}
		if i := paramIdx(fn, v); i >= 0 {
			if _, had := fam[fn]; !had {
				fam[fn] = setter{fn, i}
				return true
			}
		}
		return false
	}
	for _, fn := range c.P.ModuleFunctions() {
		if !inFamily(fn) {
			continue
		}
		for _, b := range fn.Blocks {
			for _, ins := range b.Instrs {
				switch x := ins.(type) {
				case *ssa.Store:
					if fa, ok := x.Addr.(*ssa.FieldAddr); ok && field == "override" && fieldName(fa) == "override" {
						if _, isLocal := fa.X.(*ssa.Alloc); !isLocal {
							note(fn, x.Val)
						}
					}
				case *ssa.Call:
					if f := x.Common().StaticCallee(); f != nil && field == "mode" && f.Name() == "SetMode" && recvNamed(f) == tBuffer {
						note(fn, x.Common().Args[1])
					}
				}
			}
		}
	}
	installs := func(call *ssa.Call) (bool, ssa.Value) {
		f := call.Common().StaticCallee()
		if f == nil {
			return false, nil
		}
		st, ok := fam[f]
		if !ok {
			return false, nil
		}
		if st.param < 0 {
			return true, nil
		}
		if st.param < len(call.Common().Args) {
			return true, call.Common().Args[st.param]
		}
		return false, nil
	}
	for changed := true; changed; {
		changed = false
		for _, fn := range c.P.ModuleFunctions() {
			if !inFamily(fn) {
				continue
			}
			for _, b := range fn.Blocks {
				for _, ins := range b.Instrs {
					if call, ok := ins.(*ssa.Call); ok {
						if is, arg := installs(call); is {
							if arg == nil {
								if _, had := fam[fn]; !had {
									fam[fn] = setter{fn, -1}
									changed = true
								}
							} else if note(fn, arg) {
								changed = true
							}
						}
					}
				}
			}
		}
	}
	var sites []*ssa.Call
	for _, fn := range c.P.ModuleFunctions() {
		if inFamily(fn) {
			continue
		}
		for _, b := range fn.Blocks {
			for _, ins := range b.Instrs {
				if call, ok := ins.(*ssa.Call); ok {
					if is, arg := installs(call); is {
						if arg == nil {
							sites = append(sites, call)
						} else if k, ok := intConst(arg); !ok || k == val {
							// a non-constant argument may be the value
							sites = append(sites, call)
						}
					}
				}
			}
		}
	}
	return fam, sites
}

// classifyType names the redact-specific role of a type.
func (c *Ctx) classifyType(t types.Type) string {
	t = types.Unalias(t)
	var svIface *types.Interface
	if ip := c.P.Pkg("interfaces"); ip != nil {
		if o := ip.Types.Scope().Lookup("SafeValue"); o != nil {
			svIface = o.Type().Underlying().(*types.Interface)
		}
	}
	switch namedOf(t) {
	case pkgMarkers + ".RedactableString":
		return "rstring"
	case pkgMarkers + ".RedactableBytes":
		return "rbytes"
	case pkgIfaces + ".SafeValue":
		return "safevalue"
	}
	if it, ok := t.Underlying().(*types.Interface); ok {
		if _, isNamed := t.(*types.Named); !isNamed || true {
			if it.NumMethods() == 1 && it.Method(0).Name() == "SafeMessage" {
				return "safemessager"
			}
			if svIface != nil && types.Identical(it, svIface) {
				return "safevalue"
			}
		}
		return ""
	}
	if n, ok := t.(*types.Named); ok && n.Obj().Pkg() != nil && n.Obj().Pkg().Path() == pkgWrap {
		if _, isStruct := n.Underlying().(*types.Struct); isStruct {
			if svIface != nil && types.Implements(n, svIface) {
				return "safewrap"
			}
			return "unsafewrap"
		}
	}
	return ""
}

// guardKinds classifies the branch conditions whose TRUE edge dominates blk.
func (c *Ctx) guardKinds(fn *ssa.Function, blk *ssa.BasicBlock) []string {
	var out []string
	for _, b := range fn.Blocks {
		iff, ok := b.Instrs[len(b.Instrs)-1].(*ssa.If)
		if !ok {
			continue
		}
		t := b.Succs[0]
		if !(t == blk || t.Dominates(blk)) || len(t.Preds) != 1 {
			continue
		}
		out = append(out, c.condKinds(iff.Cond, 0)...)
	}
	// a disjunction `A || B`: the guarded block has several predecessors, each
	// of which enters it by the TRUE edge of its own test; the block is
	// guarded by the disjunction when every way in is such an edge and every
	// disjunct is a recognised test
	for _, t := range fn.Blocks {
		if len(t.Preds) < 2 || !(t == blk || t.Dominates(blk)) {
			continue
		}
		var kinds []string
		all := true
		for _, p := range t.Preds {
			iff, ok := p.Instrs[len(p.Instrs)-1].(*ssa.If)
			if !ok || p.Succs[0] != t || p.Succs[1] == t {
				all = false
				break
			}
			ks := c.condKinds(iff.Cond, 0)
			if len(ks) == 0 {
				all = false
				break
			}
			kinds = append(kinds, ks...)
		}
		if all {
			out = append(out, kinds...)
		}
	}
	return out
}

// condKinds names the declassifier(s) a boolean value is the success of: a
// registry lookup, a comma-ok assertion, an equality with a type variable —
// or a call of a one-result helper of the module that returns such a value.
func (c *Ctx) condKinds(cond ssa.Value, depth int) []string {
	lab := c.Labels()
	var out []string
	switch cnd := cond.(type) {
	case *ssa.Lookup:
		if u, ok := cnd.X.(*ssa.UnOp); ok {
			if g, ok := u.X.(*ssa.Global); ok {
				out = append(out, "registry:"+g.Name())
			}
		}
	case *ssa.Extract:
		if ta, ok := cnd.Tuple.(*ssa.TypeAssert); ok && ta.CommaOk && cnd.Index == 1 {
			out = append(out, "assert:"+c.classifyType(ta.AssertedType))
		}
		if lk, ok := cnd.Tuple.(*ssa.Lookup); ok && lk.CommaOk {
			if u, ok := lk.X.(*ssa.UnOp); ok {
				if g, ok := u.X.(*ssa.Global); ok {
					out = append(out, "registry:"+g.Name())
				}
			}
		}
	case *ssa.BinOp:
		if cnd.Op == token.EQL {
			for _, side := range []ssa.Value{cnd.X, cnd.Y} {
				if u, ok := side.(*ssa.UnOp); ok {
					if g, ok := u.X.(*ssa.Global); ok {
						if t := lab.TypeGlobal(g); t != nil {
							out = append(out, "type=="+c.classifyType(t))
						}
					}
				}
			}
		}
	case *ssa.Call:
		if f := cnd.Common().StaticCallee(); f != nil && depth < 3 && c.P.InModule(f) && f.Blocks != nil && f.Signature.Results().Len() == 1 {
			if rv := singleReturn(f); rv != nil {
				out = append(out, c.condKinds(rv, depth+1)...)
			}
		}
	}
	// classification computed as data: `result != none` / `result == safe`
	// where result is what a function of the module returns; the kinds are
	// those of the tests under which that function produces the value
	if bo, ok := cond.(*ssa.BinOp); ok && (bo.Op == token.NEQ || bo.Op == token.EQL) && depth < 3 {
		val, cst := bo.X, bo.Y
		if _, isC := val.(*ssa.Const); isC {
			val, cst = cst, val
		}
		if k, ok := intConst(cst); ok {
			want := int64(-1) // any non-zero value
			if bo.Op == token.EQL {
				want = k
			} else if k != 0 {
				return out
			}
			out = append(out, c.resultKinds(val, want)...)
		}
	}
	return out
}

// resultKinds: v is (a result of) a call of a module function; the
// declassifier kinds under which that function produces the wanted constant
// (want < 0: any non-zero constant). Empty when some such production is not
// under a recognised test.
func (c *Ctx) resultKinds(v ssa.Value, want int64) []string {
	idx := 0
	if ex, ok := v.(*ssa.Extract); ok {
		idx, v = ex.Index, ex.Tuple
	}
	call, ok := v.(*ssa.Call)
	if !ok {
		return nil
	}
	f := call.Common().StaticCallee()
	if f == nil || !c.P.InModule(f) || f.Blocks == nil || f.Recover != nil {
		return nil
	}
	var out []string
	okAll := true
	var trace func(x ssa.Value, at *ssa.BasicBlock, depth int)
	trace = func(x ssa.Value, at *ssa.BasicBlock, depth int) {
		if depth > 4 {
			okAll = false
			return
		}
		switch y := x.(type) {
		case *ssa.Const:
			k, ok := intConst(y)
			if !ok || k == 0 || (want >= 0 && k != want) {
				return
			}
			ks := c.guardKinds(f, at)
			if len(ks) == 0 {
				okAll = false
			}
			out = append(out, ks...)
		case *ssa.Phi:
			for i, e := range y.Edges {
				trace(e, y.Block().Preds[i], depth+1)
			}
		default:
			okAll = false
		}
	}
	n := 0
	for _, b := range f.Blocks {
		if ret, ok := b.Instrs[len(b.Instrs)-1].(*ssa.Return); ok && idx < len(ret.Results) {
			n++
			trace(ret.Results[idx], b, 0)
		}
	}
	if !okAll || n == 0 {
		return nil
	}
	return out
}

// ruleC02b: declassifier guards.
func ruleC02b(c *Ctx) []*report.Result {
	r := report.NewResult("C02.b", "every call of the helper that installs the safe override is control-dependent on the success edge of exactly one declassifier — a lookup in the safe-type registry, equality with the Safe wrapper type, a successful assertion to SafeValue or SafeMessager — or opens a printer method whose parameter type implements SafeValue; every call of the pre-redactable helper is guarded by a redactable static type or type-variable equality: no new or inverted declassifier", 12)
	ip := c.P.Pkg("interfaces")
	var svIface *types.Interface
	if ip != nil {
		if o := ip.Types.Scope().Lookup("SafeValue"); o != nil {
			svIface = o.Type().Underlying().(*types.Interface)
		}
	}
	safeFam, safeSites := c.installers("override", 1)
	rawFam, rawSites := c.installers("mode", 2)
	if len(safeFam) == 0 || len(rawFam) == 0 || svIface == nil {
		r.Undecide(fmt.Sprintf("expected a safe-override helper and a pre-redactable helper, found %d and %d", len(safeFam), len(rawFam)))
		return []*report.Result{r}
	}
	isSafeSite := map[*ssa.Call]bool{}
	for _, s := range safeSites {
		isSafeSite[s] = true
	}
	for _, call := range append(append([]*ssa.Call{}, safeSites...), rawSites...) {
		{
			{
				fn, b := call.Parent(), call.Block()
				f := call.Common().StaticCallee()
				pos := c.P.Pos(call.Pos())
				kinds := c.guardKinds(fn, b)
				construct := shortFn(fn.String()) + " / " + f.Name()
				if isSafeSite[call] {
					var justified func(fn *ssa.Function, b *ssa.BasicBlock, depth int) (bool, string)
					justified = func(fn *ssa.Function, b *ssa.BasicBlock, depth int) (bool, string) {
						for _, k := range c.guardKinds(fn, b) {
							switch {
							case strings.HasPrefix(k, "registry:"):
								return true, "registered safe type"
							case k == "type==safewrap":
								return true, "Safe() wrapper"
							case k == "assert:safevalue":
								return true, "SafeValue"
							case k == "assert:safemessager":
								return true, "SafeMessager"
							}
						}
						if recvNamed(fn) == tPP && len(fn.Params) == 2 && types.Implements(fn.Params[1].Type(), svIface) && (b == fn.Blocks[0] || len(c.guardKinds(fn, b)) == 0) {
							return true, "emitter whose parameter type is a SafeValue"
						}
						// an unexported helper of the printer: justified when
						// every one of its callers is
						if depth < 2 && recvNamed(fn) == tPP && fn.Object() != nil && !fn.Object().Exported() && fn.Parent() == nil {
							n := 0
							for _, g := range c.P.ModuleFunctions() {
								for _, gb := range g.Blocks {
									for _, gi := range gb.Instrs {
										if ci, ok := gi.(ssa.CallInstruction); ok && ci.Common().StaticCallee() == fn {
											n++
											if ok, _ := justified(g, gb, depth+1); !ok {
												return false, ""
											}
										}
									}
								}
							}
							if n > 0 {
								return true, "helper all of whose callers are declassified"
							}
						}
						return false, ""
					}
					ok, why := justified(fn, b, 0)
					if ok {
						r.Ok(construct + " guarded by " + why + " @" + pos)
					} else {
						r.Fail(construct, pos, "the safe override is installed without a recognised declassifier on its success edge (guards seen: "+strings.Join(kinds, ", ")+"): values not declared safe would be printed outside the markers", nil, "")
					}
				} else {
					var rawJustified func(fn *ssa.Function, b *ssa.BasicBlock, depth int) bool
					rawJustified = func(fn *ssa.Function, b *ssa.BasicBlock, depth int) bool {
						for _, k := range c.guardKinds(fn, b) {
							if k == "assert:rstring" || k == "assert:rbytes" || k == "type==rstring" || k == "type==rbytes" {
								return true
							}
						}
						// an unexported helper of the printer (a raw-write wrapper):
						// justified when every one of its call sites is
						if depth < 2 && recvNamed(fn) == tPP && fn.Object() != nil && !fn.Object().Exported() && fn.Parent() == nil {
							n := 0
							for _, g := range c.P.ModuleFunctions() {
								for _, gb := range g.Blocks {
									for _, gi := range gb.Instrs {
										if ci, ok := gi.(ssa.CallInstruction); ok && ci.Common().StaticCallee() == fn {
											n++
											if !rawJustified(g, gb, depth+1) {
												return false
											}
										}
										// the helper taken as a value has callers we cannot see
										for _, op := range gi.Operands(nil) {
											if *op == ssa.Value(fn) {
												if ci, ok := gi.(ssa.CallInstruction); !ok || ci.Common().Value != *op {
													return false
												}
											}
										}
									}
								}
							}
							return n > 0
						}
						return false
					}
					ok := rawJustified(fn, b, 0)
					if ok {
						r.Ok(construct + " guarded by a redactable type @" + pos)
					} else {
						r.Fail(construct, pos, "raw (pre-redactable) mode is entered without the operand having been proved redactable (guards seen: "+strings.Join(kinds, ", ")+")", nil, "")
					}
				}
			}
		}
	}
	return []*report.Result{r}
}

// registryKey: ins consults a map-typed package variable of the printer —
// directly (a lookup) or through a boolean helper of the module that returns
// such a lookup of its parameter; the result is the key looked up, as a value
// of the function ins belongs to.
func (c *Ctx) registryKey(ins ssa.Instruction) (ssa.Value, bool) {
	isRegistryLookup := func(lk *ssa.Lookup) bool {
		u, ok := lk.X.(*ssa.UnOp)
		if !ok {
			return false
		}
		g, ok := u.X.(*ssa.Global)
		return ok && pkgPathOfGlobal(g) == pkgRfmt
	}
	switch x := ins.(type) {
	case *ssa.Lookup:
		if isRegistryLookup(x) {
			return x.Index, true
		}
	case *ssa.Call:
		f := x.Common().StaticCallee()
		if f == nil || !c.P.InModule(f) || f.Blocks == nil || f.Signature.Results().Len() != 1 {
			return nil, false
		}
		rv := singleReturn(f)
		if ex, ok := rv.(*ssa.Extract); ok {
			rv = ex.Tuple
		}
		lk, ok := rv.(*ssa.Lookup)
		if !ok || !isRegistryLookup(lk) {
			return nil, false
		}
		if p, ok := lk.Index.(*ssa.Parameter); ok {
			if i := paramIndex(f, p); i >= 0 && i < len(x.Common().Args) {
				return x.Common().Args[i], true
			}
		}
	}
	return nil, false
}

// ruleC05e: the three detection routes cover the same check kinds.
func ruleC05e(c *Ctx) []*report.Result {
	r := report.NewResult("C05.e", "the three detection routes (plain operand, reflect.Value operand, below the top level of reflection) each test, before the kind switch: the Safe wrapper, the Unsafe wrapper, RedactableString, RedactableBytes, the safe-type registry, SafeValue, and method dispatch; wrappers and redactables are tested before method dispatch on each route", 10)
	pa := c.P.Func("internal/rfmt", "(*pp).printArg")
	pv := c.P.Func("internal/rfmt", "(*pp).printValue")
	hs := c.P.Func("internal/rfmt", "(*pp)."+specialFnName)
	hm := c.P.Func("internal/rfmt", "(*pp).handleMethods")
	if pa == nil || pv == nil || hs == nil || hm == nil {
		r.Undecide("printArg / printValue / handleSpecialValues / handleMethods not found")
		return []*report.Result{r}
	}
	lab := c.Labels()
	depthCount := 0
	var countRec func(fn *ssa.Function) map[string][]*ssa.BasicBlock
	count := func(fn *ssa.Function) map[string][]*ssa.BasicBlock {
		m := map[string][]*ssa.BasicBlock{}
		for _, b := range fn.Blocks {
			for _, ins := range b.Instrs {
				switch x := ins.(type) {
				case *ssa.Lookup:
					if u, ok := x.X.(*ssa.UnOp); ok {
						if _, ok := u.X.(*ssa.Global); ok {
							m["registry"] = append(m["registry"], b)
						}
					}
				case *ssa.TypeAssert:
					if k := c.classifyType(x.AssertedType); k == "safevalue" || k == "rstring" || k == "rbytes" {
						m[k] = append(m[k], b)
					}
				case *ssa.BinOp:
					if x.Op == token.EQL {
						for _, side := range []ssa.Value{x.X, x.Y} {
							if u, ok := side.(*ssa.UnOp); ok {
								if g, ok := u.X.(*ssa.Global); ok {
									if t := lab.TypeGlobal(g); t != nil {
										if k := c.classifyType(t); k == "safewrap" || k == "unsafewrap" || k == "rstring" || k == "rbytes" {
											m[k] = append(m[k], b)
										}
									}
								}
							}
						}
					}
				case *ssa.Call:
					switch x.Common().StaticCallee() {
					case hs:
						m["special"] = append(m["special"], b)
					case hm:
						m["methods"] = append(m["methods"], b)
					default:
						// tests made by a classification function of the
						// hand-written code called here (one level)
						if g := x.Common().StaticCallee(); g != nil && depthCount == 0 && c.P.InModule(g) && g.Blocks != nil && handWritten(c, g) && g.Signature.Recv() == nil && pkgPathOf(g) == pkgRfmt {
							depthCount++
							for k, bs := range countRec(g) {
								if len(bs) > 0 && (k == "registry" || k == "safevalue" || k == "safewrap" || k == "unsafewrap" || k == "rstring" || k == "rbytes") {
									m[k] = append(m[k], b)
								}
							}
							depthCount--
						}
						// a test moved into a boolean helper
						for _, k := range c.condKinds(x, 0) {
							switch {
							case strings.HasPrefix(k, "registry:"):
								m["registry"] = append(m["registry"], b)
							case strings.HasPrefix(k, "assert:"), strings.HasPrefix(k, "type=="):
								kk := k[strings.IndexAny(k, ":=")+1:]
								kk = strings.TrimPrefix(kk, "=")
								if kk == "safevalue" || kk == "rstring" || kk == "rbytes" || kk == "safewrap" || kk == "unsafewrap" {
									m[kk] = append(m[kk], b)
								}
							}
						}
					}
				}
			}
		}
		return m
	}
	countRec = count
	ms := count(hs)
	for _, k := range []string{"safewrap", "unsafewrap", "rstring", "rbytes"} {
		r.Check(len(ms[k]) >= 1, "(*internal/rfmt.pp).handleSpecialValues / "+k, c.P.Pos(hs.Pos()), "the shared special-value helper no longer tests "+k)
	}
	ma, mv := count(pa), count(pv)
	// plain route (printArg): inline wrapper tests + type-switch arms + registry + SafeValue + dispatch
	for _, k := range []string{"safewrap", "unsafewrap", "rstring", "rbytes"} {
		r.Check(len(ma[k]) >= 1, "(*internal/rfmt.pp).printArg / plain route "+k, c.P.Pos(pa.Pos()), "the plain-operand route no longer tests "+k)
	}
	// printArg hosts two routes (plain and reflect.Value): two each of registry, SafeValue, dispatch; one special
	for _, k := range []string{"registry", "safevalue", "methods"} {
		r.Check(len(ma[k]) >= 2, "(*internal/rfmt.pp).printArg / "+k+" on both of its routes", c.P.Pos(pa.Pos()), fmt.Sprintf("printArg tests %s on %d of its 2 routes", k, len(ma[k])))
		r.Check(len(mv[k]) >= 1, "(*internal/rfmt.pp).printValue / "+k, c.P.Pos(pv.Pos()), "the reflective route below the top level no longer tests "+k)
	}
	// the static-type lookup must not depend on CanInterface(): values that
	// cannot be interfaced (unexported fields) are classified by it alone
	staticLookup := func(fn *ssa.Function, m map[string][]*ssa.BasicBlock) bool {
		for _, b := range fn.Blocks {
			for _, ins := range b.Instrs {
				call, ok := ins.(*ssa.Call)
				if !ok {
					continue
				}
				if f := call.Common().StaticCallee(); f != nil && f.String() == "(reflect.Value).CanInterface" {
					// a lookup keyed by the static type of this very value
					// (v.Type()) in a block that dominates the test
					v := call.Common().Args[0]
					for _, lb := range fn.Blocks {
						if !(lb == b || lb.Dominates(b)) {
							continue
						}
						for _, li := range lb.Instrs {
							key, ok := c.registryKey(li)
							if !ok {
								continue
							}
							if tc, ok := key.(*ssa.Call); ok {
								if g := tc.Common().StaticCallee(); g != nil && g.String() == "(reflect.Value).Type" && tc.Common().Args[0] == v {
									return true
								}
							}
						}
					}
					return false
				}
			}
		}
		return false
	}
	r.Check(staticLookup(pv, mv), "(*internal/rfmt.pp).printValue / registry consulted before CanInterface", c.P.Pos(pv.Pos()), "the registry lookup with the static type must precede (dominate) the CanInterface() test: values that cannot be interfaced are classified by it alone")
	r.Check(staticLookup(pa, ma), "(*internal/rfmt.pp).printArg / registry consulted before CanInterface", c.P.Pos(pa.Pos()), "the registry lookup with the static type must precede (dominate) the CanInterface() test on the reflect.Value route")
	r.Check(len(ma["special"]) >= 1, "(*internal/rfmt.pp).printArg / special values on the reflect.Value route", c.P.Pos(pa.Pos()), "the reflect.Value route no longer calls the special-value helper")
	r.Check(len(mv["special"]) >= 1, "(*internal/rfmt.pp).printValue / special values", c.P.Pos(pv.Pos()), "the reflective route no longer calls the special-value helper")
	// order: wrappers / special values before method dispatch
	dominatesAll := func(firsts, seconds []*ssa.BasicBlock) bool {
		for _, s := range seconds {
			ok := false
			for _, f := range firsts {
				if f == s || f.Dominates(s) {
					ok = true
				}
			}
			if !ok {
				return false
			}
		}
		return len(seconds) > 0
	}
	r.Check(dominatesAll(mv["special"], mv["methods"]), "(*internal/rfmt.pp).printValue / special values before dispatch", c.P.Pos(pv.Pos()), "wrappers and redactables must be recognised before any method of the value is called")
	// printArg: the classification prelude (registry / wrapper tests, an
	// if-else chain) starts in a block that dominates every dispatch, and no
	// wrapper test comes after a dispatch.
	prelude := append(append(append([]*ssa.BasicBlock{}, ma["registry"]...), ma["unsafewrap"]...), ma["safewrap"]...)
	okOrder := dominatesAll(prelude, ma["methods"])
	for _, wb := range append(append([]*ssa.BasicBlock{}, ma["unsafewrap"]...), ma["safewrap"]...) {
		for _, mb := range ma["methods"] {
			if mb.Dominates(wb) && mb != wb {
				okOrder = false
			}
		}
	}
	r.Check(okOrder, "(*internal/rfmt.pp).printArg / wrappers before dispatch", c.P.Pos(pa.Pos()), "the wrapper types must be tested before any method of the operand is called")
	// the reflect.Value route's dispatch is dominated by its special-value call
	okRV := false
	for _, mb := range ma["methods"] {
		for _, sb := range ma["special"] {
			if sb.Dominates(mb) {
				okRV = true
			}
		}
	}
	r.Check(okRV, "(*internal/rfmt.pp).printArg / special values before dispatch on the reflect.Value route", c.P.Pos(pa.Pos()), "on the reflect.Value route the special-value helper must run before method dispatch")
	return []*report.Result{r}
}

// ruleC01c: who may emit marker bytes.
func ruleC01c(c *Ctx) []*report.Result {
	r := report.NewResult("C01.c", "marker material (a string or rune constant containing a marker rune, the marker byte variables and the functions returning them) is referenced only in packages buffer, escape and markers, in rfmt.EscapeBytes, and in the root package's pure forwards: nothing else can place a delimiter", 5)
	mf := c.markerFacts(r)
	isMarkerConst := func(v ssa.Value) bool {
		cst, ok := v.(*ssa.Const)
		if !ok || cst.Value == nil {
			return false
		}
		switch cst.Value.Kind() {
		case constant.String:
			s := constant.StringVal(cst.Value)
			return strings.ContainsRune(s, mf.start) || strings.ContainsRune(s, mf.end)
		case constant.Int:
			if b, ok := cst.Type().Underlying().(*types.Basic); ok && b.Kind() == types.Int32 {
				n, _ := constant.Int64Val(cst.Value)
				return rune(n) == mf.start || rune(n) == mf.end
			}
		}
		return false
	}
	// an accessor hands marker bytes to its caller and does nothing else
	// with them: the material flows, through conversions only, to a return
	var onlyReturned func(ins ssa.Instruction, depth int) bool
	onlyReturned = func(ins ssa.Instruction, depth int) bool {
		if _, ok := ins.(*ssa.Return); ok {
			return true
		}
		if depth > 4 {
			return false
		}
		switch v := ins.(type) {
		case *ssa.Convert, *ssa.ChangeType, *ssa.Phi:
			refs := v.(ssa.Value).Referrers()
			if refs == nil || len(*refs) == 0 {
				return false
			}
			for _, u := range *refs {
				if !onlyReturned(u, depth+1) {
					return false
				}
			}
			return true
		}
		return false
	}
	for _, fn := range c.P.ModuleFunctions() {
		refs := []string{}
		for _, b := range fn.Blocks {
			for _, ins := range b.Instrs {
				for _, op := range ins.Operands(nil) {
					if op == nil || *op == nil {
						continue
					}
					if isMarkerConst(*op) {
						if fn.Object() != nil && fn.Object().Exported() && fn.Signature.Recv() == nil && onlyReturned(ins, 0) {
							continue
						}
						refs = append(refs, "constant "+(*op).String())
					}
					if g, ok := (*op).(*ssa.Global); ok && pkgPathOfGlobal(g) == pkgMarkers {
						if _, known := mf.globalsStr[g]; known && (g.Name() == "StartBytes" || g.Name() == "EndBytes" || g.Name() == "RedactedBytes") {
							refs = append(refs, "variable "+g.Name())
						}
					}
					if f, ok := (*op).(*ssa.Function); ok && pkgPathOf(f) == pkgMarkers && (f.Name() == "StartMarker" || f.Name() == "EndMarker" || f.Name() == "RedactedMarker") {
						refs = append(refs, "function "+f.Name())
					}
				}
			}
		}
		if len(refs) == 0 {
			continue
		}
		pk := pkgPathOf(fn)
		name := shortFn(fn.String())
		allowed := pk == pkgBuffer || pk == pkgEscape || pk == pkgMarkers || fn.String() == pkgRfmt+".EscapeBytes"
		if !allowed && pk == "github.com/cockroachdb/redact" {
			if _, ok, _ := pureForward(fn); ok {
				allowed = true
			}
		}
		if allowed {
			r.Ok(name + " references " + refs[0])
		} else {
			r.Fail(name+" / marker material", c.P.Pos(fn.Pos()), "marker material referenced outside the marker-owning code: "+strings.Join(firstN(refs, 3), ", ")+" — a delimiter could be written that the buffer's state machine does not know about", nil, "")
		}
	}
	return []*report.Result{r}
}

func pkgPathOfGlobal(g *ssa.Global) string {
	if g.Pkg != nil {
		return g.Pkg.Pkg.Path()
	}
	return ""
}

// rootGlobal follows field/index address chains (and loads of pointers,
// slices and maps held in package variables) down to a package variable.
func rootGlobal(v ssa.Value) *ssa.Global {
	for i := 0; i < 8; i++ {
		switch x := v.(type) {
		case *ssa.Global:
			return x
		case *ssa.FieldAddr:
			v = x.X
		case *ssa.IndexAddr:
			v = x.X
		case *ssa.UnOp:
			if x.Op != token.MUL {
				return nil
			}
			v = x.X
		default:
			return nil
		}
	}
	return nil
}

func init() { register("C05.g", ruleC05g) }

// ruleC05g: the declassifiers look at the value that is dispatched. On a
// reflective route the dispatcher receives X.Interface(), whose dynamic type
// differs from X.Type() when X is of interface kind (an element of
// []interface{}, a map value of interface type); the safe-type registry must
// therefore (also) be consulted with the dynamic type of that value.
func ruleC05g(c *Ctx) []*report.Result {
	r := report.NewResult("C05.g", "on each reflective route, between `p.arg = X.Interface()` and the method dispatch, the safe-type registry is consulted with reflect.TypeOf of that same value (its dynamic type), as the SafeValue assertion is: a registered safe type held in an interface-typed slice element or map value is recognised before its String/Error/Format method is dispatched", 2)
	hm := c.P.Func("internal/rfmt", "(*pp).handleMethods")
	if hm == nil {
		r.Undecide("(*pp).handleMethods not found")
		return []*report.Result{r}
	}
	routes := 0
	for _, fn := range c.P.ModuleFunctions() {
		for _, b := range fn.Blocks {
			for _, ins := range b.Instrs {
				call, ok := ins.(*ssa.Call)
				if !ok || call.Common().StaticCallee() != hm {
					continue
				}
				// the dominating store p.arg = X.Interface()
				var ifaceVal ssa.Value
				var storeBlk *ssa.BasicBlock
				for _, sb := range fn.Blocks {
					if !(sb == b || sb.Dominates(b)) {
						continue
					}
					for _, si := range sb.Instrs {
						if st, ok := si.(*ssa.Store); ok {
							if fa, ok := st.Addr.(*ssa.FieldAddr); ok && fieldName(fa) == "arg" {
								if cl, ok := st.Val.(*ssa.Call); ok {
									if f := cl.Common().StaticCallee(); f != nil && f.String() == "(reflect.Value).Interface" {
										ifaceVal, storeBlk = cl, sb
									}
								}
							}
						}
					}
				}
				if ifaceVal == nil {
					continue // plain-operand route
				}
				routes++
				okDyn := false
				for _, lb := range fn.Blocks {
					if !(lb == b || lb.Dominates(b)) || !(storeBlk == lb || storeBlk.Dominates(lb)) {
						continue
					}
					for _, li := range lb.Instrs {
						key, ok := c.registryKey(li)
						if !ok {
							continue
						}
						tc, ok := key.(*ssa.Call)
						if !ok {
							continue
						}
						if f := tc.Common().StaticCallee(); f == nil || f.String() != "reflect.TypeOf" {
							continue
						}
						arg := tc.Common().Args[0]
						if arg == ifaceVal {
							okDyn = true
						}
						if u, ok := arg.(*ssa.UnOp); ok {
							if fa, ok := u.X.(*ssa.FieldAddr); ok && fieldName(fa) == "arg" {
								okDyn = true
							}
						}
					}
				}
				if !okDyn {
					// the lookup need not dominate the dispatch: in `A || registry[T]`
					// it is skipped when A already decided. What matters is that no
					// path from the store to the dispatch avoids BOTH the lookup with
					// the dynamic type and an installation of the safe override.
					safeFam, _ := c.installers("override", 1)
					stop := map[*ssa.BasicBlock]bool{}
					lookups := 0
					for _, lb := range fn.Blocks {
						for _, li := range lb.Instrs {
							if key, ok := c.registryKey(li); ok {
								if tc, ok := key.(*ssa.Call); ok {
									if f := tc.Common().StaticCallee(); f != nil && f.String() == "reflect.TypeOf" {
										arg := tc.Common().Args[0]
										dyn := arg == ifaceVal
										if u, ok := arg.(*ssa.UnOp); ok {
											if fa, ok := u.X.(*ssa.FieldAddr); ok && fieldName(fa) == "arg" {
												dyn = true
											}
										}
										if dyn {
											stop[lb] = true
											lookups++
										}
									}
								}
							}
							if ci, ok := li.(ssa.CallInstruction); ok {
								if f := ci.Common().StaticCallee(); f != nil {
									if _, inst := safeFam[f]; inst {
										stop[lb] = true
									}
								}
							}
						}
					}
					if lookups > 0 && !stop[storeBlk] {
						seen := map[*ssa.BasicBlock]bool{}
						var dfs func(x *ssa.BasicBlock) bool
						dfs = func(x *ssa.BasicBlock) bool {
							if x == b {
								return true
							}
							if seen[x] || stop[x] {
								return false
							}
							seen[x] = true
							for _, sx := range x.Succs {
								if dfs(sx) {
									return true
								}
							}
							return false
						}
						escaped := false
						for _, sx := range storeBlk.Succs {
							if dfs(sx) {
								escaped = true
							}
						}
						if storeBlk == b {
							escaped = true
						}
						okDyn = !escaped
					}
				}
				r.Check(okDyn, shortFn(fn.String())+" / registry consulted with the dispatched value's type", c.P.Pos(call.Pos()), "the registry is looked up only with the static type X.Type(); for X of interface kind the dispatched value X.Interface() has another (dynamic) type: a registered safe type with a String/Error/Format method inside []interface{} or map[...]interface{} is printed as unsafe")
			}
		}
	}
	if routes < 2 {
		r.Undecide(fmt.Sprintf("found %d reflective dispatch routes (floor 2)", routes))
	}
	return []*report.Result{r}
}

func init() { register("C06.g", ruleC06g) }

// ruleC06g: a recognised wrapper is acted upon. C02.b/C05.e make sure the
// wrapper types are tested on every route and that nothing else installs the
// safe override; this rule closes the other direction: where a test for the
// Safe (Unsafe) wrapper type succeeds, the safe (unsafe) override is
// installed before anything is printed, the operand is reported as handled,
// and what is printed is the wrapped value — field 0 of the one-field
// wrapper struct, one level deeper.
func ruleC06g(c *Ctx) []*report.Result {
	r := report.NewResult("C06.g", "on the success edge of every declassifier test in the printer (registry lookup, SafeValue assertion) the safe override is installed and its restore deferred; on the success edge of every test for the Safe/Unsafe wrapper type: the override of that side is installed in the guarded region and dominates every call there that can write; a boolean result is set to true; a reflective print of the content prints Field(0) of the tested value at depth+k, k>=1", 8)
	safeFam, _ := c.installers("override", 1)
	unsafeFam, _ := c.installers("override", 2)
	if len(safeFam) == 0 || len(unsafeFam) == 0 {
		r.Undecide("override installers not found")
		return []*report.Result{r}
	}
	calledByPrinter := map[*ssa.Function]bool{}
	for _, fn := range c.P.ModuleFunctions() {
		if recvNamed(fn) == tPP {
			for _, g := range c.staticCallees(fn) {
				calledByPrinter[g] = true
			}
		}
	}
	tests, declass := 0, 0
	for _, fn := range c.P.ModuleFunctions() {
		// printer methods, and the classification functions of the
		// hand-written code (which report the decision as a result)
		pure := recvNamed(fn) != tPP && fn.Signature.Recv() == nil && pkgPathOf(fn) == pkgRfmt && handWritten(c, fn) && fn.Parent() == nil && fn.Object() != nil && !fn.Object().Exported() && calledByPrinter[fn]
		if (recvNamed(fn) != tPP && !pure) || fn.Blocks == nil {
			continue
		}
		name := shortFn(fn.String())
		for _, b := range fn.Blocks {
			iff, ok := b.Instrs[len(b.Instrs)-1].(*ssa.If)
			if !ok {
				continue
			}
			sideOf := func(cond ssa.Value) (string, string) {
				side, what := "", "wrapper"
				for _, k := range c.condKinds(cond, 0) {
					switch {
					case k == "type==safewrap" || k == "assert:safewrap":
						side = "safe"
					case k == "type==unsafewrap" || k == "assert:unsafewrap":
						side = "unsafe"
					case strings.HasPrefix(k, "registry:"):
						side, what = "safe", "registered type"
					case k == "assert:safevalue":
						side, what = "safe", "SafeValue"
					}
				}
				return side, what
			}
			side, what := sideOf(iff.Cond)
			if side == "" {
				continue
			}
			T := b.Succs[0]
			if what == "wrapper" {
				tests++
			} else {
				declass++
			}
			fam := safeFam
			if side == "unsafe" {
				fam = unsafeFam
			}
			pos := c.P.Pos(iff.Pos())
			if pos == "" || strings.HasSuffix(pos, ":0") {
				pos = c.P.Pos(fn.Pos())
			}
			construct := name + " / " + side + " " + what + " recognised @" + c.P.Pos(firstPos(T))
			var region []*ssa.BasicBlock
			// the success edge must not join other paths at once (nothing would be
			// done for the wrapper) — unless every way into T is the success edge
			// of a test of the same side: a disjunction `A || B`
			exclusive := len(T.Preds) == 1
			if !exclusive {
				exclusive = true
				for _, pb := range T.Preds {
					pif, ok := pb.Instrs[len(pb.Instrs)-1].(*ssa.If)
					if !ok || pb.Succs[0] != T || pb.Succs[1] == T {
						exclusive = false
						break
					}
					if ps, _ := sideOf(pif.Cond); ps != side {
						exclusive = false
						break
					}
				}
			}
			if !exclusive && what == "wrapper" {
				// `if !isSafe && !isUnsafe { return }`: both wrapper tests, kept in
				// booleans, guard the block; which side it is is decided further
				// down by a branch on one of them. The obligations of this test
				// are then those of the arm of that branch that stands for it.
				conds := map[ssa.Value]string{}
				mixed := true
				for _, pb := range T.Preds {
					pif, ok := pb.Instrs[len(pb.Instrs)-1].(*ssa.If)
					if !ok || pb.Succs[0] != T || pb.Succs[1] == T {
						mixed = false
						break
					}
					ps, pw := sideOf(pif.Cond)
					if ps == "" || pw != "wrapper" {
						mixed = false
						break
					}
					conds[pif.Cond] = ps
				}
				if mixed && len(conds) == 2 {
					for _, d := range fn.Blocks {
						if !(d == T || T.Dominates(d)) {
							continue
						}
						dif, ok := d.Instrs[len(d.Instrs)-1].(*ssa.If)
						if !ok {
							continue
						}
						ds, known := conds[dif.Cond]
						if !known {
							continue
						}
						arm := d.Succs[1]
						if ds == side {
							arm = d.Succs[0]
						}
						if len(arm.Preds) == 1 {
							T, exclusive = arm, true
						}
					}
				}
			}
			if exclusive {
				for _, x := range fn.Blocks {
					if x == T || T.Dominates(x) {
						region = append(region, x)
					}
				}
			}
			// the arm may only install the override and leave the printing to the
			// code after the join (shared by the arms of both sides): the region
			// then continues at the join, provided every way into the join has
			// installed an override
			var joinTail *ssa.BasicBlock
			if exclusive && what == "wrapper" && len(region) > 0 {
				writes := false
				inRegion := map[*ssa.BasicBlock]bool{}
				for _, x := range region {
					inRegion[x] = true
					for _, ins := range x.Instrs {
						if call, ok := ins.(*ssa.Call); ok {
							if f := call.Common().StaticCallee(); f != nil && c.P.InModule(f) && c.reachesWriter(f) {
								_, i1 := safeFam[f]
								_, i2 := unsafeFam[f]
								if !i1 && !i2 {
									writes = true
								}
							}
						}
					}
				}
				var exits []*ssa.BasicBlock
				for _, x := range region {
					for _, su := range x.Succs {
						if !inRegion[su] {
							exits = append(exits, su)
						}
					}
				}
				if !writes && len(exits) == 1 {
					J := exits[0]
					allInstall := true
					for _, pb := range J.Preds {
						has := false
						for _, ins := range pb.Instrs {
							if call, ok := ins.(*ssa.Call); ok {
								if f := call.Common().StaticCallee(); f != nil {
									_, i1 := safeFam[f]
									_, i2 := unsafeFam[f]
									has = has || i1 || i2
								}
							}
						}
						if !has {
							allInstall = false
						}
					}
					if allInstall {
						joinTail = J
						for _, x := range fn.Blocks {
							if x == J || J.Dominates(x) {
								region = append(region, x)
							}
						}
					}
				}
			}
			// (a) the installer
			var inst *ssa.Call
			for _, x := range region {
				for _, ins := range x.Instrs {
					if call, ok := ins.(*ssa.Call); ok {
						if f := call.Common().StaticCallee(); f != nil {
							if st, ok := fam[f]; ok && inst == nil {
								if st.param < 0 {
									inst = call
								} else if k, ok := intConst(call.Common().Args[st.param]); ok && ((side == "safe" && k == 1) || (side == "unsafe" && k == 2)) {
									inst = call
								}
							}
						}
					}
				}
			}
			if inst == nil && pure && exclusive {
				// a classification function: the decision leaves as data —
				// the constant of that side on an edge into a returned value —
				// and is installed by the caller (whose site C02.b holds to it)
				wantK := int64(1)
				if side == "unsafe" {
					wantK = 2
				}
				produced := false
				for _, rb := range fn.Blocks {
					for _, ins := range rb.Instrs {
						ph, ok := ins.(*ssa.Phi)
						if !ok {
							continue
						}
						for i, e := range ph.Edges {
							if k, ok := intConst(e); ok && k == wantK {
								pb := ph.Block().Preds[i]
								if pb == T || T.Dominates(pb) {
									produced = true
								}
							}
						}
					}
				}
				r.Check(produced, construct+" / classification reported", pos, "the "+what+" is recognised in a classification function but the "+side+" classification is not what that function reports on this branch")
				continue
			}
			if inst == nil {
				r.Fail(construct+" / override installed", pos, "the "+side+" wrapper is recognised but the "+side+" override is not installed on that branch: the content is classified as if it were not wrapped", nil, "")
				continue
			}
			r.Ok(construct + ": override installed")
			// the override stays installed while the content is printed: its
			// restore is deferred (or follows every write of the region)
			var earlyRestore *ssa.Call
			if refs := inst.Referrers(); refs != nil {
				for _, ref := range *refs {
					if rc, ok := ref.(*ssa.Call); ok && rc.Common().StaticCallee() != nil && len(rc.Common().Args) > 0 && rc.Common().Args[0] == ssa.Value(inst) {
						earlyRestore = rc
					}
				}
			}
			if what != "wrapper" {
				// a declassifier other than a wrapper only has to install the
				// override for the code that follows: its restore is deferred
				r.Check(earlyRestore == nil, construct+" / override stays in force", pos, "the override installed for a "+what+" is restored at once (the restore must be deferred): the value is printed as if it had not been declared safe")
				continue
			}
			printed, unwrapped := false, false
			for _, x := range region {
				for _, ins := range x.Instrs {
					if ta, ok := ins.(*ssa.TypeAssert); ok {
						if k := c.classifyType(ta.AssertedType); k == "safewrap" || k == "unsafewrap" {
							unwrapped = true
						}
					}
				}
			}
			// (b) writes after the installer; (d) what is printed
			for _, x := range region {
				for _, ins := range x.Instrs {
					call, ok := ins.(*ssa.Call)
					if !ok || call == inst {
						continue
					}
					if f := call.Common().StaticCallee(); f != nil && c.P.InModule(f) && c.reachesWriter(f) {
						if _, isInst := fam[f]; !isInst {
							printed = true
							if earlyRestore != nil {
								r.Check(instrBefore(call, earlyRestore), construct+" / override in force while printing", c.P.Pos(earlyRestore.Pos()), "the override is restored before the content is printed (the restore must be deferred)")
							}
						}
					}
					f := call.Common().StaticCallee()
					if f == nil || !c.P.InModule(f) || !c.reachesWriter(f) {
						continue
					}
					if _, isInst := fam[f]; isInst {
						continue
					}
					afterJoin := joinTail != nil && (joinTail == call.Block() || joinTail.Dominates(call.Block())) && !(joinTail == inst.Block() || joinTail.Dominates(inst.Block()))
					r.Check(instrBefore(inst, call) || afterJoin, construct+" / printed under the override", c.P.Pos(call.Pos()), "a call that can write precedes the installation of the override")
					// reflective print of the content
					var rv, depth ssa.Value
					for i, p := range f.Params {
						if i >= len(call.Common().Args) {
							break
						}
						if namedOf(p.Type()) == "reflect.Value" {
							rv = call.Common().Args[i]
						}
						if bt, ok := p.Type().Underlying().(*types.Basic); ok && bt.Kind() == types.Int {
							depth = call.Common().Args[i]
						}
					}
					if rv != nil {
						okField := false
						if fc, ok := rv.(*ssa.Call); ok {
							if g := fc.Common().StaticCallee(); g != nil && g.String() == "(reflect.Value).Field" {
								if k, ok := intConst(fc.Common().Args[1]); ok && k == 0 {
									if _, isP := fc.Common().Args[0].(*ssa.Parameter); isP {
										okField = true
									}
								}
							}
						}
						r.Check(okField, construct+" / prints the wrapped value", c.P.Pos(call.Pos()), "the value printed for a wrapper must be Field(0) of the tested value (the wrapper structs have one field)")
					}
					if rv != nil && depth != nil {
						okDepth := false
						if bo, ok := depth.(*ssa.BinOp); ok && bo.Op == token.ADD {
							if _, isP := bo.X.(*ssa.Parameter); isP {
								if k, ok := intConst(bo.Y); ok && k >= 1 {
									okDepth = true
								}
							}
						}
						r.Check(okDepth, construct+" / one level deeper", c.P.Pos(call.Pos()), "the content of a wrapper is printed at depth+k with k >= 1: at depth 0 the methods of the content would not be consulted and the text would differ from fmt's")
					}
				}
			}
			r.Check(printed || unwrapped, construct+" / content printed", pos, "on this branch the wrapper is neither unwrapped for the code that follows nor is its content printed: the operand vanishes from the output")
			// (c) handled
			if res := fn.Signature.Results(); res.Len() == 1 {
				if bt, ok := res.At(0).Type().Underlying().(*types.Basic); ok && bt.Kind() == types.Bool {
					okHandled := false
					for _, x := range region {
						for _, ins := range x.Instrs {
							switch y := ins.(type) {
							case *ssa.Store:
								if _, isAlloc := y.Addr.(*ssa.Alloc); isAlloc {
									if cst, ok := y.Val.(*ssa.Const); ok && cst.Value != nil && cst.Value.String() == "true" {
										okHandled = true
									}
								}
							case *ssa.Return:
								if cst, ok := y.Results[0].(*ssa.Const); ok && cst.Value != nil && cst.Value.String() == "true" {
									okHandled = true
								}
							}
						}
					}
					r.Check(okHandled, construct+" / reported as handled", pos, "the branch does not set the boolean result to true: the caller prints the wrapper a second time, as a struct")
				}
			}
		}
	}
	// a declassifier that is evaluated but decides nothing (an if with an
	// emptied body leaves the lookup or the assertion behind, without branch)
	usedAsCondition := func(v ssa.Value) bool {
		refs := v.Referrers()
		if refs == nil {
			return false
		}
		for _, ref := range *refs {
			switch x := ref.(type) {
			case *ssa.If, *ssa.Return:
				return true
			case *ssa.Extract:
				if x.Index == 1 || x.Tuple != v {
					if er := x.Referrers(); er != nil {
						for _, e := range *er {
							switch e.(type) {
							case *ssa.If, *ssa.Return:
								return true
							}
						}
					}
				}
			case *ssa.UnOp, *ssa.Phi:
				return true // combined into a larger condition
			}
		}
		return false
	}
	for _, fn := range c.P.ModuleFunctions() {
		if recvNamed(fn) != tPP || fn.Blocks == nil {
			continue
		}
		for _, b := range fn.Blocks {
			for _, ins := range b.Instrs {
				switch x := ins.(type) {
				case *ssa.Lookup:
					if u, ok := x.X.(*ssa.UnOp); ok {
						if g, ok := u.X.(*ssa.Global); ok && pkgPathOfGlobal(g) == pkgRfmt {
							r.Check(usedAsCondition(x), shortFn(fn.String())+" / registry lookup decides @"+c.P.Pos(x.Pos()), c.P.Pos(x.Pos()), "the registry "+g.Name()+" is consulted but the result decides nothing: a registered safe type is printed as unsafe on this route")
						}
					}
				case *ssa.TypeAssert:
					if x.CommaOk && c.classifyType(x.AssertedType) == "safevalue" {
						r.Check(usedAsCondition(x), shortFn(fn.String())+" / SafeValue test decides @"+c.P.Pos(x.Pos()), c.P.Pos(x.Pos()), "the operand is tested for SafeValue but the result decides nothing")
					}
				}
			}
		}
	}
	if tests < 4 {
		r.Undecide(fmt.Sprintf("only %d wrapper tests found in the printer (floor 4: Safe and Unsafe on the plain and on the reflective route)", tests))
	}
	if declass < 6 {
		r.Undecide(fmt.Sprintf("only %d registry/SafeValue tests found in the printer (floor 6: static and dynamic registry lookup and SafeValue on the routes of printArg and printValue)", declass))
	}
	return []*report.Result{r}
}

func firstPos(b *ssa.BasicBlock) token.Pos {
	for _, ins := range b.Instrs {
		if ins.Pos().IsValid() {
			return ins.Pos()
		}
	}
	return token.NoPos
}
