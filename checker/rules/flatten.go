package rules

import (
	"golang.org/x/tools/go/ssa"
)

// flat is a straight-line function read with some of its callees' bodies in
// place: the calls it executes in order, and a resolver that maps a value of
// an inlined body (a parameter, the result of an inlined call) to the value
// of the root function it stands for. Rules about "the one call a method
// makes" are stated on this view so that extracting or sharing a helper does
// not change what they see.
type flat struct {
	calls    []ssa.CallInstruction
	index    map[ssa.CallInstruction]int
	alias    map[ssa.Value]ssa.Value
	straight bool
	inlined  []*ssa.Function
}

func (f *flat) res(v ssa.Value) ssa.Value {
	for i := 0; i < 16; i++ {
		n, ok := f.alias[v]
		if !ok {
			return v
		}
		v = n
	}
	return v
}

// deep resolves v through conversions, interface boxing and inlined bodies.
func (f *flat) deep(v ssa.Value) ssa.Value {
	for i := 0; i < 8; i++ {
		n := f.res(stripConvAll(stripIface(f.res(v))))
		if n == v {
			return v
		}
		v = n
	}
	return v
}

// args are the operands of ci (receiver first for a method), resolved.
func (f *flat) args(ci ssa.CallInstruction) []ssa.Value {
	var out []ssa.Value
	for _, a := range ci.Common().Args {
		out = append(out, f.res(a))
	}
	return out
}

func (f *flat) before(a, b ssa.CallInstruction) bool {
	ia, oka := f.index[a]
	ib, okb := f.index[b]
	return oka && okb && ia < ib
}

// flatten reads fn with every static callee accepted by inline read in
// place (recursively, depth-bounded). A callee is only inlined when it is
// itself straight-line; deferred calls of the root run at its end, a
// deferred call inside an inlined body runs at the end of that body.
func flatten(fn *ssa.Function, inline func(callee *ssa.Function) bool) *flat {
	f := &flat{index: map[ssa.CallInstruction]int{}, alias: map[ssa.Value]ssa.Value{}, straight: true}
	var walk func(g *ssa.Function, depth int)
	walk = func(g *ssa.Function, depth int) {
		calls, straight := callsInOrder(g)
		if !straight {
			f.straight = false
		}
		for _, ci := range calls {
			callee := ci.Common().StaticCallee()
			if callee != nil && callee.Blocks != nil && depth < 4 && callee != fn && inline(callee) {
				if _, st := callsInOrder(callee); st {
					cargs := ci.Common().Args
					for i, p := range callee.Params {
						if i < len(cargs) {
							f.alias[p] = cargs[i]
						}
					}
					f.inlined = append(f.inlined, callee)
					walk(callee, depth+1)
					if v := ci.Value(); v != nil {
						if rv := singleReturn(callee); rv != nil {
							f.alias[v] = rv
						}
					}
					continue
				}
			}
			f.index[ci] = len(f.calls)
			f.calls = append(f.calls, ci)
		}
	}
	walk(fn, 0)
	return f
}

// singleReturn: the value returned by a function with exactly one return
// instruction and one result.
func singleReturn(fn *ssa.Function) ssa.Value {
	var rv ssa.Value
	n := 0
	for _, b := range fn.Blocks {
		if b == fn.Recover {
			continue
		}
		for _, ins := range b.Instrs {
			if r, ok := ins.(*ssa.Return); ok {
				n++
				if len(r.Results) == 1 {
					rv = r.Results[0]
				}
			}
		}
	}
	if n != 1 {
		return nil
	}
	return rv
}
