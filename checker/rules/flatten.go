package rules

import (
	"go/token"

	"golang.org/x/tools/go/ssa"
)

// flat is a straight-line function read with some of its callees' bodies in
// place: the calls it executes in order, and a resolver that maps a value of
// an inlined body (a parameter, the result of an inlined call) to the value
// of the root function it stands for. Rules about "the one call a method
// makes" are stated on this view so that extracting or sharing a helper does
// not change what they see.
type flat struct {
	calls    []ssa.CallInstruction
	index    map[ssa.CallInstruction]int
	alias    map[ssa.Value]ssa.Value
	straight bool
	inlined  []*ssa.Function
}

func (f *flat) res(v ssa.Value) ssa.Value {
	for i := 0; i < 16; i++ {
		n, ok := f.alias[v]
		if !ok {
			return v
		}
		v = n
	}
	return v
}

// deep resolves v through conversions, interface boxing and inlined bodies.
func (f *flat) deep(v ssa.Value) ssa.Value {
	for i := 0; i < 8; i++ {
		n := f.res(stripConvAll(stripIface(f.res(v))))
		// a load of a closure cell holds what was stored into it, when
		// exactly one store exists
		if u, ok := n.(*ssa.UnOp); ok && u.Op == token.MUL {
			if al, ok := f.res(u.X).(*ssa.Alloc); ok && al.Referrers() != nil {
				var only *ssa.Store
				cnt := 0
				for _, ref := range *al.Referrers() {
					if st, ok := ref.(*ssa.Store); ok && st.Addr == ssa.Value(al) {
						only = st
						cnt++
					}
				}
				if cnt == 1 {
					n = only.Val
				}
			}
		}
		if n == v {
			return v
		}
		v = n
	}
	return v
}

// args are the operands of ci (receiver first for a method), resolved.
func (f *flat) args(ci ssa.CallInstruction) []ssa.Value {
	var out []ssa.Value
	for _, a := range ci.Common().Args {
		out = append(out, f.res(a))
	}
	return out
}

func (f *flat) before(a, b ssa.CallInstruction) bool {
	ia, oka := f.index[a]
	ib, okb := f.index[b]
	return oka && okb && ia < ib
}

// flatten reads fn with every static callee accepted by inline read in
// place (recursively, depth-bounded). A callee is only inlined when it is
// itself straight-line; deferred calls of the root run at its end, a
// deferred call inside an inlined body runs at the end of that body.
func flatten(fn *ssa.Function, inline func(callee *ssa.Function) bool) *flat {
	f := &flat{index: map[ssa.CallInstruction]int{}, alias: map[ssa.Value]ssa.Value{}, straight: true}
	var walk func(g *ssa.Function, depth int)
	walk = func(g *ssa.Function, depth int) {
		calls, straight := callsInOrder(g)
		if !straight {
			f.straight = false
		}
		for _, ci := range calls {
			callee := ci.Common().StaticCallee()
			if callee != nil && callee.Blocks != nil && depth < 4 && callee != fn && inline(callee) {
				if _, st := callsInOrder(callee); st {
					cargs := ci.Common().Args
					for i, p := range callee.Params {
						if i < len(cargs) {
							f.alias[p] = cargs[i]
						}
					}
					f.inlined = append(f.inlined, callee)
					walk(callee, depth+1)
					if v := ci.Value(); v != nil {
						if rv := singleReturn(callee); rv != nil {
							f.alias[v] = rv
						}
					}
					continue
				}
			}
			f.index[ci] = len(f.calls)
			f.calls = append(f.calls, ci)
		}
	}
	walk(fn, 0)
	return f
}

// singleReturn: the value returned by a function with exactly one return
// instruction and one result.
func singleReturn(fn *ssa.Function) ssa.Value {
	var rv ssa.Value
	n := 0
	for _, b := range fn.Blocks {
		if b == fn.Recover {
			continue
		}
		for _, ins := range b.Instrs {
			if r, ok := ins.(*ssa.Return); ok {
				n++
				if len(r.Results) == 1 {
					rv = r.Results[0]
				}
			}
		}
	}
	if n != 1 {
		return nil
	}
	return rv
}

// callPaths enumerates the paths of a loop-free function from entry to its
// returns as call sequences (deferred calls of a path run at its end, last
// pushed first). nil: the function has a loop or more than 32 paths.
func callPaths(fn *ssa.Function) [][]ssa.CallInstruction {
	var out [][]ssa.CallInstruction
	onPath := map[*ssa.BasicBlock]bool{}
	ok := true
	var walk func(b *ssa.BasicBlock, calls, deferred []ssa.CallInstruction)
	walk = func(b *ssa.BasicBlock, calls, deferred []ssa.CallInstruction) {
		if !ok {
			return
		}
		if onPath[b] {
			ok = false
			return
		}
		onPath[b] = true
		defer func() { onPath[b] = false }()
		calls = append([]ssa.CallInstruction(nil), calls...)
		deferred = append([]ssa.CallInstruction(nil), deferred...)
		for _, ins := range b.Instrs {
			if d, isD := ins.(*ssa.Defer); isD {
				deferred = append(deferred, d)
				continue
			}
			if ci, isC := ins.(ssa.CallInstruction); isC {
				calls = append(calls, ci)
			}
		}
		if len(b.Succs) == 0 {
			if _, isRet := b.Instrs[len(b.Instrs)-1].(*ssa.Return); isRet {
				for i := len(deferred) - 1; i >= 0; i-- {
					calls = append(calls, deferred[i])
				}
				out = append(out, calls)
				if len(out) > 32 {
					ok = false
				}
			}
			// a path ending in panic delivers nothing
			return
		}
		for _, s := range b.Succs {
			walk(s, calls, deferred)
		}
	}
	walk(fn.Blocks[0], nil, nil)
	if !ok {
		return nil
	}
	return out
}

// flattenPaths is flatten for a loop-free root: one flat view per path of
// the root; callees are inlined only when straight-line.
func flattenPaths(fn *ssa.Function, inline func(callee *ssa.Function) bool) []*flat {
	paths := callPaths(fn)
	if paths == nil {
		return nil
	}
	var out []*flat
	for _, p := range paths {
		f := &flat{index: map[ssa.CallInstruction]int{}, alias: map[ssa.Value]ssa.Value{}, straight: true}
		var add func(calls []ssa.CallInstruction, depth int)
		add = func(calls []ssa.CallInstruction, depth int) {
			for _, ci := range calls {
				callee := ci.Common().StaticCallee()
				// a function value that is, on this path, a closure made by
				// the caller: its body is read in place, free variables bound
				if callee == nil && !ci.Common().IsInvoke() && depth > 0 {
					if mc, ok := f.res(ci.Common().Value).(*ssa.MakeClosure); ok {
						if cf, ok := mc.Fn.(*ssa.Function); ok && cf.Blocks != nil {
							if cc, st := callsInOrder(cf); st {
								for i, fv := range cf.FreeVars {
									if i < len(mc.Bindings) {
										f.alias[fv] = mc.Bindings[i]
									}
								}
								for i, pa := range cf.Params {
									if i < len(ci.Common().Args) {
										f.alias[pa] = ci.Common().Args[i]
									}
								}
								f.inlined = append(f.inlined, cf)
								add(cc, depth+1)
								continue
							}
						}
					}
				}
				if callee != nil && callee.Blocks != nil && depth < 4 && callee != fn && inline(callee) {
					if cc, st := callsInOrder(callee); st {
						cargs := ci.Common().Args
						for i, pa := range callee.Params {
							if i < len(cargs) {
								f.alias[pa] = cargs[i]
							}
						}
						f.inlined = append(f.inlined, callee)
						add(cc, depth+1)
						if v := ci.Value(); v != nil {
							if rv := singleReturn(callee); rv != nil {
								f.alias[v] = rv
							}
						}
						continue
					}
				}
				f.index[ci] = len(f.calls)
				f.calls = append(f.calls, ci)
			}
		}
		add(p, 0)
		out = append(out, f)
	}
	return out
}
