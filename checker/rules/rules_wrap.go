package rules

import (
	"fmt"

	"golang.org/x/tools/go/ssa"

	"redactverif/report"
)

func init() {
	register("C15.e", ruleC15e)
	register("C15.b", ruleC15b)
	register("C15.d", ruleC15d)
}

// ruleC15b: every function that receives the verb treats %w either as a
// capture (from wrapErrs=true, nothing captured yet) or as a rejection
// (capture disabled and slot cleared); other verbs leave the pair alone.
func ruleC15b(c *Ctx) []*report.Result {
	a := c.AWrap()
	rb := report.NewResult("C15.b", "for every printer function to which the format loop hands a directive's verb, entered with verb %w and each state of (wrapErrs, wrappedErr): every normal exit either captured (only possible from wrapErrs=true, nothing captured) or rejected (wrapErrs=false, wrappedErr=nil) — a second %w, a non-error, nil, invalid, missing or mis-indexed operand never leaves an earlier capture in place", 6)
	rc := report.NewResult("C15.c", "entered with any verb other than %w, the same functions leave (wrapErrs, wrappedErr) unchanged on every exit", 6)
	takers := 0
	seen := map[*ssa.Function]bool{}
	for _, root := range a.Roots {
		if root.Wrap == nil {
			continue
		}
		if !seen[root.Fn] {
			seen[root.Fn] = true
			takers++
		}
		name := shortFn(root.Fn.String())
		if root.Sum == nil || len(root.Sum.Outcomes) == 0 {
			rb.Undecide("no outcome for " + name + " " + root.Entry)
			continue
		}
		for _, o := range root.Sum.SortedOutcomes() {
			if o.Exc {
				continue // nested panic propagates; the call is abandoned
			}
			we, _ := constBool(o.Heap.Get("in0", "wrapErrs"))
			wd := o.Heap.Get("in0", "wrappedErr").Key() != "nil"
			exit := fmt.Sprintf("wrapErrs=%v wrapped=%v", we, wd)
			w := root.Wrap
			if w.Verb == "other" {
				if we == w.WrapErrs && wd == w.Wrapped {
					rc.Ok(name + " [" + root.Entry + "] unchanged")
				} else {
					rc.Fail(name+" / pair changed by a verb other than %w", c.P.Pos(root.Fn.Pos()), "exit "+exit+" from "+root.Entry, nil, root.Entry)
				}
				continue
			}
			accepted := we && wd && w.WrapErrs && !w.Wrapped
			rejected := !we && !wd
			// entered with capture disabled and nothing captured: nothing to clear
			if accepted || rejected {
				rb.Ok(name + " [" + root.Entry + "] -> " + exit)
			} else {
				rb.Fail(name+" / %w rejected without clearing the capture", c.P.Pos(root.Fn.Pos()),
					"a %w directive that captures nothing (second %w, operand that is not an error or is never dispatched to a method, missing or mis-indexed operand) leaves (wrapErrs, wrappedErr) as it was: exit "+exit+" from "+root.Entry+" — HelperForErrorf then returns an error although %w was misused", nil, root.Entry)
			}
		}
	}
	rb.Note(fmt.Sprintf("%d functions receive the verb", takers))
	if takers < 3 {
		rb.Undecide(fmt.Sprintf("only %d verb-taking functions found (floor 3: operand printer, missing-operand and bad-index reporters)", takers))
	}
	for _, r := range []*report.Result{rb, rc} {
		r.Analysed = fmt.Sprintf("A-wrap: %d entry points, %d summaries, %d abstract states", len(a.Roots), len(a.It.Summaries), a.It.States)
		for _, u := range a.It.Undecided {
			r.Undecide(u)
		}
	}
	return []*report.Result{rb, rc}
}

// ruleC15e: outside the dispatcher, a capture is final. Whether a %w captures
// is decided by the dispatcher's own test (the operand is an error, wrapping
// is armed, nothing captured before) — fmt's code, including its behaviour on
// composite operands, where a second error element rejects and clears what
// the first one captured. No OTHER code clears a slot that holds an operand
// captured in the directive being printed: the hand-written wrapper around the
// dispatcher must not re-decide from the operand's VALUE (a typed nil
// pointer, a particular error type, ...). Ghost #cap on the printer (run
// A-wrap): set by a non-nil store to the slot, reset when a verb-taking
// function is entered or left; a nil store over a non-nil slot with #cap set,
// in a function that is not itself a capturing function, is the violation.
func ruleC15e(c *Ctx) []*report.Result {
	a := c.AWrap()
	r := report.NewResult("C15.e", "outside the dispatcher a capture is final: within one directive, no function other than the one that captures clears the capture slot while it holds the operand captured in that directive (ghost #cap, run A-wrap, every state of the pair and every route of the operand) — what HelperForErrorf returns as the wrapped error is what fmt's dispatcher captured, for every value of the operand, typed nil pointers included", 2)
	capturers := map[*ssa.Function]bool{}
	captures := 0
	for _, e := range eventsOf(a.It, "store:wrappedErr") {
		if e.Detail["new"] != "nil" {
			captures++
			capturers[e.Fn] = true
			r.Ok("capture at " + c.P.Pos(e.Instr.Pos()) + " [" + e.Detail["cfg"] + "]")
		}
	}
	for _, e := range eventsOf(a.It, "uncapture") {
		// the verb is a modelled constant only in the runs rooted at the
		// verb-taking functions ('w' / any other verb, every state of the pair);
		// in a run that comes through the format loop the verb is unknown and two
		// tests of it are not correlated: those events prove nothing, and every
		// state they could stand for is covered by the rooted runs
		viaLoop := e.Detail["via"] == "loop"
		if viaLoop {
			continue
		}
		if capturers[e.Fn] {
			r.Ok("the dispatcher's own rejection at " + c.P.Pos(e.Instr.Pos()) + " [" + e.Detail["cfg"] + "]")
			continue
		}
		r.Fail(shortFn(e.Fn.String())+" / capture undone", c.P.Pos(e.Instr.Pos()), "the capture slot is cleared, outside the dispatcher, although it holds the operand captured in this very directive: the text is that of a valid %w but the error is dropped (HelperForErrorf returns nil) ["+e.Detail["cfg"]+"]", e.Chain, e.Detail["cfg"])
	}
	if captures == 0 {
		r.Undecide("no store of an operand into the capture slot was seen")
	}
	for _, u := range a.It.Undecided {
		r.Undecide(u)
	}
	return []*report.Result{r}
}

// ruleC15d: HelperForErrorf enables capture before formatting and reads
// the slot after formatting and before the printer is recycled.
func ruleC15d(c *Ctx) []*report.Result {
	r := report.NewResult("C15.d", "HelperForErrorf: on its single path the order is newPrinter, wrapErrs=true, doPrintf(format, args), read wrappedErr, take the string, free; the returned error is that read and the returned string is the taken buffer", 5)
	fn := c.internalTarget("internal/rfmt", "HelperForErrorf")
	if fn == nil {
		r.Undecide("rfmt.HelperForErrorf not found")
		return []*report.Result{r}
	}
	pos := c.P.Pos(fn.Pos())
	nonRecover := 0
	for _, b := range fn.Blocks {
		if b != fn.Recover {
			nonRecover++
		}
	}
	if nonRecover != 1 {
		r.Undecide("HelperForErrorf is not straight-line code: the order rule does not apply to this shape")
		return []*report.Result{r}
	}
	idx := map[string]int{}
	var loadErr, take ssa.Value
	var np ssa.Value
	var ret *ssa.Return
	for i, ins := range fn.Blocks[0].Instrs {
		switch x := ins.(type) {
		case *ssa.Call:
			f := x.Common().StaticCallee()
			if f == nil {
				continue
			}
			switch f.Name() {
			case "newPrinter":
				idx["new"] = i
				np = x
			case "doPrintf":
				idx["print"] = i
				okArgs := len(x.Common().Args) == 3 && x.Common().Args[0] == np && x.Common().Args[1] == fn.Params[0] && x.Common().Args[2] == fn.Params[1]
				r.Check(okArgs, "rfmt.HelperForErrorf / doPrintf arguments", pos, "doPrintf must receive the printer, the format and the argument list unchanged")
			case "TakeRedactableString":
				idx["take"] = i
				take = x
			case "free":
				idx["free"] = i
			}
		case *ssa.Defer:
			if f := x.Common().StaticCallee(); f != nil && f.Name() == "free" {
				idx["free"] = 1 << 20 // runs at return
			}
		case *ssa.Store:
			if fa, ok := x.Addr.(*ssa.FieldAddr); ok && fieldName(fa) == "wrapErrs" && fa.X == np {
				if cst, ok := x.Val.(*ssa.Const); ok && cst.Value != nil && cst.Value.String() == "true" {
					idx["arm"] = i
				}
			}
		case *ssa.UnOp:
			if fa, ok := x.X.(*ssa.FieldAddr); ok && fieldName(fa) == "wrappedErr" && fa.X == np {
				idx["read"] = i
				loadErr = x
			}
		case *ssa.Return:
			ret = x
		}
	}
	for _, k := range []string{"new", "arm", "print", "read", "take", "free"} {
		if _, ok := idx[k]; !ok {
			r.Fail("rfmt.HelperForErrorf / "+k, pos, "step '"+k+"' not found", nil, "")
			return []*report.Result{r}
		}
	}
	r.Check(idx["new"] < idx["arm"] && idx["arm"] < idx["print"], "rfmt.HelperForErrorf / capture enabled before formatting", pos, "wrapErrs=true must be set on the fresh printer before doPrintf")
	r.Check(idx["print"] < idx["read"] && idx["read"] < idx["free"], "rfmt.HelperForErrorf / slot read between formatting and free", pos, "wrappedErr must be read after doPrintf and before free() clears it")
	r.Check(idx["print"] < idx["take"] && idx["take"] < idx["free"], "rfmt.HelperForErrorf / string taken before free", pos, "the buffer must be taken after doPrintf and before free()")
	// with a deferred call the results are spilled to locals and re-loaded
	unspill := func(v ssa.Value) ssa.Value {
		if u, ok := v.(*ssa.UnOp); ok {
			if al, ok := u.X.(*ssa.Alloc); ok && !al.Heap && al.Referrers() != nil {
				var only *ssa.Store
				n := 0
				for _, ref := range *al.Referrers() {
					if st, ok := ref.(*ssa.Store); ok && st.Addr == ssa.Value(al) {
						only = st
						n++
					}
				}
				if n == 1 {
					return only.Val
				}
			}
		}
		return v
	}
	r.Check(ret != nil && len(ret.Results) == 2 && unspill(ret.Results[0]) == take && unspill(ret.Results[1]) == loadErr, "rfmt.HelperForErrorf / results", pos, "must return (taken string, captured error)")
	return []*report.Result{r}
}
