package rules

import (
	"fmt"
	"go/constant"
	"go/token"
	"go/types"
	"strings"

	"golang.org/x/tools/go/ssa"

	"redactverif/report"
)

func init() {
	register("C09", ruleC09)
}

// writerSpec is derived from the types of interfaces.SafeWriter.
type writerSpec struct {
	name string
	side string // "safe", "unsafe", "print"
	typ  types.Type
}

func (c *Ctx) safeWriterSpec(r *report.Result) []writerSpec {
	ip := c.P.Pkg("interfaces")
	if ip == nil {
		r.Undecide("package interfaces not found")
		return nil
	}
	sw := ip.Types.Scope().Lookup("SafeWriter")
	sv := ip.Types.Scope().Lookup("SafeValue")
	if sw == nil || sv == nil {
		r.Undecide("interfaces.SafeWriter / SafeValue not found")
		return nil
	}
	iface := sw.Type().Underlying().(*types.Interface)
	svIface := sv.Type().Underlying().(*types.Interface)
	var out []writerSpec
	for i := 0; i < iface.NumMethods(); i++ {
		m := iface.Method(i)
		sig := m.Type().(*types.Signature)
		spec := writerSpec{name: m.Name()}
		if sig.Variadic() {
			spec.side = "print"
		} else if sig.Params().Len() == 1 {
			pt := sig.Params().At(0).Type()
			spec.typ = pt
			if types.Implements(pt, svIface) {
				spec.side = "safe"
			} else {
				spec.side = "unsafe"
			}
		} else {
			r.Undecide("SafeWriter method " + m.Name() + " has an unexpected signature")
		}
		out = append(out, spec)
	}
	return out
}

// writerCall describes the single payload-writing call of a SafeWriter
// method implementation.
type writerCall struct {
	call    ssa.CallInstruction
	callee  string
	payload ssa.Value
	consts  []string // constant arguments (verb, base, signedness, format)
}

func constArgString(v ssa.Value) (string, bool) {
	cst, ok := v.(*ssa.Const)
	if !ok || cst.Value == nil {
		return "", false
	}
	switch cst.Value.Kind() {
	case constant.String:
		return constant.StringVal(cst.Value), true
	case constant.Bool:
		return cst.Value.String(), true
	case constant.Int:
		n, _ := constant.Int64Val(cst.Value)
		if b, ok := cst.Type().Underlying().(*types.Basic); ok && b.Kind() == types.Int32 {
			return "'" + string(rune(n)) + "'", true
		}
		return fmt.Sprint(n), true
	}
	return "", false
}

func ruleC09(c *Ctx) []*report.Result {
	r := report.NewResult("C09", "SafeWriter contract, per method and per implementation (StringBuilder and the printer): the side is decided by the parameter type (SafeValue => safe, string/rune/byte/[]byte => unsafe); on the single path there is exactly one buffer write whose payload is the parameter; it happens in the mode of that side in every reachable configuration; the two implementations agree on verb and signedness for the numeric emitters; fmt.State's Write/WriteString are unsafe writes", 60)
	specs := c.safeWriterSpec(r)
	if specs == nil {
		return []*report.Result{r}
	}
	a := c.AFmt()
	safeFam, _ := c.installers("override", 1)
	unsafeFam, _ := c.installers("override", 2)
	// events by function
	evByFn := map[*ssa.Function][]writeEvent{}
	for _, w := range c.writeEvents() {
		evByFn[w.e.Fn] = append(evByFn[w.e.Fn], w)
	}
	extra := []writerSpec{{name: "Write", side: "unsafe"}, {name: "WriteString", side: "unsafe"}}
	builderExtra := append(extra, writerSpec{name: "WriteByte", side: "unsafe"}, writerSpec{name: "WriteRune", side: "unsafe"})
	numeric := map[string]map[string][]string{} // method -> impl -> constants
	for _, impl := range []struct {
		pkg, recv, tname string
		extra            []writerSpec
	}{{"internal/rfmt", "(*pp).", tPP, extra}, {"builder", "(*StringBuilder).", tBuilder, builderExtra}} {
		for _, sp := range append(append([]writerSpec{}, specs...), impl.extra...) {
			if sp.side == "print" {
				continue // C16
			}
			fn := c.P.Func(impl.pkg, impl.recv+sp.name)
			construct := shortFn(impl.recv + sp.name)
			if impl.pkg == "builder" {
				construct = "(*builder.StringBuilder)." + sp.name
			} else {
				construct = "(*internal/rfmt.pp)." + sp.name
			}
			if fn == nil {
				r.Fail(construct, impl.pkg, "SafeWriter method not implemented", nil, "")
				continue
			}
			pos := c.P.Pos(fn.Pos())
			// the method is read with the straight-line helpers of its own
			// receiver type in place (a shared or extracted helper is not a
			// different route)
			paths := flattenPaths(fn, func(g *ssa.Function) bool {
				if !c.P.InModule(g) || a.layer[g] || returnsRestorer(g) || g.Name() == "restore" {
					return false
				}
				// helpers of the receiver, and helpers of the restorer that run a
				// function they are handed (`start().around(func(){ … })`)
				return recvNamed(g) == impl.tname || recvNamed(g) == restorerName
			})
			if paths == nil {
				r.Fail(construct+" / single path", pos, "method is expected to be loop-free code with a handful of paths", nil, "")
				continue
			}
			// every path through the method is held to the contract
			for _, fl := range paths {
				func() {
					calls := fl.calls
					param := ssa.Value(fn.Params[1])
					// classify calls
					var writes []writerCall
					var setModes []ssa.CallInstruction
					var starts []ssa.CallInstruction
					for _, ci := range calls {
						n := calleeName(ci)
						f := ci.Common().StaticCallee()
						switch {
						case f != nil && strings.HasSuffix(n, ".SetMode") && recvNamed(f) == tBuffer:
							if _, isDefer := ci.(*ssa.Defer); !isDefer {
								setModes = append(setModes, ci)
							}
						case f != nil && returnsRestorer(f):
							starts = append(starts, ci)
						case f != nil && ((a.layer[f] && a.writers[f]) || (recvNamed(f) == tPP && !returnsRestorer(f) && c.reachesWriter(f))):
							wc := writerCall{call: ci, callee: n}
							for _, arg := range fl.args(ci)[1:] {
								if s, ok := constArgString(arg); ok {
									wc.consts = append(wc.consts, s)
								} else if wc.payload == nil {
									wc.payload = arg
								}
							}
							writes = append(writes, wc)
						case f != nil && (n == "internal/rfmt.Fprintf" || n == "internal/rfmt.Fprint"):
							wc := writerCall{call: ci, callee: n}
							args := fl.args(ci)
							if s, ok := constArgString(args[1]); ok {
								wc.consts = append(wc.consts, s)
							}
							wc.payload = singleVariadicElem(args[len(args)-1])
							writes = append(writes, wc)
						case f != nil && (strings.HasSuffix(n, ".restore") || recvNamed(f) == restorerName):
						case isBuiltinCall(ci, "len"):
						default:
							// helper calls that cannot write are irrelevant; a second
							// route into the writer layer is not
							if f != nil && c.P.InModule(f) && c.reachesWriter(f) {
								if _, isDefer := ci.(*ssa.Defer); !isDefer {
									wc := writerCall{call: ci, callee: n}
									for _, arg := range fl.args(ci) {
										if _, ok := constArgString(arg); !ok && wc.payload == nil && arg != ssa.Value(fn.Params[0]) {
											wc.payload = arg
										}
									}
									writes = append(writes, wc)
								}
							}
						}
					}
					if len(writes) != 1 {
						r.Fail(construct+" / exactly one write", pos, fmt.Sprintf("%d buffer writes on the path, want exactly one (the payload must land once)", len(writes)), nil, "")
						return
					}
					w := writes[0]
					// the decimal (or other base) rendering of an integer by strconv is
					// the %d (%x, %o, %b) rendering: the payload is the number, the
					// base stands for the verb, and the function must be the one of
					// the parameter's signedness
					if call, ok := fl.deep(w.payload).(*ssa.Call); ok && w.payload != nil {
						if g := call.Common().StaticCallee(); g != nil && (g.String() == "strconv.FormatInt" || g.String() == "strconv.FormatUint" || g.String() == "strconv.Itoa") {
							base := int64(10)
							if g.Name() != "Itoa" {
								if k, ok := intConst(call.Common().Args[1]); ok {
									base = k
								} else {
									base = -1
								}
							}
							src := fl.deep(call.Common().Args[0])
							okSign := false
							if bt, ok := src.Type().Underlying().(*types.Basic); ok && bt.Info()&types.IsInteger != 0 {
								unsigned := bt.Info()&types.IsUnsigned != 0
								okSign = unsigned == (g.Name() == "FormatUint")
							}
							verb, okBase := map[int64]string{10: "%d", 16: "%x", 8: "%o", 2: "%b"}[base]
							r.Check(okSign && okBase, construct+" / strconv rendering of its signedness", pos, fmt.Sprintf("%s with base %d does not render a %s as the printer's integer formatter does", g.String(), base, src.Type()))
							if okSign && okBase {
								w.payload = src
								w.consts = append(w.consts, verb)
							}
						}
					}
					r.Check(w.payload != nil && fl.deep(w.payload) == param, construct+" / payload is the parameter", pos, "the value written is not the method's parameter")
					rawPrimitive := false
					for _, suf := range []string{".WriteByte", ".writeByte", ".WriteRune", ".writeRune", ".WriteString", ".writeString", ".Write", ".write"} {
						if strings.HasSuffix(w.callee, suf) {
							rawPrimitive = true
						}
					}
					if w.payload != nil && rawPrimitive {
						if cv := lossyConvOnPath(fl.res(w.payload)); cv != nil && !asciiGuarded(cv) {
							r.Fail(construct+" / payload written in its own representation", c.P.Pos(cv.Pos()), "the payload is converted from "+cv.X.Type().String()+" to "+cv.Type().String()+" before the write: a byte written as a rune is re-encoded (two bytes for values >= 0x80), a string sent through runes loses invalid bytes", nil, "")
						}
					}
					if impl.pkg == "builder" {
						// the mode in force at the write, for every entry mode of the
						// builder (A-fmt write events), must be the mode of the side
						wantMode := map[string]string{"safe": "SafeEscaped", "unsafe": "UnsafeEscaped"}[sp.side]
						evs := evByFn[fn]
						if strings.HasSuffix(w.callee, ".Fprintf") || strings.HasSuffix(w.callee, ".Fprint") || (len(evs) == 0 && len(fl.inlined) > 0) {
							// the write happens inside rfmt.Fprint*, shared by several
							// emitters: decide from the mode set before the call, in
							// this function or in a one-line helper it calls
							mode := int64(-1)
							for _, ci := range calls {
								if ci == w.call {
									break
								}
								if m, ok := modeSetByArgs(ci, fl.args(ci)); ok {
									mode = m
								}
							}
							okMode := (sp.side == "safe" && mode == 1) || (sp.side == "unsafe" && mode == 0)
							r.Check(okMode, construct+" / mode of its side", pos, "the builder must switch to "+wantMode+" before formatting through "+w.callee)
							r.Ok(construct + " side=" + sp.side + " via " + w.callee)
							if len(w.consts) > 0 {
								if numeric[sp.name] == nil {
									numeric[sp.name] = map[string][]string{}
								}
								numeric[sp.name][impl.pkg] = append([]string{w.callee}, w.consts...)
							}
							return
						}
						if len(evs) == 0 {
							r.Fail(construct+" / reached", pos, "no write event of this method was reached by the analysis", nil, "")
						}
						for _, e := range evs {
							if e.mode == wantMode {
								r.Ok(construct + " writes in " + e.mode)
							} else {
								r.Fail(construct+" / mode of its side", e.pos, "a "+sp.side+"-side payload is written by the builder in mode "+e.mode+" (want "+wantMode+")", e.e.Chain, e.cfg())
							}
						}
						_ = setModes
					} else {
						r.Check(len(starts) == 1 && fl.before(starts[0], w.call), construct+" / classification bracket", pos, "the printer must bracket the write with exactly one start*/restore pair")
						// the bracket is the one of the method's side: a safe
						// emitter installs the safe override, an unsafe emitter
						// never does
						if len(starts) == 1 {
							if sf := starts[0].Common().StaticCallee(); sf != nil {
								_, isSafeInst := safeFam[sf]
								_, isUnsafeInst := unsafeFam[sf]
								if sp.side == "safe" {
									r.Check(isSafeInst && !isUnsafeInst, construct+" / bracket of its side", pos, "a safe emitter must open its bracket with the helper that installs the safe override, not "+sf.Name())
								} else {
									r.Check(!isSafeInst, construct+" / bracket of its side", pos, "an unsafe emitter opens its bracket with "+sf.Name()+", which installs the safe override")
								}
							}
						}
						// configurations from A-fmt (a closure made by the method and
						// run by a helper is part of the method)
						evs := evByFn[fn]
						for _, g := range fl.inlined {
							if g.Parent() == fn {
								evs = append(evs, evByFn[g]...)
							}
						}
						if f := w.call.Common().StaticCallee(); f != nil && recvNamed(f) == tPP {
							// written through a leaf formatter of the printer: its own
							// write events are checked by C02.a/C05.c in every configuration
							r.Ok(construct + " writes through " + w.callee)
						} else if len(evs) == 0 {
							r.Fail(construct+" / reached", pos, "no write event of this method was reached by the analysis", nil, "")
						}
						for _, e := range evs {
							ok := false
							switch sp.side {
							case "safe":
								ok = (e.mode == "SafeEscaped" && e.override == "safe") || (e.mode == "UnsafeEscaped" && e.override == "unsafe")
							case "unsafe":
								ok = (e.mode == "UnsafeEscaped" && e.override != "safe") || (e.mode == "SafeEscaped" && e.override == "safe")
							}
							if ok {
								r.Ok(construct + " [" + e.cfg() + "]")
							} else {
								r.Fail(construct+" / wrong side", e.pos, "a "+sp.side+"-side payload is written with ["+e.cfg()+"]", e.e.Chain, e.cfg())
							}
						}
					}
					if len(w.consts) > 0 {
						if numeric[sp.name] == nil {
							numeric[sp.name] = map[string][]string{}
						}
						numeric[sp.name][impl.pkg] = append([]string{w.callee}, w.consts...)
					}
					r.Ok(construct + " side=" + sp.side + " via " + w.callee)
				}()
			}
		}
	}
	// sibling agreement for the numeric emitters
	for _, sp := range specs {
		if sp.typ == nil {
			continue
		}
		b, ok := sp.typ.Underlying().(*types.Basic)
		if !ok || b.Info()&types.IsNumeric == 0 || b.Kind() == types.Int32 || b.Kind() == types.Uint8 {
			continue
		}
		pp, bu := numeric[sp.name]["internal/rfmt"], numeric[sp.name]["builder"]
		construct := "SafeWriter." + sp.name + " / sibling agreement"
		if pp == nil || bu == nil {
			r.Fail(construct, "interfaces/interfaces.go", "numeric emitter without constant verb on one side", nil, "")
			continue
		}
		// builder: Fprintf with "%<verb>" ; printer: fmtInteger(.., signed, 'verb') / fmtFloat(.., size, 'verb')
		verbB := strings.TrimPrefix(bu[1], "%")
		verbP := ""
		for _, k := range pp[1:] {
			if strings.HasPrefix(k, "'") {
				verbP = strings.Trim(k, "'")
			}
		}
		r.Check(len(bu) == 2 && verbB == verbP && len(verbB) == 1, construct+" (verb)", "builder/builder.go", fmt.Sprintf("StringBuilder formats with %q, the printer with verb %q", bu[1], verbP))
		if b.Info()&types.IsInteger != 0 {
			wantSigned := fmt.Sprint(b.Info()&types.IsUnsigned == 0)
			okS := false
			for _, k := range pp[1:] {
				if k == wantSigned {
					okS = true
				}
			}
			r.Check(okS && strings.HasSuffix(pp[0], ".fmtInteger"), construct+" (signedness)", "internal/rfmt/printer_adapter.go", fmt.Sprintf("the printer must format %s as signed=%s: %v", sp.typ, wantSigned, pp))
		}
	}
	return []*report.Result{c.finish(r)}
}

func isBuiltinCall(ci ssa.CallInstruction, name string) bool {
	b, ok := ci.Common().Value.(*ssa.Builtin)
	return ok && b.Name() == name
}

// instrBefore: a precedes b in the same straight-line function.
func instrBefore(a, b ssa.Instruction) bool {
	if a.Block() == b.Block() {
		for _, ins := range a.Block().Instrs {
			if ins == a {
				return true
			}
			if ins == b {
				return false
			}
		}
	}
	return a.Block().Dominates(b.Block())
}

// reachesWriter: fn statically reaches a writer-layer function that writes.
func (c *Ctx) reachesWriter(fn *ssa.Function) bool {
	a := c.AFmt()
	for g := range c.reach(fn, true) {
		if a.layer[g] && a.writers[g] {
			return true
		}
	}
	return false
}

// modeSetBy: ci is Buffer.SetMode(<const>) or a call of a one-block helper
// whose only call is such a SetMode; returns the constant.
func modeSetBy(ci ssa.CallInstruction) (int64, bool) {
	return modeSetByArgs(ci, ci.Common().Args)
}

func modeSetByArgs(ci ssa.CallInstruction, args []ssa.Value) (int64, bool) {
	f := ci.Common().StaticCallee()
	if f == nil {
		return 0, false
	}
	if f.Name() == "SetMode" && recvNamed(f) == tBuffer {
		return intConst(args[1])
	}
	if len(f.Blocks) != 1 {
		return 0, false
	}
	var found int64
	n := 0
	for _, ins := range f.Blocks[0].Instrs {
		if c2, ok := ins.(ssa.CallInstruction); ok {
			g := c2.Common().StaticCallee()
			if g != nil && g.Name() == "SetMode" && recvNamed(g) == tBuffer {
				if m, ok := intConst(c2.Common().Args[1]); ok {
					found = m
					n++
					continue
				}
			}
			return 0, false
		}
	}
	return found, n == 1
}

// asciiGuarded: a narrowing of an integer (a rune) to a byte that happens only
// where the value is known to be below utf8.RuneSelf — an ASCII rune is its
// own one-byte encoding: the conversion's block is reached through the true
// edge of `x < K` (K <= 128) on the same value, possibly converted.
func asciiGuarded(cv *ssa.Convert) bool {
	tb, ok := cv.Type().Underlying().(*types.Basic)
	if !ok || tb.Kind() != types.Uint8 {
		return false
	}
	root := stripConvAll(cv.X)
	fn := cv.Parent()
	for _, b := range fn.Blocks {
		iff, ok := b.Instrs[len(b.Instrs)-1].(*ssa.If)
		if !ok {
			continue
		}
		bo, ok := iff.Cond.(*ssa.BinOp)
		if !ok || (bo.Op != token.LSS && bo.Op != token.LEQ) {
			continue
		}
		k, ok := intConst(bo.Y)
		if !ok || k > 128 || (bo.Op == token.LEQ && k > 127) {
			continue
		}
		if stripConvAll(bo.X) != root {
			continue
		}
		// an unsigned view of the value, or the value itself with a lower bound elsewhere: require the unsigned view
		if xb, ok := bo.X.Type().Underlying().(*types.Basic); !ok || xb.Info()&types.IsUnsigned == 0 {
			continue
		}
		t := b.Succs[0]
		if len(t.Preds) == 1 && (t == cv.Block() || t.Dominates(cv.Block())) {
			return true
		}
	}
	return false
}
