package rules

import (
	"fmt"
	"go/constant"
	"regexp/syntax"
	"sort"
	"strings"
	"unicode/utf8"

	"golang.org/x/tools/go/ssa"

	"redactverif/report"
)

func init() {
	register("C07", ruleC07)
}

// ---- regular-language decision procedure ------------------------------

// dfa is a complete DFA over representative runes.
type dfa struct {
	reps   []rune
	trans  [][]int // state x rep index
	accept []bool
}

// compileDFA builds the DFA of the anchored language of pattern.
func compileDFA(pattern string, extra []rune) (*dfa, error) {
	re, err := syntax.Parse(pattern, syntax.Perl)
	if err != nil {
		return nil, err
	}
	prog, err := syntax.Compile(re.Simplify())
	if err != nil {
		return nil, err
	}
	// representatives: boundaries of every class in the program plus extras
	bset := map[rune]bool{0: true, utf8.MaxRune: true, 'a': true, '\n': true, utf8.RuneError: true}
	add := func(r rune) {
		for _, x := range []rune{r - 1, r, r + 1} {
			if x >= 0 && x <= utf8.MaxRune {
				bset[x] = true
			}
		}
	}
	for _, r := range extra {
		add(r)
	}
	for _, in := range prog.Inst {
		for _, r := range in.Rune {
			add(r)
		}
	}
	var reps []rune
	for r := range bset {
		reps = append(reps, r)
	}
	sort.Slice(reps, func(i, j int) bool { return reps[i] < reps[j] })

	// epsilon closure (all empty-width assertions are treated as failing
	// except none: the patterns here must not use them)
	var closure func(pc uint32, set map[uint32]bool) error
	closure = func(pc uint32, set map[uint32]bool) error {
		if set[pc] {
			return nil
		}
		set[pc] = true
		in := prog.Inst[pc]
		switch in.Op {
		case syntax.InstAlt, syntax.InstAltMatch:
			if err := closure(in.Out, set); err != nil {
				return err
			}
			return closure(in.Arg, set)
		case syntax.InstCapture, syntax.InstNop:
			return closure(in.Out, set)
		case syntax.InstEmptyWidth:
			return fmt.Errorf("pattern uses an empty-width assertion (op %v): outside the decision procedure", syntax.EmptyOp(in.Arg))
		}
		return nil
	}
	key := func(set map[uint32]bool) string {
		var ks []int
		for k := range set {
			ks = append(ks, int(k))
		}
		sort.Ints(ks)
		return fmt.Sprint(ks)
	}
	start := map[uint32]bool{}
	if err := closure(uint32(prog.Start), start); err != nil {
		return nil, err
	}
	d := &dfa{reps: reps}
	index := map[string]int{}
	var sets []map[uint32]bool
	addState := func(set map[uint32]bool) int {
		k := key(set)
		if i, ok := index[k]; ok {
			return i
		}
		i := len(sets)
		index[k] = i
		sets = append(sets, set)
		acc := false
		for pc := range set {
			if prog.Inst[pc].Op == syntax.InstMatch {
				acc = true
			}
		}
		d.accept = append(d.accept, acc)
		d.trans = append(d.trans, make([]int, len(reps)))
		return i
	}
	addState(start)
	for i := 0; i < len(sets); i++ {
		for ri, r := range reps {
			next := map[uint32]bool{}
			for pc := range sets[i] {
				in := prog.Inst[pc]
				switch in.Op {
				case syntax.InstRune, syntax.InstRune1, syntax.InstRuneAny, syntax.InstRuneAnyNotNL:
					if in.MatchRune(r) {
						if err := closure(in.Out, next); err != nil {
							return nil, err
						}
					}
				}
			}
			d.trans[i][ri] = addState(next)
		}
		if len(sets) > 10000 {
			return nil, fmt.Errorf("DFA too large")
		}
	}
	return d, nil
}

func (d *dfa) repIndex(r rune) int {
	// representatives are sorted; r is classified by the greatest rep <= r
	// only if r itself is a representative (callers add extras for that).
	i := sort.Search(len(d.reps), func(i int) bool { return d.reps[i] >= r })
	if i < len(d.reps) && d.reps[i] == r {
		return i
	}
	return -1
}

func (d *dfa) accepts(s string) (bool, error) {
	st := 0
	for _, r := range s {
		ri := d.repIndex(r)
		if ri < 0 {
			return false, fmt.Errorf("rune %q is not a representative", r)
		}
		st = d.trans[st][ri]
	}
	return d.accept[st], nil
}

// equivalent compares d with a reference DFA given as a function over the
// same representatives; returns a distinguishing word if any.
func (d *dfa) equivalent(refStart int, refStep func(s int, r rune) int, refAccept func(s int) bool) (bool, string) {
	type pair struct{ a, b int }
	seen := map[pair]bool{{0, refStart}: true}
	type item struct {
		p pair
		w string
	}
	q := []item{{pair{0, refStart}, ""}}
	for len(q) > 0 {
		it := q[0]
		q = q[1:]
		if d.accept[it.p.a] != refAccept(it.p.b) {
			return false, it.w
		}
		for ri, r := range d.reps {
			np := pair{d.trans[it.p.a][ri], refStep(it.p.b, r)}
			if !seen[np] {
				seen[np] = true
				q = append(q, item{np, it.w + string(r)})
			}
		}
	}
	return true, ""
}

// prefixFree: no accepted word is a proper prefix of another accepted word.
func (d *dfa) prefixFree() bool {
	// states that can reach acceptance
	canAccept := make([]bool, len(d.accept))
	changed := true
	for i, a := range d.accept {
		canAccept[i] = a
	}
	for changed {
		changed = false
		for s := range d.trans {
			if canAccept[s] {
				continue
			}
			for _, t := range d.trans[s] {
				if canAccept[t] {
					canAccept[s] = true
					changed = true
					break
				}
			}
		}
	}
	// reachable states
	reach := map[int]bool{0: true}
	stack := []int{0}
	for len(stack) > 0 {
		s := stack[len(stack)-1]
		stack = stack[:len(stack)-1]
		for _, t := range d.trans[s] {
			if !reach[t] {
				reach[t] = true
				stack = append(stack, t)
			}
		}
	}
	for s := range reach {
		if !d.accept[s] {
			continue
		}
		for _, t := range d.trans[s] {
			if canAccept[t] {
				return false
			}
		}
	}
	return true
}

// ---- extraction of patterns and replacements from the source ----------

type markerFacts struct {
	start, end, escape rune
	redacted           string
	globalsStr         map[*ssa.Global]string // []byte / string globals with constant initialisers
	globalsRe          map[*ssa.Global]string // *regexp.Regexp globals: constant pattern
}

func (c *Ctx) markerFacts(r *report.Result) *markerFacts {
	mf := &markerFacts{globalsStr: map[*ssa.Global]string{}, globalsRe: map[*ssa.Global]string{}}
	sc := c.P.Pkg("internal/markers").Types.Scope()
	runeConst := func(name string) rune {
		o := sc.Lookup(name)
		if o == nil {
			r.Undecide("constant " + name + " not found in internal/markers")
			return 0
		}
		cst, ok := o.(interface{ Val() constant.Value })
		if !ok {
			r.Undecide(name + " is not a constant")
			return 0
		}
		v, _ := constant.Int64Val(constant.ToInt(cst.Val()))
		return rune(v)
	}
	mf.start, mf.end, mf.escape = runeConst("Start"), runeConst("End"), runeConst("EscapeMark")
	if o := sc.Lookup("RedactedS"); o != nil {
		if cst, ok := o.(interface{ Val() constant.Value }); ok {
			mf.redacted = constant.StringVal(cst.Val())
		}
	}
	sp := c.P.SSAPkg("internal/markers")
	if init := sp.Func("init"); init != nil {
		for _, b := range init.Blocks {
			for _, ins := range b.Instrs {
				st, ok := ins.(*ssa.Store)
				if !ok {
					continue
				}
				g, ok := st.Addr.(*ssa.Global)
				if !ok {
					continue
				}
				switch v := st.Val.(type) {
				case *ssa.Call:
					if f := v.Common().StaticCallee(); f != nil && (f.String() == "regexp.MustCompile" || f.String() == "regexp.MustCompilePOSIX") {
						if cv, ok := v.Common().Args[0].(*ssa.Const); ok && cv.Value != nil {
							if f.String() != "regexp.MustCompile" {
								r.Undecide("pattern compiled with POSIX (leftmost-longest) semantics")
							}
							mf.globalsRe[g] = constant.StringVal(cv.Value)
						} else {
							r.Undecide("pattern of " + g.Name() + " is not a compile-time constant")
						}
					}
				case *ssa.Convert:
					if cv, ok := v.X.(*ssa.Const); ok && cv.Value != nil && cv.Value.Kind() == constant.String {
						mf.globalsStr[g] = constant.StringVal(cv.Value)
					}
				}
			}
		}
	}
	return mf
}

// regexCall describes the single regexp call of an API function.
type regexCall struct {
	fn      *ssa.Function
	method  string
	pattern string
	patVar  string
	repl    string
	replOK  bool
	calls   int
	other   []string // other calls in the body
}

func (c *Ctx) regexCallOf(fn *ssa.Function, mf *markerFacts) regexCall {
	rc := regexCall{fn: fn}
	for _, b := range fn.Blocks {
		for _, ins := range b.Instrs {
			call, ok := ins.(*ssa.Call)
			if !ok {
				continue
			}
			f := call.Common().StaticCallee()
			if f == nil {
				rc.other = append(rc.other, call.String())
				continue
			}
			if !strings.HasPrefix(f.String(), "(*regexp.Regexp).") {
				rc.other = append(rc.other, f.String())
				continue
			}
			rc.calls++
			rc.method = f.Name()
			args := call.Common().Args
			if u, ok := args[0].(*ssa.UnOp); ok {
				if g, ok := u.X.(*ssa.Global); ok {
					rc.pattern = mf.globalsRe[g]
					rc.patVar = g.Name()
				}
			}
			if len(args) >= 3 {
				switch rv := args[2].(type) {
				case *ssa.Const:
					if rv.Value == nil {
						rc.repl, rc.replOK = "", true // nil []byte
					} else if rv.Value.Kind() == constant.String {
						rc.repl, rc.replOK = constant.StringVal(rv.Value), true
					}
				case *ssa.UnOp:
					if g, ok := rv.X.(*ssa.Global); ok {
						if s, ok := mf.globalsStr[g]; ok {
							rc.repl, rc.replOK = s, true
						}
					}
				case *ssa.Convert:
					// []byte(<string constant>) written in place
					if cst, ok := rv.X.(*ssa.Const); ok && cst.Value != nil && cst.Value.Kind() == constant.String {
						rc.repl, rc.replOK = constant.StringVal(cst.Value), true
					}
				}
			}
		}
	}
	return rc
}

// delegatesToSibling: fn is conv(sibling(conv(receiver))) with conv the
// ToBytes/ToString methods of the redactable types (or plain conversions).
func (c *Ctx) delegatesToSibling(fn *ssa.Function, role string, isSibling func(*ssa.Function) bool) string {
	calls, straight := callsInOrder(fn)
	if !straight || len(fn.Params) == 0 {
		return ""
	}
	cur := ssa.Value(fn.Params[0])
	sib := ""
	for _, ci := range calls {
		call, ok := ci.(*ssa.Call)
		if !ok {
			return ""
		}
		g := call.Common().StaticCallee()
		if g == nil || len(call.Common().Args) != 1 || stripConvAll(call.Common().Args[0]) != stripConvAll(cur) {
			return ""
		}
		switch {
		case isSibling(g) && sib == "":
			sib = shortFn(g.String())
		case pkgPathOf(g) == pkgMarkers && (g.Name() == "ToBytes" || g.Name() == "ToString"):
		default:
			return ""
		}
		cur = call
	}
	if sib == "" {
		return ""
	}
	// the result of the chain is what is returned
	for _, b := range fn.Blocks {
		if ret, ok := b.Instrs[len(b.Instrs)-1].(*ssa.Return); ok {
			if len(ret.Results) != 1 || stripConvAll(ret.Results[0]) != stripConvAll(cur) {
				return ""
			}
		}
	}
	return sib
}

func ruleC07(c *Ctx) []*report.Result {
	r := report.NewResult("C07", "the two marker patterns, obtained by constant folding, are decided as regular languages: the envelope pattern equals start·(Σ∖{start,end})*·end and is prefix-free, the marker pattern equals {start,end}; the replacements are the constants that make Redact/StripMarkers/EscapeMarkers exact and idempotent; string and []byte variants agree; ToBytes/ToString are pure conversions", 20)
	mf := c.markerFacts(r)
	if mf.start == 0 || mf.end == 0 {
		return []*report.Result{r}
	}
	pos := "internal/markers/constants.go"
	S, E := mf.start, mf.end
	r.Check(S != E && S >= utf8.RuneSelf && E >= utf8.RuneSelf, "markers / Start,End distinct non-ASCII runes", pos, "start and end markers must be two distinct multi-byte runes")
	r.Check(mf.escape != S && mf.escape != E && mf.escape < utf8.RuneSelf, "markers / EscapeMark is not a marker", pos, fmt.Sprintf("EscapeMark %q must be an ASCII character different from both markers", mf.escape))
	// RedactedS shape
	rr := []rune(mf.redacted)
	okShape := len(rr) >= 3 && rr[0] == S && rr[len(rr)-1] == E
	for _, x := range rr[1:max(1, len(rr)-1)] {
		if x == S || x == E || x == '\n' {
			okShape = false
		}
	}
	r.Check(okShape, "markers / RedactedS shape", pos, fmt.Sprintf("RedactedS %q must be start + non-marker, non-newline text + end", mf.redacted))

	sp := c.P.SSAPkg("internal/markers")
	type api struct {
		name, role string
	}
	apis := []api{
		{"(RedactableString).Redact", "redact"}, {"(RedactableBytes).Redact", "redact"},
		{"(RedactableString).StripMarkers", "strip"}, {"(RedactableBytes).StripMarkers", "strip"},
		{"EscapeMarkers", "escape"},
	}
	patterns := map[string]string{} // role -> pattern
	for _, a := range apis {
		fn := c.P.Func("internal/markers", a.name)
		construct := "markers." + a.name
		if fn == nil {
			r.Fail(construct, pos, "API function not found", nil, "")
			continue
		}
		rc := c.regexCallOf(fn, mf)
		fpos := c.P.Pos(fn.Pos())
		if rc.calls == 0 {
			// delegation to the sibling variant: convert, call the other
			// variant of the same role (which makes the replacement itself),
			// convert back; the conversions are checked below as such
			if sib := c.delegatesToSibling(fn, a.role, func(g *ssa.Function) bool {
				for _, b := range apis {
					if b.role == a.role && b.name != a.name && c.P.Func("internal/markers", b.name) == g {
						return c.regexCallOf(g, mf).calls == 1
					}
				}
				return false
			}); sib != "" {
				r.Ok(construct + " delegates to " + sib + " between pure conversions")
				continue
			}
		}
		if rc.calls != 1 || len(rc.other) != 0 {
			r.Fail(construct+" / body", fpos, fmt.Sprintf("body must be exactly one regexp replacement call (found %d regexp calls, other calls: %v)", rc.calls, rc.other), nil, "")
			continue
		}
		r.Check(strings.HasPrefix(rc.method, "ReplaceAll") && !strings.Contains(rc.method, "Literal") == true || strings.HasPrefix(rc.method, "ReplaceAll"), construct+" / method", fpos, "must use ReplaceAll*: got "+rc.method)
		if strings.Contains(rc.repl, "$") {
			r.Fail(construct+" / replacement", fpos, "replacement contains '$' (template expansion)", nil, "")
		}
		if rc.pattern == "" {
			r.Fail(construct+" / pattern", fpos, "pattern variable "+rc.patVar+" has no constant pattern", nil, "")
			continue
		}
		if prev, ok := patterns[a.role]; ok && a.role != "escape" {
			r.Check(prev == rc.pattern, construct+" / sibling pattern", fpos, fmt.Sprintf("string and []byte variants use different patterns: %q vs %q", prev, rc.pattern))
		}
		patterns[a.role] = rc.pattern
		if !rc.replOK {
			r.Fail(construct+" / replacement", fpos, "replacement is not a compile-time constant", nil, "")
			continue
		}
		switch a.role {
		case "redact":
			r.Check(rc.repl == mf.redacted, construct+" / replacement", fpos, fmt.Sprintf("replacement %q must be RedactedS %q", rc.repl, mf.redacted))
		case "strip":
			r.Check(rc.repl == "", construct+" / replacement", fpos, fmt.Sprintf("StripMarkers must replace with nothing, got %q", rc.repl))
		case "escape":
			r.Check(rc.repl == string(mf.escape), construct+" / replacement", fpos, fmt.Sprintf("EscapeMarkers must replace with EscapeMark, got %q", rc.repl))
		}
		// language of the pattern
		d, err := compileDFA(rc.pattern, append([]rune{S, E, '×', '\n'}, rr...))
		if err != nil {
			r.Fail(construct+" / pattern", fpos, "cannot decide pattern "+fmt.Sprintf("%q", rc.pattern)+": "+err.Error(), nil, "")
			continue
		}
		switch a.role {
		case "redact":
			// reference: 0 -S-> 1 ; 1 -other-> 1 ; 1 -E-> 2 (accept); dead = 3
			step := func(s int, x rune) int {
				switch s {
				case 0:
					if x == S {
						return 1
					}
				case 1:
					if x == E {
						return 2
					}
					if x != S {
						return 1
					}
				}
				return 3
			}
			eq, w := d.equivalent(0, step, func(s int) bool { return s == 2 })
			if eq {
				r.Ok(fmt.Sprintf("%s: L(%q) = start·(Σ∖{start,end})*·end (%d DFA states, %d rune classes)", construct, rc.pattern, len(d.accept), len(d.reps)))
			} else {
				r.Fail(construct+" / pattern language", fpos, fmt.Sprintf("L(%q) differs from start·(Σ∖{start,end})*·end on the word %q", rc.pattern, w), nil, "")
			}
			r.Check(d.prefixFree(), construct+" / prefix-free", fpos, "envelope pattern is not prefix-free: a match may extend over a second envelope")
			acc, err := d.accepts(mf.redacted)
			r.Check(err == nil && acc, construct+" / fixed point", fpos, "RedactedS is not matched by the envelope pattern: Redact is not idempotent")
		case "strip", "escape":
			step := func(s int, x rune) int {
				if s == 0 && (x == S || x == E) {
					return 1
				}
				return 2
			}
			eq, w := d.equivalent(0, step, func(s int) bool { return s == 1 })
			if eq {
				r.Ok(fmt.Sprintf("%s: L(%q) = {start, end}", construct, rc.pattern))
			} else {
				r.Fail(construct+" / pattern language", fpos, fmt.Sprintf("L(%q) differs from {start,end} on the word %q", rc.pattern, w), nil, "")
			}
		}
	}
	if patterns["strip"] != "" && patterns["escape"] != "" {
		r.Check(patterns["strip"] == patterns["escape"], "markers.EscapeMarkers / same class as StripMarkers", pos, "EscapeMarkers and StripMarkers use different marker classes")
	}
	// conversions
	for _, name := range []string{"(RedactableString).ToBytes", "(RedactableBytes).ToString"} {
		fn := c.P.Func("internal/markers", name)
		if fn == nil {
			r.Fail("markers."+name, pos, "conversion not found", nil, "")
			continue
		}
		calls := 0
		for _, b := range fn.Blocks {
			for _, ins := range b.Instrs {
				if _, ok := ins.(ssa.CallInstruction); ok {
					calls++
				}
			}
		}
		r.Check(calls == 0 && len(fn.Blocks) == 1, "markers."+name+" / pure conversion", c.P.Pos(fn.Pos()), "conversion must consist of type conversions only")
		for _, b := range fn.Blocks {
			for _, ins := range b.Instrs {
				if cv, ok := ins.(*ssa.Convert); ok && !bytePreservingConv(cv.X.Type(), cv.Type()) {
					r.Fail("markers."+name+" / byte-preserving conversion", c.P.Pos(cv.Pos()), "the conversion goes through "+cv.Type().String()+": a detour through runes replaces every invalid UTF-8 byte by U+FFFD, so the string and []byte variants no longer agree", nil, "")
				}
			}
		}
	}
	// marker byte variables fold to the same constants
	for g, s := range mf.globalsStr {
		switch g.Name() {
		case "StartBytes":
			r.Check(s == string(S), "markers.StartBytes", pos, "StartBytes != []byte(StartS)")
		case "EndBytes":
			r.Check(s == string(E), "markers.EndBytes", pos, "EndBytes != []byte(EndS)")
		case "EscapeMarkBytes":
			r.Check(s == string(mf.escape), "markers.EscapeMarkBytes", pos, "EscapeMarkBytes != []byte(EscapeMarkS)")
		case "RedactedBytes":
			r.Check(s == mf.redacted, "markers.RedactedBytes", pos, "RedactedBytes != []byte(RedactedS)")
		}
	}
	_ = sp
	r.Analysed = fmt.Sprintf("patterns: %v", patterns)
	return []*report.Result{r}
}

func max(a, b int) int {
	if a > b {
		return a
	}
	return b
}
