package rules

import (
	"fmt"
	"go/types"
	"sort"
	"strings"

	"golang.org/x/tools/go/ssa"

	"redactverif/engine"
)

// AFmt is run A-fmt of Engine A: every exported entry point of rfmt, builder,
// markers and the root package is analysed; the printer's override, the
// buffer mode, the %w capture slot and the ghost "ctx" are tracked.
//
// Ghost buffer.Buffer.#ctx: effective override (outermost first) of the
// printers this buffer is borrowed from: none|safe|unsafe.
type AFmt struct {
	It      *engine.Interp
	Roots   []fmtRoot
	writers map[*ssa.Function]bool // writer-layer functions that reach a Buffer.Write*
	layer   map[*ssa.Function]bool // writer-layer functions
	takers  map[*ssa.Function]bool // run A-wrap: the functions that receive a directive's verb
}

type fmtRoot struct {
	Fn    *ssa.Function
	Wrap  *wrapRoot // non-nil: a %w root (C15)
	Entry string
	Sum   *engine.Summary
	Args  []engine.AbsVal
	Heap  engine.Heap
}

// wrapRoot describes a root used to decide how a function treats the %w
// capture slot: the function is entered with the given verb and pair.
type wrapRoot struct {
	Verb     string // "w" or "other"
	WrapErrs bool
	Wrapped  bool // wrappedErr != nil
	Via      string
}

var overrideNames = map[int64]string{0: "none", 1: "safe", 2: "unsafe"}

func overrideName(v engine.AbsVal) string {
	if n, ok := constInt(v); ok {
		return overrideNames[n]
	}
	return v.Key()
}

// ppConfig renders the tracked configuration of a printer object.
func ppConfig(h engine.Heap, obj string) map[string]string {
	m := map[string]string{}
	m["override"] = overrideName(h.Get(obj, "override"))
	m["mode"] = modeName(h.Get(obj, "buf.Buffer.mode"))
	m["ctx"], _ = constStr(h.Get(obj, "buf.Buffer.#ctx"))
	m["panicking"] = h.Get(obj, "panicking").Key()
	m["erroring"] = h.Get(obj, "erroring").Key()
	m["wrapErrs"] = h.Get(obj, "wrapErrs").Key()
	m["wrappedErr"] = h.Get(obj, "wrappedErr").Key()
	m["markerOpen"] = h.Get(obj, "buf.Buffer.markerOpen").Key()
	m["lent"], _ = constStr(h.Get(obj, "buf.Buffer.#lent"))
	return m
}

func cfgString(m map[string]string) string {
	ks := make([]string, 0, len(m))
	for k := range m {
		ks = append(ks, k)
	}
	sort.Strings(ks)
	var sb strings.Builder
	for _, k := range ks {
		fmt.Fprintf(&sb, "%s=%s ", k, m[k])
	}
	return strings.TrimSpace(sb.String())
}

// effective override of printer obj: the borrowed context wins.
func effCtx(h engine.Heap, obj string) string {
	if c, ok := constStr(h.Get(obj, "buf.Buffer.#ctx")); ok && c != "none" {
		return c
	}
	return overrideName(h.Get(obj, "override"))
}

type fmtHooks struct {
	engine.BaseHooks
	a *AFmt
	c *Ctx
}

func recvNamed(fn *ssa.Function) string {
	if fn.Signature.Recv() == nil {
		return ""
	}
	t := fn.Signature.Recv().Type()
	if p, ok := t.(*types.Pointer); ok {
		t = p.Elem()
	}
	return namedOf(t)
}

func isWriterLayerType(n string) bool {
	return n == tBuffer || n == pkgRfmt+".buffer" || n == tFmt
}

// objType returns the named type of an abstract object.
func objType(h engine.Heap, obj string) string {
	if o := h[obj]; o != nil {
		return namedOf(o.Type)
	}
	return ""
}

// targetBuffer resolves the buffer a writer-layer call writes to:
// returns the object, the path prefix of the buffer.Buffer inside it.
func targetBuffer(h engine.Heap, callee *ssa.Function, recv engine.AbsVal) (obj, prefix string, ok bool) {
	p, isPtr := recv.(engine.Ptr)
	if !isPtr {
		return "", "", false
	}
	switch recvNamed(callee) {
	case tFmt:
		bp, isPtr := h.Get(p.Obj, joinPath(p.Path, "buf")).(engine.Ptr)
		if !isPtr {
			return "", "", false
		}
		return bp.Obj, joinPath(bp.Path, "Buffer"), true
	case pkgRfmt + ".buffer":
		return p.Obj, joinPath(p.Path, "Buffer"), true
	case tBuffer:
		return p.Obj, p.Path, true
	}
	return "", "", false
}

func joinPath(a, b string) string {
	if a == "" {
		return b
	}
	return a + "." + b
}

func (h *fmtHooks) OnStore(c *engine.Ctx, instr ssa.Instruction, addr engine.Ptr, val engine.AbsVal) engine.AbsVal {
	// ghost ctx: a buffer struct copied from one printer into another.
	if objType(c.Heap, addr.Obj) == tPP {
		switch addr.Path {
		case "buf":
			sv, isStruct := val.(engine.StructV)
			st, isStore := instr.(*ssa.Store)
			if isStruct && isStore {
				if src := loadedFromPP(c, st.Val); src != "" {
					effY := effCtx(c.Heap, src)
					effX := effCtx(c.Heap, addr.Obj)
					newCtx, _ := constStr(c.Heap.Get(addr.Obj, "buf.Buffer.#ctx"))
					if effY != effX {
						newCtx = effY
					}
					nf := map[string]engine.AbsVal{}
					for k, v := range sv.Fields {
						nf[k] = v
					}
					nf["Buffer.#ctx"] = str(newCtx)
					// ownership: src lends its buffer; the copy itself is
					// nobody's lender (a hand-back overwrites the flag)
					nf["Buffer.#lent"] = str("F")
					if o := c.Heap[src]; o != nil && src != addr.Obj {
						o.Fields["buf.Buffer.#lent"] = str("T")
					}
					c.It.Record(engine.Event{Kind: "bufcopy", Instr: instr, Fn: c.Fn, Detail: map[string]string{
						"from": cfgString(ppConfig(c.Heap, src)), "to": cfgString(ppConfig(c.Heap, addr.Obj)), "newctx": newCtx}})
					return engine.StructV{Fields: nf}
				}
			}
		case "wrappedErr", "wrapErrs", "override":
			if addr.Path == "wrappedErr" && h.a.takers != nil {
				// ghost #cap: an operand was captured since the current
				// directive began (reset when a verb-taking function is entered)
				if o := c.Heap[addr.Obj]; o != nil {
					if val.Key() != "nil" {
						o.Fields["#cap"] = str("T")
					} else if cp, _ := constStr(o.Fields["#cap"]); cp == "T" && c.Heap.Get(addr.Obj, "wrappedErr").Key() != "nil" {
						via := "root"
						for _, site := range c.Stack {
							if site != nil && site.Parent() != nil && strings.HasPrefix(site.Parent().Name(), "doPrint") {
								via = "loop" // reached through the format loop: the verb is not a modelled constant
							}
						}
						if strings.HasPrefix(c.Fn.Name(), "doPrint") {
							via = "loop"
						}
						c.It.Record(engine.Event{Kind: "uncapture", Instr: instr, Fn: c.Fn, Detail: map[string]string{"cfg": cfgString(ppConfig(c.Heap, addr.Obj)), "via": via}})
					}
				}
			}
			cfg := ppConfig(c.Heap, addr.Obj)
			c.It.Record(engine.Event{Kind: "store:" + addr.Path, Instr: instr, Fn: c.Fn, Detail: map[string]string{
				"cfg": cfgString(cfg), "new": val.Key()}})
		}
	}
	return nil
}

// loadedFromPP: v is `*(&X.buf)` for a printer X; returns X's object id.
func loadedFromPP(c *engine.Ctx, v ssa.Value) string {
	u, ok := v.(*ssa.UnOp)
	if !ok {
		return ""
	}
	fa, ok := u.X.(*ssa.FieldAddr)
	if !ok || fieldName(fa) != "buf" {
		return ""
	}
	if p, ok := c.Frame.Reg(fa.X).(engine.Ptr); ok && objType(c.Heap, p.Obj) == tPP && p.Path == "" {
		return p.Obj
	}
	return ""
}

// AfterCall: the directive ends when the verb-taking function returns.
func (h *fmtHooks) AfterCall(c *engine.Ctx, instr ssa.Instruction, callee *ssa.Function, args []engine.AbsVal, before, after engine.Heap, exc bool) {
	if h.a.takers[callee] && len(args) > 0 {
		if pp, ok := args[0].(engine.Ptr); ok && pp.Path == "" {
			if o := after[pp.Obj]; o != nil {
				if _, has := o.Fields["#cap"]; has {
					o.Fields["#cap"] = str("F")
				}
			}
		}
	}
}

func (h *fmtHooks) LenIsZero(c *engine.Ctx, so engine.SliceOf) (bool, bool) {
	prefix := bufPrefixOfSlice(so.Path)
	if open, ok := constBool(c.Heap.Get(so.Obj, joinPath(prefix, "markerOpen"))); ok && open {
		return false, true // A-empty
	}
	return false, false
}

func (h *fmtHooks) OnCall(c *engine.Ctx, instr ssa.Instruction, callee *ssa.Function, args []engine.AbsVal) (bool, engine.AbsVal) {
	name := callee.String()
	caller := c.Fn
	if h.a.takers[callee] && len(args) > 0 {
		if pp, ok := args[0].(engine.Ptr); ok && pp.Path == "" {
			if o := c.Heap[pp.Obj]; o != nil && objType(c.Heap, pp.Obj) == tPP {
				o.Fields["#cap"] = str("F") // a new directive begins
			}
		}
	}
	// write events at the boundary of the writer layer
	if h.a.layer[callee] && !h.a.layer[caller] && len(args) > 0 {
		obj, prefix, ok := targetBuffer(c.Heap, callee, args[0])
		d := map[string]string{"callee": shortFn(name)}
		if ok {
			d["mode"] = modeName(c.Heap.Get(obj, joinPath(prefix, "mode")))
			d["ctx"], _ = constStr(c.Heap.Get(obj, joinPath(prefix, "#ctx")))
			d["owner"] = objType(c.Heap, obj)
			if d["owner"] == tPP {
				d["override"] = overrideName(c.Heap.Get(obj, "override"))
				d["panicking"] = c.Heap.Get(obj, "panicking").Key()
			} else {
				d["override"] = "n/a"
			}
		} else {
			d["mode"] = "unresolved"
		}
		kind := "layercall"
		if h.a.writers[callee] {
			kind = "write"
		}
		if callee.Name() == "SetMode" && len(args) > 1 {
			kind = "setmode"
			d["newmode"] = modeName(args[1])
		}
		ev := engine.Event{Kind: kind, Instr: instr, Fn: caller, Detail: d}
		if ci, isCall := instr.(ssa.CallInstruction); isCall {
			cargs := ci.Common().Args
			if !ci.Common().IsInvoke() && len(cargs) > 0 {
				cargs = cargs[1:]
			}
			ev.Args = cargs
		}
		c.It.Record(ev)
	}
	// a deferred function that recovers, called while the frame unwinds:
	// it must see the classification with which the frame was entered.
	if _, isDefer := instr.(*ssa.Defer); isDefer && c.Frame.Panicking && callsRecover(callee) && len(args) > 0 {
		if p, ok := args[0].(engine.Ptr); ok && objType(c.Heap, p.Obj) == tPP {
			if fp, ok2 := c.Frame.Reg(c.Fn.Params[0]).(engine.Ptr); ok2 && fp.Obj == p.Obj {
				now := ppState(c.Heap, p.Obj)
				entry := ppState(c.Frame.Entry, p.Obj)
				c.It.Record(engine.Event{Kind: "recoverer", Instr: instr, Fn: caller, Detail: map[string]string{
					"now": now, "entry": entry, "same": fmt.Sprint(now == entry), "callee": shortFn(name)}})
			}
		}
	}
	switch name {
	case "(*" + pkgRfmt + ".pp).badVerb", "(*" + pkgRfmt + ".pp).missingArg", "(*" + pkgRfmt + ".pp).badArgNum", "(*" + pkgRfmt + ".pp).free":
		if p, ok := args[0].(engine.Ptr); ok {
			d := ppConfig(c.Heap, p.Obj)
			c.It.Record(engine.Event{Kind: "call:" + callee.Name(), Instr: instr, Fn: caller, Detail: d})
		}
	case "(*sync.Pool).Put":
		d := map[string]string{"what": "unresolved"}
		if len(args) > 1 {
			if iv, ok := args[1].(engine.IfaceV); ok {
				if p, ok := iv.V.(engine.Ptr); ok {
					d = ppConfig(c.Heap, p.Obj)
					d["fmt.buf"] = c.Heap.Get(p.Obj, "fmt.buf").Key()
					d["self"] = p.Obj
					d["type"] = objType(c.Heap, p.Obj)
				}
			}
		}
		c.It.Record(engine.Event{Kind: "poolput", Instr: instr, Fn: caller, Detail: d})
	}
	return false, nil
}

func (h *fmtHooks) OnDynamic(c *engine.Ctx, instr ssa.Instruction, args []engine.AbsVal, userCode bool) {
	d := map[string]string{"user": fmt.Sprint(userCode), "defers": strings.Join(c.Frame.DeferredCallees(), ",")}
	if ci, ok := instr.(ssa.CallInstruction); ok {
		cc := ci.Common()
		if cc.IsInvoke() {
			d["target"] = "method " + cc.Method.Name() + " of " + shortFn(cc.Value.Type().String())
			d["iface"] = cc.Value.Type().String()
		} else {
			d["target"] = "func value"
			if u, ok := cc.Value.(*ssa.UnOp); ok {
				if g, ok := u.X.(*ssa.Global); ok {
					d["target"] = "func value " + shortFn(g.String())
					d["global"] = g.String()
				}
			}
		}
	}
	// configuration of the printer involved, if any
	for _, a := range args {
		if iv, ok := a.(engine.IfaceV); ok {
			a = iv.V
		}
		if p, ok := a.(engine.Ptr); ok && objType(c.Heap, p.Obj) == tPP {
			for k, v := range ppConfig(c.Heap, p.Obj) {
				d[k] = v
			}
			d["printer"] = "passed"
		}
	}
	c.It.Record(engine.Event{Kind: "usercall", Instr: instr, Fn: c.Fn, Detail: d})
}

func (h *fmtHooks) OnPanic(c *engine.Ctx, instr ssa.Instruction) {
	d := map[string]string{}
	if len(c.Fn.Params) > 0 {
		if p, ok := c.Frame.Reg(c.Fn.Params[0]).(engine.Ptr); ok && objType(c.Heap, p.Obj) == tPP {
			d = ppConfig(c.Heap, p.Obj)
		}
	}
	c.It.Record(engine.Event{Kind: "panic", Instr: instr, Fn: c.Fn, Detail: d})
}

func ppPoolInvariant(t string) map[string]engine.AbsVal {
	if t != tPP {
		return nil
	}
	return map[string]engine.AbsVal{
		"override":         num(0),
		"buf.Buffer.mode":  num(0),
		"buf.Buffer.#ctx":  str("none"),
		"buf.Buffer.#lent": str("F"),
		"wrappedErr":       engine.NilV{},
	}
}

// AFmt performs the run.
func (c *Ctx) AFmt() *AFmt {
	if c.afmt == nil {
		c.afmt = c.runFmt(false)
	}
	return c.afmt
}

// AWrap is run A-wrap: the same entry points plus the %w roots, tracking
// only the capture slot (wrapErrs, wrappedErr) and the two guard flags. It
// is separate from A-fmt because the capture slot is independent of the
// classification state and would only multiply A-fmt's configurations.
func (c *Ctx) AWrap() *AFmt {
	if c.awrap == nil {
		c.awrap = c.runFmt(true)
	}
	return c.awrap
}

func (c *Ctx) runFmt(wrap bool) *AFmt {
	a := &AFmt{writers: map[*ssa.Function]bool{}, layer: map[*ssa.Function]bool{}}
	hooks := &fmtHooks{a: a, c: c}
	// writer layer and which of its functions reach Buffer.Write*
	fns := c.P.ModuleFunctions()
	for _, fn := range fns {
		if isWriterLayerType(recvNamed(fn)) {
			a.layer[fn] = true
		}
	}
	// promoted-method wrappers also belong to the layer
	isWrite := func(fn *ssa.Function) bool {
		return recvNamed(fn) == tBuffer && strings.HasPrefix(fn.Name(), "Write") && fn.Signature.Recv() != nil
	}
	var reaches func(fn *ssa.Function, seen map[*ssa.Function]bool) bool
	reaches = func(fn *ssa.Function, seen map[*ssa.Function]bool) bool {
		if isWrite(fn) {
			return true
		}
		if seen[fn] {
			return false
		}
		seen[fn] = true
		for _, b := range fn.Blocks {
			for _, ins := range b.Instrs {
				if ci, ok := ins.(ssa.CallInstruction); ok {
					if f := ci.Common().StaticCallee(); f != nil && c.P.InModule(f) {
						if reaches(f, seen) {
							return true
						}
					}
				}
			}
		}
		return false
	}
	for fn := range a.layer {
		if reaches(fn, map[*ssa.Function]bool{}) {
			a.writers[fn] = true
		}
	}
	track := map[engine.TrackSpec]bool{
		{Type: tBuffer, Field: "mode"}: true,
		{Type: tPP, Field: "override"}: true, {Type: tPP, Field: "panicking"}: true, {Type: tPP, Field: "erroring"}: true,
		{Type: tFmt, Field: "buf"}: true,
	}
	ghosts := map[string]map[string]engine.AbsVal{tBuffer: {"#ctx": str("none"), "#lent": str("F")}}
	poolInv := ppPoolInvariant
	if wrap {
		track = map[engine.TrackSpec]bool{
			{Type: tPP, Field: "wrapErrs"}: true, {Type: tPP, Field: "wrappedErr"}: true,
			{Type: tPP, Field: "panicking"}: true, {Type: tPP, Field: "erroring"}: true,
		}
		ghosts = nil
		poolInv = func(t string) map[string]engine.AbsVal {
			if t != tPP {
				return nil
			}
			return map[string]engine.AbsVal{"wrappedErr": engine.NilV{}}
		}
	}
	cfg := engine.Config{
		Prog:          c.P.Prog,
		InModule:      c.P.InModule,
		Track:         track,
		SliceIdent:    map[engine.TrackSpec]bool{{Type: tBuffer, Field: "buf"}: true},
		Ghosts:        ghosts,
		PoolInvariant: poolInv,
		NoPanicPkgs:   map[string]bool{pkgBuffer: true, pkgRfmt + "/fmtsort": true},
		Hooks:         hooks,
	}
	a.It = engine.New(cfg)
	// layer must also contain synthetic wrappers reached at run time; they
	// are classified lazily through recvNamed in the hook.
	var roots []engine.Root
	bufStates := []struct {
		mode int64
		open bool
	}{{0, false}, {1, false}, {2, false}}
	for _, fn := range fns {
		if fn.Parent() != nil || fn.Synthetic != "" {
			continue
		}
		obj := fn.Object()
		if obj == nil || !obj.Exported() {
			continue
		}
		pk := pkgPathOf(fn)
		if pk == pkgBuffer || pk == pkgEscape {
			continue
		}
		rn := recvNamed(fn)
		if rn == tPP {
			continue // reached through modelled callbacks in every reachable state
		}
		args := make([]engine.AbsVal, len(fn.Params))
		for i := range args {
			args[i] = engine.Top{}
		}
		if rn == tBuilder {
			bt := c.P.SSAPkg("builder").Type("StringBuilder").Type()
			_, isPtr := fn.Signature.Recv().Type().(*types.Pointer)
			for _, bs := range bufStates {
				fields := map[string]engine.AbsVal{"Buffer.mode": num(bs.mode), "Buffer.#ctx": str("none"), "Buffer.#lent": str("F")}
				h := engine.Heap{}
				a2 := append([]engine.AbsVal{}, args...)
				if isPtr {
					h["in0"] = &engine.Object{Type: bt, Fields: fields}
					a2[0] = engine.Ptr{Obj: "in0"}
				} else {
					a2[0] = engine.StructV{Fields: fields}
				}
				roots = append(roots, engine.Root{Fn: fn, Args: a2, Heap: h})
				a.Roots = append(a.Roots, fmtRoot{Fn: fn, Entry: fmt.Sprintf("mode=%s", modeNames[bs.mode]), Args: a2, Heap: h})
			}
			continue
		}
		roots = append(roots, engine.Root{Fn: fn, Args: args, Heap: engine.Heap{}})
		a.Roots = append(a.Roots, fmtRoot{Fn: fn, Entry: "-", Args: args, Heap: engine.Heap{}})
	}
	// %w roots (C15): every function that receives the verb from printArg
	// or doPrintf, entered with verb 'w' / any other verb and every state
	// of the capture pair.
	var takers []verbTaker
	if wrap {
		takers = c.verbTakers()
		a.takers = map[*ssa.Function]bool{}
		for _, vt := range takers {
			a.takers[vt.fn] = true
		}
	}
	for _, vt := range takers {
		for _, verb := range []string{"w", "other"} {
			for _, we := range []bool{true, false} {
				for _, wd := range []bool{false, true} {
					if !we && wd {
						continue // unreachable: capture needs wrapErrs
					}
					ppT := c.P.SSAPkg("internal/rfmt").Type("pp").Type()
					fields := map[string]engine.AbsVal{
						"panicking": boolv(false), "erroring": boolv(false), "wrapErrs": boolv(we), "#cap": str("F"),
					}
					if wd {
						fields["wrappedErr"] = engine.NonNil{}
					} else {
						fields["wrappedErr"] = engine.NilV{}
					}
					args := make([]engine.AbsVal, len(vt.fn.Params))
					for i := range args {
						args[i] = engine.Top{}
					}
					args[0] = engine.Ptr{Obj: "in0"}
					if verb == "w" {
						args[vt.idx] = num('w')
					} else {
						args[vt.idx] = engine.Other{}
					}
					h := engine.Heap{"in0": &engine.Object{Type: ppT, Fields: fields}}
					roots = append(roots, engine.Root{Fn: vt.fn, Args: args, Heap: h})
					a.Roots = append(a.Roots, fmtRoot{Fn: vt.fn, Entry: fmt.Sprintf("verb=%s wrapErrs=%v wrapped=%v", verb, we, wd), Args: args, Heap: h,
						Wrap: &wrapRoot{Verb: verb, WrapErrs: we, Wrapped: wd, Via: vt.via}})
				}
			}
		}
	}
	a.It.Run(roots)
	for i := range a.Roots {
		a.Roots[i].Sum = a.It.SummaryFor(roots[i].Fn, roots[i].Args, roots[i].Heap, false)
	}
	return a
}

// SummariesOf lists the summaries of the function with the given name.
func (a *AFmt) SummariesOf(name string) []*engine.Summary {
	var ks []string
	for k, s := range a.It.Summaries {
		if s.Fn.String() == name {
			ks = append(ks, k)
		}
	}
	sort.Strings(ks)
	var out []*engine.Summary
	for _, k := range ks {
		out = append(out, a.It.Summaries[k])
	}
	return out
}

// callsRecover reports whether fn calls the recover builtin directly.
func callsRecover(fn *ssa.Function) bool {
	for _, b := range fn.Blocks {
		for _, ins := range b.Instrs {
			if call, ok := ins.(*ssa.Call); ok {
				if bi, ok := call.Common().Value.(*ssa.Builtin); ok && bi.Name() == "recover" {
					return true
				}
			}
		}
	}
	return false
}

type verbTaker struct {
	fn  *ssa.Function
	idx int
	via string
}

// verbTakers lists the printer methods to which a format loop (a printer
// method with a string parameter that reaches printArg) hands the verb of a
// directive: a call argument of rune type that is not a constant.
func (c *Ctx) verbTakers() []verbTaker {
	var out []verbTaker
	seen := map[*ssa.Function]bool{}
	pa := c.P.Func("internal/rfmt", "(*pp).printArg")
	if pa == nil {
		return nil
	}
	isRune := func(v ssa.Value) bool {
		if _, isConst := v.(*ssa.Const); isConst {
			return false
		}
		b, ok := v.Type().Underlying().(*types.Basic)
		return ok && b.Kind() == types.Int32
	}
	for _, fn := range c.P.ModuleFunctions() {
		if recvNamed(fn) != tPP || fn == pa || fn.Parent() != nil {
			continue
		}
		// a format parameter: a string parameter that is scanned (indexed)
		hasFormat := false
		for _, p := range fn.Params {
			if b, ok := p.Type().Underlying().(*types.Basic); ok && b.Kind() == types.String && p.Referrers() != nil {
				for _, ref := range *p.Referrers() {
					switch ref.(type) {
					case *ssa.Lookup, *ssa.Index:
						hasFormat = true
					}
				}
			}
		}
		if !hasFormat || !c.reach(fn, false)[pa] {
			continue
		}
		for _, b := range fn.Blocks {
			for _, ins := range b.Instrs {
				ci, ok := ins.(ssa.CallInstruction)
				if !ok {
					continue
				}
				f := ci.Common().StaticCallee()
				if f == nil || recvNamed(f) != tPP || seen[f] {
					continue
				}
				for i, a := range ci.Common().Args {
					if isRune(a) && i < len(f.Params) {
						seen[f] = true
						out = append(out, verbTaker{f, i, "format loop " + fn.Name()})
						break
					}
				}
			}
		}
	}
	sort.Slice(out, func(i, j int) bool { return out[i].fn.String() < out[j].fn.String() })
	return out
}
