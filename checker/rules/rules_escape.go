package rules

import (
	"fmt"
	"go/constant"
	"go/token"
	"go/types"
	"strings"

	"golang.org/x/tools/go/ssa"

	"redactverif/engine"
	"redactverif/report"
)

func init() {
	register("C10.scan", ruleC10scan)
	register("C10.b", ruleC10b)
	register("C10.f", ruleC10f)
	register("C10.g", ruleC10g)
	register("C03.c", ruleC03c)
	register("C03.d", ruleC03d)
}

// intConst folds an SSA integer expression built from constants.
func intConst(v ssa.Value) (int64, bool) {
	switch x := v.(type) {
	case *ssa.Const:
		if x.Value != nil && x.Value.Kind() == constant.Int {
			n, ok := constant.Int64Val(x.Value)
			return n, ok
		}
	case *ssa.BinOp:
		a, ok1 := intConst(x.X)
		b, ok2 := intConst(x.Y)
		if ok1 && ok2 {
			switch x.Op {
			case token.ADD:
				return a + b, true
			case token.SUB:
				return a - b, true
			case token.MUL:
				return a * b, true
			}
		}
	case *ssa.Convert:
		return intConst(x.X)
	}
	return 0, false
}

// plusConst: v == base + K (K folded), also through nested additions.
func plusConst(v ssa.Value, base ssa.Value) (int64, bool) {
	if v == base {
		return 0, true
	}
	bo, ok := v.(*ssa.BinOp)
	if !ok {
		return 0, false
	}
	switch bo.Op {
	case token.ADD:
		if k, ok := intConst(bo.Y); ok {
			if r, ok := plusConst(bo.X, base); ok {
				return r + k, true
			}
		}
		if k, ok := intConst(bo.X); ok {
			if r, ok := plusConst(bo.Y, base); ok {
				return r + k, true
			}
		}
	case token.SUB:
		if k, ok := intConst(bo.Y); ok {
			if r, ok := plusConst(bo.X, base); ok {
				return r - k, true
			}
		}
	}
	return 0, false
}

// markerGlobal: v is a load of a []byte package variable of package markers
// with a constant initialiser; returns its name and value.
func (c *Ctx) markerGlobal(v ssa.Value, mf *markerFacts) (string, string, bool) {
	// []byte("<constant>") written in place
	if cv, ok := v.(*ssa.Convert); ok {
		if cst, ok := cv.X.(*ssa.Const); ok && cst.Value != nil && cst.Value.Kind() == constant.String {
			return "constant", constant.StringVal(cst.Value), true
		}
	}
	if cst, ok := v.(*ssa.Const); ok && cst.Value != nil && cst.Value.Kind() == constant.String {
		return "constant", constant.StringVal(cst.Value), true
	}
	u, ok := v.(*ssa.UnOp)
	if !ok || u.Op != token.MUL {
		return "", "", false
	}
	g, ok := u.X.(*ssa.Global)
	if !ok {
		return "", "", false
	}
	s, ok := mf.globalsStr[g]
	return g.Name(), s, ok
}

// scanner describes the roles found in the escape routine.
type scanner struct {
	fn       *ssa.Function
	input    ssa.Value // the (possibly stripped) input slice scanned
	iPhi     *ssa.Phi  // loop index, initialised from startLoc
	kPhi     *ssa.Phi  // copied-up-to index, initialised to 0
	resPhi   *ssa.Phi
	latch    *ssa.BasicBlock // block holding the end-of-iteration phis
	latchI   *ssa.Phi
	latchK   *ssa.Phi
	latchRes *ssa.Phi
	header   *ssa.BasicBlock
}

func (c *Ctx) findScanner(r *report.Result) *scanner {
	fn := c.escapeFn()
	if fn == nil {
		r.Undecide("escape.InternalEscapeBytes not found")
		return nil
	}
	s := &scanner{fn: fn}
	startLoc := fn.Params[1]
	for _, b := range fn.Blocks {
		for _, ins := range b.Instrs {
			ph, ok := ins.(*ssa.Phi)
			if !ok {
				continue
			}
			for _, e := range ph.Edges {
				if e == ssa.Value(startLoc) {
					s.iPhi = ph
					s.header = b
				}
			}
		}
	}
	if s.iPhi == nil {
		r.Fail("escape.InternalEscapeBytes / scan starts at startLoc", c.P.Pos(fn.Pos()), "no loop index initialised from the startLoc parameter: the already validated prefix would be escaped again (or the unvalidated part skipped)", nil, "")
		return nil
	}
	// k: phi in the header with a constant-0 edge whose value is used as the
	// Low bound of a slice of the input
	for _, ins := range s.header.Instrs {
		ph, ok := ins.(*ssa.Phi)
		if !ok || ph == s.iPhi {
			continue
		}
		for _, e := range ph.Edges {
			if n, ok := intConst(e); ok && n == 0 && ph.Type() == s.iPhi.Type() {
				s.kPhi = ph
			}
		}
		if _, isSlice := ph.Type().Underlying().(interface{ Elem() interface{} }); isSlice {
			_ = isSlice
		}
	}
	for _, ins := range s.header.Instrs {
		if ph, ok := ins.(*ssa.Phi); ok && ph != s.iPhi && ph != s.kPhi {
			if strings.HasPrefix(ph.Type().String(), "[]") {
				s.resPhi = ph
			}
		}
	}
	// the scanned input: X of an IndexAddr indexed by iPhi
	for _, ref := range *s.iPhi.Referrers() {
		if ia, ok := ref.(*ssa.IndexAddr); ok && ia.Index == ssa.Value(s.iPhi) {
			s.input = ia.X
		}
	}
	// the latch: the block whose phis feed the header phis
	for i, e := range s.iPhi.Edges {
		if e != ssa.Value(startLoc) {
			// e = latchI + 1
			if bo, ok := e.(*ssa.BinOp); ok {
				if ph, ok := bo.X.(*ssa.Phi); ok {
					s.latchI = ph
					s.latch = ph.Block()
				}
			}
			_ = i
		}
	}
	if s.kPhi != nil {
		for _, e := range s.kPhi.Edges {
			if ph, ok := e.(*ssa.Phi); ok && ph.Block() == s.latch {
				s.latchK = ph
			}
		}
	}
	if s.resPhi != nil {
		for _, e := range s.resPhi.Edges {
			if ph, ok := e.(*ssa.Phi); ok && ph.Block() == s.latch {
				s.latchRes = ph
			}
		}
	}
	if s.kPhi == nil || s.resPhi == nil || s.input == nil || s.latch == nil || s.latchI == nil || s.latchK == nil || s.latchRes == nil {
		r.Undecide("the scanner's loop structure (index, copied-up-to index, output, end-of-iteration merge) was not recognised")
		return nil
	}
	return s
}

// edgeFrom returns the value a latch phi receives from pred block b.
func edgeFrom(ph *ssa.Phi, b *ssa.BasicBlock) ssa.Value {
	for i, p := range ph.Block().Preds {
		if p == b {
			return ph.Edges[i]
		}
	}
	return nil
}

// ruleC10scan: structural necessary conditions of the byte scanner.
func ruleC10scan(c *Ctx) []*report.Result {
	r := report.NewResult("C10.scan", "the escape scanner: starts at startLoc; each marker test bytes.Equal(b[i:i+L], M) has L = len(M), is guarded exactly by i+L <= len(b), replaces the marker by the escape mark and advances the copied-up-to index to i+L and the scan index by L-1; the dangling-tail rule (DecodeLastRune of the input, size 1 and RuneError => append the escape mark) lies on every path to return", 12)
	if sym := c.symScan(); sym.decided {
		// the loop is decided path by path (C10.sym), which subsumes the
		// shape conditions below and does not depend on the shape
		r.Note("the scan loop is decided path-wise by C10.sym; the shape conditions are not needed")
		r.Floor = 0
		r.Ok("subsumed by C10.sym")
		return []*report.Result{r}
	}
	mf := c.markerFacts(r)
	s := c.findScanner(r)
	if s == nil {
		return []*report.Result{r}
	}
	fn := s.fn
	r.Ok("scan index initialised from startLoc")
	// marker tests
	tests := 0
	for _, b := range fn.Blocks {
		for _, ins := range b.Instrs {
			call, ok := ins.(*ssa.Call)
			if !ok {
				continue
			}
			f := call.Common().StaticCallee()
			if f == nil || f.String() != "bytes.Equal" {
				continue
			}
			tests++
			pos := c.P.Pos(call.Pos())
			args := call.Common().Args
			sl, ok := args[0].(*ssa.Slice)
			gname, gval, okG := c.markerGlobal(args[1], mf)
			if !ok || !okG || sl.X != s.input || sl.Low != ssa.Value(s.iPhi) {
				r.Fail("escape.InternalEscapeBytes / marker test shape", pos, "marker test is not bytes.Equal(input[i:i+L], <marker bytes>)", nil, "")
				continue
			}
			construct := "escape.InternalEscapeBytes / test for " + gname
			L, okL := plusConst(sl.High, s.iPhi)
			r.Check(okL && L == int64(len(gval)), construct+" / window length", pos, fmt.Sprintf("the compared window has length %d, the marker %q has %d bytes", L, gval, len(gval)))
			// guard: the If that leads to this block must be i+L <= len(input)
			okGuard := false
			for _, p := range b.Preds {
				if iff, ok := p.Instrs[len(p.Instrs)-1].(*ssa.If); ok && p.Succs[0] == b {
					if bo, ok := iff.Cond.(*ssa.BinOp); ok && bo.Op == token.LEQ {
						gl, ok1 := plusConst(bo.X, s.iPhi)
						if lc, ok2 := bo.Y.(*ssa.Call); ok1 && ok2 && gl == L {
							if bi, ok := lc.Common().Value.(*ssa.Builtin); ok && bi.Name() == "len" && lc.Common().Args[0] == s.input {
								okGuard = true
							}
						}
					}
				}
			}
			r.Check(okGuard, construct+" / look-ahead guard", pos, "the look-ahead guard must be exactly i+L <= len(input) with the window's L: a stricter guard misses a marker at the very end, a laxer one reads out of bounds")
			// the true branch: reaches the latch from a block P where
			//   res' = append(append(res?, input[k:i]...), escape...)
			//   k' = i+L ; i' = i+L-1
			iff, ok := b.Instrs[len(b.Instrs)-1].(*ssa.If)
			if !ok {
				r.Fail(construct+" / branch", pos, "the marker test does not decide a branch", nil, "")
				continue
			}
			tb := b.Succs[0]
			_ = iff
			var from *ssa.BasicBlock
			for _, p := range s.latch.Preds {
				if p == tb || tb.Dominates(p) {
					from = p
				}
			}
			if from == nil {
				r.Fail(construct+" / replacement", pos, "the branch taken on a match does not rejoin the loop", nil, "")
				continue
			}
			kv, iv, rv := edgeFrom(s.latchK, from), edgeFrom(s.latchI, from), edgeFrom(s.latchRes, from)
			kd, okK := plusConst(kv, s.iPhi)
			id, okI := plusConst(iv, s.iPhi)
			r.Check(okK && kd == L, construct+" / copied-up-to index", pos, fmt.Sprintf("after a match k must become i+%d (got i+%d): bytes of the marker would be copied or bytes after it dropped", L, kd))
			r.Check(okI && id == L-1, construct+" / scan index", pos, fmt.Sprintf("after a match i must advance by %d (the loop adds 1), got %d", L-1, id))
			okRepl := false
			if ap, ok := rv.(*ssa.Call); ok && isBuiltin(ap, "append") {
				if n, v, ok := c.markerGlobal(ap.Common().Args[1], mf); ok && v == string(mf.escape) {
					_ = n
					if ap2, ok := ap.Common().Args[0].(*ssa.Call); ok && isBuiltin(ap2, "append") {
						if sl2, ok := ap2.Common().Args[1].(*ssa.Slice); ok && sl2.X == s.input && sl2.Low == ssa.Value(s.kPhi) && sl2.High == ssa.Value(s.iPhi) {
							okRepl = true
						}
					}
				}
			}
			r.Check(okRepl, construct+" / replacement", pos, "on a match the output must receive input[k:i] followed by the escape mark")
		}
	}
	r.Check(tests == 2, "escape.InternalEscapeBytes / two marker tests", c.P.Pos(fn.Pos()), fmt.Sprintf("found %d marker tests, want one for each marker", tests))
	// iterations that matched nothing: the scan moves on by exactly one byte
	// and neither the copied-up-to index nor the output changes.
	var special []*ssa.BasicBlock // true successors of marker tests and the line-feed branch
	for _, b := range fn.Blocks {
		for _, ins := range b.Instrs {
			if call, ok := ins.(*ssa.Call); ok {
				if f := call.Common().StaticCallee(); f != nil {
					switch f.String() {
					case "bytes.Equal":
						if _, isIf := b.Instrs[len(b.Instrs)-1].(*ssa.If); isIf {
							special = append(special, b.Succs[0])
						}
					case "bytes.HasSuffix":
						special = append(special, b)
					}
				}
			}
		}
	}
	plain := 0
	for _, p := range s.latch.Preds {
		isSpecial := false
		for _, sb := range special {
			if sb == p || sb.Dominates(p) {
				isSpecial = true
			}
		}
		if isSpecial {
			continue
		}
		plain++
		okPlain := edgeFrom(s.latchI, p) == ssa.Value(s.iPhi) && edgeFrom(s.latchK, p) == ssa.Value(s.kPhi) && edgeFrom(s.latchRes, p) == ssa.Value(s.resPhi)
		pos := c.P.Pos(fn.Pos())
		if len(p.Instrs) > 0 {
			pos = c.P.Pos(p.Instrs[len(p.Instrs)-1].Pos())
		}
		r.Check(okPlain, "escape.InternalEscapeBytes / byte that starts no marker", pos, "an iteration that found neither a marker nor a line feed changes the scan index, the copied-up-to index or the output: bytes are skipped without being examined (a marker or line feed right after them is missed)")
	}
	r.Check(plain >= 1, "escape.InternalEscapeBytes / plain iteration", c.P.Pos(fn.Pos()), "no plain (nothing found) path through the scan loop recognised")
	// and the loop's own step is +1
	stepOK := false
	for _, e := range s.iPhi.Edges {
		if d, ok := plusConst(e, s.latchI); ok && d == 1 {
			stepOK = true
		}
	}
	r.Check(stepOK, "escape.InternalEscapeBytes / loop step", c.P.Pos(fn.Pos()), "the scan loop must advance by exactly one byte per iteration")
	// dangling tail: must-pass-through
	var dec *ssa.Call
	for _, b := range fn.Blocks {
		for _, ins := range b.Instrs {
			if call, ok := ins.(*ssa.Call); ok {
				if f := call.Common().StaticCallee(); f != nil && f.String() == "unicode/utf8.DecodeLastRune" {
					dec = call
				}
			}
		}
	}
	if dec == nil {
		r.Fail("escape.InternalEscapeBytes / dangling-tail rule", c.P.Pos(fn.Pos()), "no check of the last rune: a truncated multi-byte tail could join the following marker bytes", nil, "")
	} else {
		pos := c.P.Pos(dec.Pos())
		r.Check(dec.Common().Args[0] == s.input, "escape.InternalEscapeBytes / tail of the scanned input", pos, "DecodeLastRune must look at the scanned input")
		all := true
		for _, b := range fn.Blocks {
			if _, ok := b.Instrs[len(b.Instrs)-1].(*ssa.Return); ok {
				if !(dec.Block() == b || dec.Block().Dominates(b)) {
					all = false
				}
			}
		}
		r.Check(all, "escape.InternalEscapeBytes / tail rule on every path", pos, "a path reaches return without the dangling-tail check (e.g. an early return once something was escaped)")
		// the guarded append: block dominated by size==1 && r==RuneError
		okApp := false
		for _, b := range fn.Blocks {
			if !dec.Block().Dominates(b) {
				continue
			}
			for _, ins := range b.Instrs {
				if ap, ok := ins.(*ssa.Call); ok && isBuiltin(ap, "append") {
					if _, v, ok := c.markerGlobal(ap.Common().Args[1], mf); ok && v == string(mf.escape) {
						if ap2, ok := ap.Common().Args[0].(*ssa.Call); ok && isBuiltin(ap2, "append") {
							if sl2, ok := ap2.Common().Args[1].(*ssa.Slice); ok && sl2.X == s.input && sl2.High == nil {
								okApp = true
							}
						}
					}
				}
			}
		}
		r.Check(okApp, "escape.InternalEscapeBytes / tail gets the escape mark", pos, "after a dangling tail the rest of the input followed by the escape mark must be appended")
		// conditions: size == 1 and r == RuneError
		conds := map[string]bool{}
		for _, ref := range *dec.Referrers() {
			ex, ok := ref.(*ssa.Extract)
			if !ok {
				continue
			}
			for _, r2 := range *ex.Referrers() {
				if bo, ok := r2.(*ssa.BinOp); ok && bo.Op == token.EQL {
					if n, ok := intConst(bo.Y); ok {
						conds[fmt.Sprintf("%d==%d", ex.Index, n)] = true
					}
				}
			}
		}
		r.Check(conds["1==1"] && conds["0==65533"], "escape.InternalEscapeBytes / tail condition", pos, "the tail rule must fire exactly for size==1 && rune==utf8.RuneError")
	}
	return []*report.Result{r}
}

func isBuiltin(call *ssa.Call, name string) bool {
	b, ok := call.Common().Value.(*ssa.Builtin)
	return ok && b.Name() == name
}

// ruleC03c: shape of the line-feed splitter.
func ruleC03c(c *Ctx) []*report.Result {
	r := report.NewResult("C03.c", "the line-feed branch of the escape scanner, on every path: the pending data input[k:i] is appended to the output; the elision test looks at that very output value for the start marker and either truncates it by len(start) or appends the end marker; then the maximal run of line feeds input[i:j] is appended, then the start marker; k becomes j and i becomes j-1", 8)
	if sym := c.symScan(); sym.decided && sym.lineSteps > 0 {
		r.Note("the line-feed branch is decided path-wise by C10.sym (line step); the shape conditions are not needed")
		r.Floor = 0
		r.Ok("subsumed by C10.sym")
		return []*report.Result{r}
	}
	mf := c.markerFacts(r)
	s := c.findScanner(r)
	if s == nil {
		return []*report.Result{r}
	}
	fn := s.fn
	var hs *ssa.Call
	for _, b := range fn.Blocks {
		for _, ins := range b.Instrs {
			if call, ok := ins.(*ssa.Call); ok {
				if f := call.Common().StaticCallee(); f != nil && f.String() == "bytes.HasSuffix" {
					hs = call
				}
			}
		}
	}
	if hs == nil {
		r.Fail("escape.InternalEscapeBytes / elision test", c.P.Pos(fn.Pos()), "no test for a just-written start marker before a line feed: an empty envelope ‹› would be left on the previous line", nil, "")
		return []*report.Result{r}
	}
	pos := c.P.Pos(hs.Pos())
	// the branch is entered under breakNewLines && input[i]=='\n'
	brk := fn.Params[2]
	underBrk := false
	for _, b := range fn.Blocks {
		if iff, ok := b.Instrs[len(b.Instrs)-1].(*ssa.If); ok && iff.Cond == ssa.Value(brk) {
			if b.Succs[0].Dominates(hs.Block()) {
				underBrk = true
			}
		}
	}
	r.Check(underBrk, "escape.InternalEscapeBytes / splitter only when requested", pos, "the line-feed branch must be guarded by breakNewLines")
	out := hs.Common().Args[0]
	gname, gval, okG := c.markerGlobal(hs.Common().Args[1], mf)
	r.Check(okG && gval == string(mf.start), "escape.InternalEscapeBytes / elision looks for the start marker", pos, "the elision test must look for the start marker, found "+gname)
	// the tested value is append(res, input[k:i]...)
	okOut := false
	if ap, ok := out.(*ssa.Call); ok && isBuiltin(ap, "append") {
		if sl, ok := ap.Common().Args[1].(*ssa.Slice); ok && sl.X == s.input && sl.Low == ssa.Value(s.kPhi) && sl.High == ssa.Value(s.iPhi) {
			okOut = true
		}
	}
	r.Check(okOut, "escape.InternalEscapeBytes / elision test on the output", pos, "the elision test must inspect the output just extended with input[k:i] (where data markers are already escaped), not the input")
	iff, _ := hs.Block().Instrs[len(hs.Block().Instrs)-1].(*ssa.If)
	if iff == nil || iff.Cond != ssa.Value(hs) {
		r.Fail("escape.InternalEscapeBytes / elision branch", pos, "the elision test does not decide a branch", nil, "")
		return []*report.Result{r}
	}
	tb, fb := hs.Block().Succs[0], hs.Block().Succs[1]
	// true: truncate the same value by len(start)
	okTrunc := false
	var truncV ssa.Value
	for _, ins := range tb.Instrs {
		if sl, ok := ins.(*ssa.Slice); ok && sl.X == out && sl.Low == nil {
			if bo, ok := sl.High.(*ssa.BinOp); ok && bo.Op == token.SUB {
				if n, ok := intConst(bo.Y); ok && n == int64(len(gval)) {
					if lc, ok := bo.X.(*ssa.Call); ok && isBuiltin(lc, "len") && lc.Common().Args[0] == out {
						okTrunc = true
						truncV = sl
					}
				}
			}
		}
	}
	r.Check(okTrunc, "escape.InternalEscapeBytes / elision truncates what it tested", pos, "on a trailing start marker the tested output must be truncated by len(start)")
	// false: append end marker to the same value
	okEnd := false
	var endV ssa.Value
	for _, ins := range fb.Instrs {
		if ap, ok := ins.(*ssa.Call); ok && isBuiltin(ap, "append") && ap.Common().Args[0] == out {
			if _, v, ok := c.markerGlobal(ap.Common().Args[1], mf); ok && v == string(mf.end) {
				okEnd = true
				endV = ap
			}
		}
	}
	r.Check(okEnd, "escape.InternalEscapeBytes / envelope closed before the line feed", pos, "otherwise the end marker must be appended to the output before the line feeds")
	// after the merge: append(merge, input[i:j]...) then append(_, start...), into the latch
	var from *ssa.BasicBlock
	for _, p := range s.latch.Preds {
		if hs.Block().Dominates(p) {
			from = p
		}
	}
	okTail := false
	var jv ssa.Value
	if from != nil {
		rv := edgeFrom(s.latchRes, from)
		if ap, ok := rv.(*ssa.Call); ok && isBuiltin(ap, "append") {
			if _, v, ok := c.markerGlobal(ap.Common().Args[1], mf); ok && v == string(mf.start) {
				if ap2, ok := ap.Common().Args[0].(*ssa.Call); ok && isBuiltin(ap2, "append") {
					if sl, ok := ap2.Common().Args[1].(*ssa.Slice); ok && sl.X == s.input && sl.Low == ssa.Value(s.iPhi) {
						jv = sl.High
						if ph, ok := ap2.Common().Args[0].(*ssa.Phi); ok {
							set := map[ssa.Value]bool{}
							for _, e := range ph.Edges {
								set[e] = true
							}
							okTail = set[truncV] && set[endV] && len(ph.Edges) == 2
						}
					}
				}
			}
		}
		r.Check(okTail, "escape.InternalEscapeBytes / line feeds then reopen", pos, "after closing (or eliding) the envelope, the run of line feeds input[i:j] must be appended and only then the start marker")
		if jv != nil {
			kv, iv := edgeFrom(s.latchK, from), edgeFrom(s.latchI, from)
			id, okI := plusConst(iv, jv)
			r.Check(kv == jv, "escape.InternalEscapeBytes / k after the run", pos, "k must be set to the end of the line-feed run")
			r.Check(okI && id == -1, "escape.InternalEscapeBytes / i after the run", pos, "i must be set to the last line feed of the run (j-1)")
			// j is the end of a maximal run: a phi advanced while input[j]=='\n'
			okRun := false
			if jp, ok := jv.(*ssa.Phi); ok {
				for _, e := range jp.Edges {
					if d, ok := plusConst(e, jp); ok && d == 1 {
						okRun = true
					}
				}
			}
			r.Check(okRun, "escape.InternalEscapeBytes / maximal run", pos, "j must be advanced over every consecutive line feed")
		}
	} else {
		r.Fail("escape.InternalEscapeBytes / line-feed branch rejoins the loop", pos, "the branch does not rejoin the scan loop", nil, "")
	}
	return []*report.Result{r}
}

// ruleC03d: elision pairing in the buffer (and the scanner): the marker
// tested for elision is the opposite of the one appended otherwise, and the
// truncation matches the tested marker's length and the tested slice.
func ruleC03d(c *Ctx) []*report.Result {
	r := report.NewResult("C03.d", "every `if bytes.HasSuffix(X, M) { X = X[:len(X)-K] } else { append the other marker }` in buffer and escape: K = len(M), the truncated slice is the tested one, and the marker appended in the else branch is the opposite of M (closing an envelope elides a trailing start marker and vice versa: a reopened-but-empty envelope disappears)", 3)
	mf := c.markerFacts(r)
	n := 0
	for _, fn := range c.P.ModuleFunctions() {
		pk := pkgPathOf(fn)
		if pk != pkgBuffer && pk != pkgEscape {
			continue
		}
		for _, b := range fn.Blocks {
			for _, ins := range b.Instrs {
				call, ok := ins.(*ssa.Call)
				if !ok {
					continue
				}
				f := call.Common().StaticCallee()
				if f == nil || (f.String() != "bytes.HasSuffix" && !isSuffixPredicate(f)) {
					continue
				}
				if isSuffixPredicate(fn) {
					continue // the predicate's own body
				}
				n++
				pos := c.P.Pos(call.Pos())
				construct := shortFn(fn.String()) + " / marker elision"
				gname, gval, okG := c.markerGlobal(call.Common().Args[1], mf)
				if !okG || (gval != string(mf.start) && gval != string(mf.end)) {
					r.Fail(construct, pos, "HasSuffix is not applied to one of the two marker variables ("+gname+")", nil, "")
					continue
				}
				other := string(mf.end)
				if gval == string(mf.end) {
					other = string(mf.start)
				}
				iff, ok := b.Instrs[len(b.Instrs)-1].(*ssa.If)
				if !ok || iff.Cond != ssa.Value(call) {
					r.Fail(construct, pos, "the test does not decide a branch", nil, "")
					continue
				}
				tb, fb := b.Succs[0], b.Succs[1]
				// truncation in the true branch by len(M)
				okTrunc := false
				for _, i2 := range tb.Instrs {
					if sl, ok := i2.(*ssa.Slice); ok && sl.Low == nil && sameSlice(sl.X, call.Common().Args[0]) {
						if bo, ok := sl.High.(*ssa.BinOp); ok && bo.Op == token.SUB {
							if k, ok := intConst(bo.Y); ok && k == int64(len(gval)) {
								okTrunc = true
							}
						}
					}
				}
				r.Check(okTrunc, construct+" / truncation", pos, fmt.Sprintf("the tested slice must be truncated by len(%s)=%d in the branch where the suffix was found", gname, len(gval)))
				// the else branch appends/copies the other marker
				okOther := false
				var scan func(bb *ssa.BasicBlock, depth int)
				scan = func(bb *ssa.BasicBlock, depth int) {
					if depth > 3 || bb == tb {
						return
					}
					for _, i2 := range bb.Instrs {
						if cl, ok := i2.(*ssa.Call); ok {
							if v, ok := c.writtenConstant(cl, mf); ok && v == other {
								okOther = true
							}
						}
					}
					for _, su := range bb.Succs {
						if bb.Dominates(su) {
							scan(su, depth+1)
						}
					}
				}
				scan(fb, 0)
				r.Check(okOther, construct+" / opposite marker otherwise", pos, "when the suffix is not found the opposite marker must be written")
			}
		}
	}
	r.Check(n >= 3, "buffer+escape / three elision sites", "internal/buffer/buffer.go", fmt.Sprintf("found %d marker-elision sites, want 3 (open, close, line split)", n))
	return []*report.Result{r}
}

// sameSlice: the two values denote the same slice (same SSA value, or two
// loads of the same field of the same base).
func sameSlice(a, b ssa.Value) bool {
	if a == b {
		return true
	}
	ua, ok1 := a.(*ssa.UnOp)
	ub, ok2 := b.(*ssa.UnOp)
	if ok1 && ok2 {
		fa, ok3 := ua.X.(*ssa.FieldAddr)
		fb, ok4 := ub.X.(*ssa.FieldAddr)
		if ok3 && ok4 {
			return fa.X == fb.X && fa.Field == fb.Field
		}
	}
	return false
}

// ruleC10b: shape of EscapeBytes.
func ruleC10b(c *Ctx) []*report.Result {
	r := report.NewResult("C10.b", "EscapeBytes: the start marker is appended to a fresh buffer, the scan offset is the length after the marker and before the payload, the escape routine is called with that offset, line splitting on and stripping off, and the end marker is appended to its result, which is returned", 5)
	fn := c.P.Func("internal/rfmt", "EscapeBytes")
	if fn == nil {
		r.Undecide("rfmt.EscapeBytes not found")
		return []*report.Result{r}
	}
	pos := c.P.Pos(fn.Pos())
	mp := c.P.Pkg("internal/markers").Types.Scope()
	startS := constant.StringVal(mp.Lookup("StartS").(interface{ Val() constant.Value }).Val())
	endS := constant.StringVal(mp.Lookup("EndS").(interface{ Val() constant.Value }).Val())
	var esc *ssa.Call
	for _, b := range fn.Blocks {
		for _, ins := range b.Instrs {
			if call, ok := ins.(*ssa.Call); ok {
				if f := call.Common().StaticCallee(); f != nil && f.String() == escapeFnName {
					esc = call
				}
			}
		}
	}
	if esc == nil {
		r.Fail("rfmt.EscapeBytes / escape routine", pos, "EscapeBytes does not call the escape routine", nil, "")
		return []*report.Result{r}
	}
	a := esc.Common().Args
	// a[0] = append(a1, s...) ; a1 = append(make, StartS...) ; a[1] = len(a1)
	ok0 := false
	var a1 ssa.Value
	if ap, ok := a[0].(*ssa.Call); ok && isBuiltin(ap, "append") && stripConvAll(ap.Common().Args[1]) == ssa.Value(fn.Params[0]) {
		a1 = ap.Common().Args[0]
		if ap1, ok := a1.(*ssa.Call); ok && isBuiltin(ap1, "append") {
			if cst, ok := ap1.Common().Args[1].(*ssa.Const); ok && cst.Value != nil && constant.StringVal(cst.Value) == startS {
				if _, isMake := ap1.Common().Args[0].(*ssa.MakeSlice); isMake {
					ok0 = true
				}
			}
		}
	}
	r.Check(ok0, "rfmt.EscapeBytes / marker then payload", pos, "the buffer handed to the escape routine must be fresh, hold the start marker, then the payload")
	ok1 := false
	if lc, ok := a[1].(*ssa.Call); ok && isBuiltin(lc, "len") && lc.Common().Args[0] == a1 && a1 != nil {
		ok1 = true
	}
	r.Check(ok1, "rfmt.EscapeBytes / scan offset", pos, "the scan offset must be the length after the start marker and before the payload (earlier: the marker itself is escaped; later: payload bytes are skipped)")
	b2, okb2 := a[2].(*ssa.Const)
	b3, okb3 := a[3].(*ssa.Const)
	r.Check(okb2 && b2.Value != nil && b2.Value.String() == "true", "rfmt.EscapeBytes / line splitting on", pos, "breakNewLines must be true")
	r.Check(okb3 && b3.Value != nil && b3.Value.String() == "false", "rfmt.EscapeBytes / stripping off", pos, "strip must be false")
	okEnd := false
	for _, b := range fn.Blocks {
		if ret, ok := b.Instrs[len(b.Instrs)-1].(*ssa.Return); ok && len(ret.Results) == 1 {
			if ap, ok := stripConvAll(ret.Results[0]).(*ssa.Call); ok && isBuiltin(ap, "append") && ap.Common().Args[0] == ssa.Value(esc) {
				if cst, ok := ap.Common().Args[1].(*ssa.Const); ok && cst.Value != nil && constant.StringVal(cst.Value) == endS {
					okEnd = true
				}
			}
		}
	}
	r.Check(okEnd, "rfmt.EscapeBytes / closes the envelope", pos, "the result must be the escaped buffer followed by the end marker")
	return []*report.Result{r}
}

// cowHooks flags writes into the input of the escape routine.
type cowHooks struct {
	engine.BaseHooks
}

func (cowHooks) OnBuiltin(c *engine.Ctx, instr ssa.Instruction, name string, args []engine.AbsVal) {
	if name != "append" && name != "copy" {
		return
	}
	if so, ok := args[0].(engine.SliceOf); ok && so.Obj == "input" {
		c.It.Record(engine.Event{Kind: "cow", Instr: instr, Fn: c.Fn, Detail: map[string]string{"what": name + " into the input slice"}})
	}
}

func (cowHooks) OnSliceStore(c *engine.Ctx, instr ssa.Instruction, so engine.SliceOf, val engine.AbsVal) {
	if so.Obj == "input" {
		c.It.Record(engine.Event{Kind: "cow", Instr: instr, Fn: c.Fn, Detail: map[string]string{"what": "element store into the input slice"}})
	}
}

// EvalValue gives the output allocated by the routine an identity ("out")
// and notes, per path, that it exists: allocating it a second time on the
// same path discards what was already produced.
func (cowHooks) EvalValue(c *engine.Ctx, v ssa.Value, ops []engine.AbsVal) (engine.AbsVal, bool) {
	isBytes := func(t types.Type) bool {
		sl, ok := t.Underlying().(*types.Slice)
		if !ok {
			return false
		}
		b, ok := sl.Elem().Underlying().(*types.Basic)
		return ok && b.Kind() == types.Uint8
	}
	fresh := false
	switch x := v.(type) {
	case *ssa.MakeSlice:
		fresh = isBytes(x.Type())
	case *ssa.Slice:
		if _, ok := x.X.(*ssa.Alloc); ok && isBytes(x.Type()) {
			fresh = true // make with constant size
		}
	}
	if !fresh {
		return nil, false
	}
	o := c.Heap["out"]
	if o == nil {
		return nil, false
	}
	if live, _ := constStr(o.Fields["#live"]); live == "T" {
		c.It.Record(engine.Event{Kind: "realloc", Instr: v.(ssa.Instruction), Fn: c.Fn, Detail: map[string]string{"what": "the output is allocated a second time on a path on which it already holds escaped text"}})
	}
	o.Fields["#live"] = str("T")
	return engine.SliceOf{Obj: "out", Path: "res"}, true
}

func (cowHooks) OnCall(c *engine.Ctx, instr ssa.Instruction, callee *ssa.Function, args []engine.AbsVal) (bool, engine.AbsVal) {
	pure := map[string]bool{"bytes.HasSuffix": true, "bytes.HasPrefix": true, "bytes.Equal": true, "bytes.Index": true, "bytes.IndexByte": true, "bytes.IndexRune": true, "bytes.IndexAny": true, "bytes.LastIndex": true, "bytes.LastIndexByte": true, "bytes.Contains": true, "bytes.ContainsRune": true, "bytes.ContainsAny": true, "bytes.Compare": true, "bytes.Count": true,
		"unicode/utf8.DecodeLastRune": true, "unicode/utf8.DecodeRune": true, "unicode/utf8.Valid": true, "unicode/utf8.RuneCount": true, "unicode/utf8.FullRune": true}
	// a helper of the module is interpreted like the routine itself (its
	// stores and appends are seen by the hooks above)
	if c.It.Cfg.InModule(callee) && callee.Blocks != nil {
		return false, nil
	}
	if !pure[callee.String()] {
		for _, a := range args {
			if so, ok := a.(engine.SliceOf); ok && so.Obj == "input" {
				c.It.Record(engine.Event{Kind: "cow", Instr: instr, Fn: c.Fn, Detail: map[string]string{"what": "input slice passed to " + callee.String()}})
			}
		}
	}
	return false, nil
}

// ruleC10f: the escape routine is copy-on-write.
func ruleC10f(c *Ctx) []*report.Result {
	r := report.NewResult("C10.f", "the escape routine never writes through its input slice: interpreted path-sensitively (the `copied` flag and the identity of `res` are tracked together), every append/copy/element store reaches only a freshly made output, for both values of breakNewLines and strip", 4)
	fn := c.escapeFn()
	if fn == nil {
		r.Undecide("escape.InternalEscapeBytes not found")
		return []*report.Result{r}
	}
	it := engine.New(engine.Config{Prog: c.P.Prog, InModule: c.P.InModule, Hooks: cowHooks{}, NoMerge: true})
	var roots []engine.Root
	for _, brk := range []bool{false, true} {
		for _, strip := range []bool{false, true} {
			h := engine.Heap{"out": &engine.Object{Type: types.Typ[types.Int], TrackAll: true, Fields: map[string]engine.AbsVal{"#live": str("F")}}}
			roots = append(roots, engine.Root{Fn: fn, Args: []engine.AbsVal{engine.SliceOf{Obj: "input", Path: "b"}, engine.Top{}, boolv(brk), boolv(strip)}, Heap: h})
		}
	}
	it.Run(roots)
	for _, u := range it.Undecided {
		r.Undecide(u)
	}
	for _, root := range roots {
		sum := it.SummaryFor(root.Fn, root.Args, root.Heap, false)
		if sum == nil || len(sum.Outcomes) == 0 {
			r.Undecide("no outcome for the escape routine")
			continue
		}
		r.Ok(fmt.Sprintf("breakNewLines=%s strip=%s: %d exits", root.Args[2].Key(), root.Args[3].Key(), len(sum.Outcomes)))
	}
	for _, e := range eventsOf(it, "cow") {
		r.Fail("escape.InternalEscapeBytes / writes its input", c.P.Pos(e.Instr.Pos()), e.Detail["what"]+": the caller's buffer (possibly shared with a by-value copy or an earlier result) is modified in place", nil, "")
	}
	for _, e := range eventsOf(it, "realloc") {
		r.Fail("escape.InternalEscapeBytes / output allocated once per path", c.P.Pos(e.Instr.Pos()), e.Detail["what"]+": everything escaped so far is dropped from the result", nil, "")
	}
	r.Analysed = fmt.Sprintf("%d abstract states", it.States)
	return []*report.Result{r}
}

// ruleC10g: plain writes never escape and never validate.
func ruleC10g(c *Ctx) []*report.Result {
	r := report.NewResult("C10.g", "Buffer.Write/WriteString/WriteByte/WriteRune never reach the escape routine, and the only store to validUntil they can reach directly follows the opening of an envelope: escaping is lazy and sees the concatenation of the pieces, however a payload is split across calls", 5)
	sp := c.P.SSAPkg("internal/buffer")
	bt := sp.Type("Buffer")
	if bt == nil {
		r.Undecide("buffer.Buffer not found")
		return []*report.Result{r}
	}
	for _, name := range []string{"Write", "WriteString", "WriteByte", "WriteRune"} {
		fn := c.P.Func("internal/buffer", "(*Buffer)."+name)
		if fn == nil {
			r.Fail("buffer.Buffer."+name, "internal/buffer/buffer.go", "write method not found", nil, "")
			continue
		}
		reach := c.reach(fn, true)
		esc := false
		for f := range reach {
			if f.String() == escapeFnName {
				esc = true
			}
		}
		r.Check(!esc, "(*internal/buffer.Buffer)."+name+" / no eager escaping", c.P.Pos(fn.Pos()), name+" reaches the escape routine: a marker split across two writes would be escaped piecewise and survive")
		for f := range reach {
			for _, b := range f.Blocks {
				for i, ins := range b.Instrs {
					st, ok := ins.(*ssa.Store)
					if !ok {
						continue
					}
					fa, ok := st.Addr.(*ssa.FieldAddr)
					if !ok || fieldName(fa) != "validUntil" {
						continue
					}
					// must directly follow a call that writes the start marker
					okOpen := false
					for _, prev := range b.Instrs[:i] {
						if call, ok := prev.(*ssa.Call); ok {
							if g := call.Common().StaticCallee(); g != nil && c.writesConst(g, c.ABuf().Markers.Start) {
								okOpen = true
							}
						}
					}
					r.Check(okOpen, shortFn(f.String())+" / validUntil store reachable from "+name, c.P.Pos(st.Pos()), "a plain write advances validUntil without having just opened an envelope: pending bytes are declared escaped")
				}
			}
		}
	}
	return []*report.Result{r}
}

// writesConst: fn copies/appends the given string constant, itself or
// through a helper to which it hands the constant.
func (c *Ctx) writesConst(fn *ssa.Function, s string) bool {
	mf := c.markerFacts(report.NewResult("x", "", 0))
	for _, b := range fn.Blocks {
		for _, ins := range b.Instrs {
			if call, ok := ins.(*ssa.Call); ok {
				if v, ok := c.writtenConstant(call, mf); ok && v == s {
					return true
				}
			}
		}
	}
	return false
}

// writtenConstant: the string constant a call copies or appends — directly
// (copy/append of a constant or of a marker variable) or as a module helper
// that copies/appends the parameter it receives the constant in.
func (c *Ctx) writtenConstant(call *ssa.Call, mf *markerFacts) (string, bool) {
	constOf := func(a ssa.Value) (string, bool) {
		a = stripConvAll(a)
		if cst, ok := a.(*ssa.Const); ok && cst.Value != nil && cst.Value.Kind() == constant.String {
			return constant.StringVal(cst.Value), true
		}
		if _, v, ok := c.markerGlobal(a, mf); ok {
			return v, true
		}
		return "", false
	}
	if (isBuiltin(call, "copy") || isBuiltin(call, "append")) && len(call.Common().Args) == 2 {
		return constOf(call.Common().Args[1])
	}
	g := call.Common().StaticCallee()
	if g == nil || !c.P.InModule(g) || g.Blocks == nil {
		return "", false
	}
	for i, a := range call.Common().Args {
		v, ok := constOf(a)
		if !ok || i >= len(g.Params) {
			continue
		}
		// does g copy/append that parameter?
		p := g.Params[i]
		for _, b := range g.Blocks {
			for _, ins := range b.Instrs {
				if cl, ok := ins.(*ssa.Call); ok && (isBuiltin(cl, "copy") || isBuiltin(cl, "append")) && len(cl.Common().Args) == 2 {
					if stripConvAll(cl.Common().Args[1]) == ssa.Value(p) {
						return v, true
					}
				}
			}
		}
	}
	return "", false
}

// isSuffixPredicate: g(a, b []byte) bool is "a ends with b": it returns
// bytes.HasSuffix(a, b), or bytes.Equal(a[len(a)-len(b):], b) under a test
// len(a) >= len(b), and does nothing else.
func isSuffixPredicate(g *ssa.Function) bool {
	if g == nil || g.Blocks == nil || len(g.Params) != 2 || g.Signature.Results().Len() != 1 {
		return false
	}
	a, b := ssa.Value(g.Params[0]), ssa.Value(g.Params[1])
	lenOf := func(v ssa.Value, of ssa.Value) bool {
		c, ok := v.(*ssa.Call)
		if !ok {
			return false
		}
		bi, ok := c.Common().Value.(*ssa.Builtin)
		return ok && bi.Name() == "len" && len(c.Common().Args) == 1 && c.Common().Args[0] == of
	}
	hasSuffix, equalTail, guard := false, false, false
	for _, blk := range g.Blocks {
		for _, ins := range blk.Instrs {
			switch x := ins.(type) {
			case *ssa.Store, *ssa.MapUpdate, *ssa.Go, *ssa.Defer, *ssa.Panic:
				return false
			case *ssa.BinOp:
				if (x.Op == token.GEQ && lenOf(x.X, a) && lenOf(x.Y, b)) || (x.Op == token.LEQ && lenOf(x.X, b) && lenOf(x.Y, a)) || (x.Op == token.LSS && lenOf(x.X, a) && lenOf(x.Y, b)) || (x.Op == token.GTR && lenOf(x.X, b) && lenOf(x.Y, a)) {
					guard = true
				}
			case *ssa.Call:
				if _, isB := x.Common().Value.(*ssa.Builtin); isB {
					continue
				}
				f := x.Common().StaticCallee()
				if f == nil {
					return false
				}
				switch f.String() {
				case "bytes.HasSuffix":
					if x.Common().Args[0] == a && x.Common().Args[1] == b {
						hasSuffix = true
					} else {
						return false
					}
				case "bytes.Equal":
					sl, ok := x.Common().Args[0].(*ssa.Slice)
					if !ok || sl.X != a || sl.High != nil || x.Common().Args[1] != b {
						return false
					}
					lo, ok := sl.Low.(*ssa.BinOp)
					if !ok || lo.Op != token.SUB || !lenOf(lo.X, a) || !lenOf(lo.Y, b) {
						return false
					}
					equalTail = true
				default:
					return false
				}
			}
		}
	}
	return hasSuffix || (equalTail && guard)
}
