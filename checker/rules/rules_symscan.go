package rules

import (
	"fmt"
	"go/constant"
	"go/token"
	"go/types"
	"sort"
	"strings"

	"golang.org/x/tools/go/ssa"

	"redactverif/report"
)

func init() { register("C10.sym", ruleC10sym) }

// Rule C10.sym — the scan loop of the escaper, path by path.
//
// One iteration of the loop is enumerated as the finite set of its paths
// (helpers of the module read in place, conditions that fold to a constant
// along the path pruned), each path being the list of branch conditions it
// took and, as terms over the loop-carried variables at the head of the
// iteration (I, K, RES, COPIED) and the input B, the values those variables
// have when the iteration ends. The same is done for the paths from the
// loop's exit to the return. Every path must be one of the admissible steps:
//
//	marker step   taken exactly when B[I:I+len M] = M was tested true for a
//	              marker M, with I+len M <= len B established before:
//	              RES' = base ++ B[K:I] ++ escape mark, K' = I' = I+len M
//	plain step    RES, K, COPIED unchanged, I' = I+1 — and for each marker
//	              the path has established that it does not start at I
//	              (test false, or no room for it)
//	line step     paths that test B[I] for the line feed true (they enter the
//	              run-of-line-feeds loop): shape rule C03.c
//	finish        return base ++ B[K:] (++ escape mark when the last rune of
//	              B is a lone invalid byte), or RES itself when nothing was
//	              copied
//
// with base = RES when COPIED is known true on the path, a fresh slice only
// when COPIED is known false. Together with the initial values (I=startLoc,
// K=0, RES=B, COPIED=false) these are the inductive steps of "RES ++ B[K:I]
// is B[:I] with every marker replaced by the escape mark". No solver is
// involved: terms are compared syntactically after constant folding and
// linear normalisation (x+c).
//
// When a path contains something the evaluator does not model, the rule is
// not decided and says so; the shape rule C10.scan then stands in for it.

type symInt struct {
	base string // "" for a constant
	off  int64
}

func (a symInt) String() string {
	switch {
	case a.base == "":
		return fmt.Sprint(a.off)
	case a.off == 0:
		return a.base
	case a.off > 0:
		return fmt.Sprintf("%s+%d", a.base, a.off)
	}
	return fmt.Sprintf("%s-%d", a.base, -a.off)
}

type symBool string // "true", "false", or an opaque canonical text

type symBytes []string // concatenation of parts

func (b symBytes) String() string { return strings.Join(b, " ++ ") }

type symOpaque string

type symTuple []interface{}

// a condition taken on a path
type symCond struct {
	text string
	pol  bool
	// structured forms
	equalM string // bytes.Equal(B[lo:hi], M): marker name
	lo, hi symInt
	cmpOp  string // "<=" or "<": a op b
	a, b   symInt
	prefix bool // the window was tested with HasPrefix (no bounds obligation)
}

type symPath struct {
	reads     []symRead
	innerStep string // "" ok; otherwise what the inner loop does to its counter
	kind      string // back | exit | inner | panic
	conds     []symCond
	next      map[string]interface{} // role -> value at the end of the iteration
	ret       interface{}
	where     string
}

type symScanResult struct {
	nilFlag   bool              // the output's being non-nil plays the copied flag
	lineSteps int               // iteration paths through the line-feed branch with a recognisable elision test
	init      map[string]string // role -> initial value of the loop-carried variable
	decided   bool
	why       string
	paths     []symPath
	markers   map[string]int // START/END -> length
	fn        *ssa.Function
}

type symFrame struct {
	fn     *ssa.Function
	env    map[ssa.Value]interface{}
	call   *ssa.Call // call in the caller this frame returns to
	blk    *ssa.BasicBlock
	prev   *ssa.BasicBlock
	idx    int
	onPath map[*ssa.BasicBlock]int
	havoc  map[*ssa.BasicBlock]bool
}

type symState struct {
	stack     []*symFrame
	conds     []symCond
	innerStep string
	innerSeen bool
	inLoop    bool // the scan loop has been entered on this path
	reads     []symRead
}

// symRead: an element of the input read at an index, and how many of the
// path's conditions had been decided when it was read.
type symRead struct {
	idx   symInt
	nCond int
	where string
}

func (s *symState) clone() *symState {
	n := &symState{conds: append([]symCond(nil), s.conds...), innerStep: s.innerStep, innerSeen: s.innerSeen, inLoop: s.inLoop, reads: append([]symRead(nil), s.reads...)}
	for _, f := range s.stack {
		nf := &symFrame{fn: f.fn, env: make(map[ssa.Value]interface{}, len(f.env)), call: f.call, blk: f.blk, prev: f.prev, idx: f.idx, onPath: map[*ssa.BasicBlock]int{}, havoc: map[*ssa.BasicBlock]bool{}}
		for k, v := range f.havoc {
			nf.havoc[k] = v
		}
		for k, v := range f.env {
			nf.env[k] = v
		}
		for k, v := range f.onPath {
			nf.onPath[k] = v
		}
		n.stack = append(n.stack, nf)
	}
	return n
}

type symExec struct {
	nilFlag bool
	c       *Ctx
	mf      *markerFacts
	header  *ssa.BasicBlock
	loop    map[*ssa.BasicBlock]bool
	roles   map[*ssa.Phi]string
	input   ssa.Value
	res     *symScanResult
	undec   string
	budget  int
	root    *ssa.Function
	entered map[string]bool
	retMode bool // exploring from the loop exit to the return
}

func (c *Ctx) symMF() *markerFacts {
	return c.markerFacts(report.NewResult("x", "", 0))
}

func (c *Ctx) symScan() *symScanResult {
	if c.symCache != nil {
		return c.symCache
	}
	res := &symScanResult{markers: map[string]int{}}
	c.symCache = res
	fn := c.escapeFn()
	if fn == nil {
		res.why = "escape.InternalEscapeBytes not found"
		return res
	}
	res.fn = fn
	tmp := report.NewResult("x", "", 0)
	mf := c.markerFacts(tmp)
	// the scan loop: the header holds a phi initialised from the int parameter
	// that is not the slice (startLoc)
	// (the loop may sit in a helper the routine calls: the routine itself
	// and the functions of the module it reaches are searched)
	var header *ssa.BasicBlock
	var iPhi *ssa.Phi
	root := fn
	cands := append([]*ssa.Function{fn}, sortedFns(c.reach(fn, false))...)
	for _, g := range cands {
		if header != nil || g.Blocks == nil || !c.P.InModule(g) {
			continue
		}
		for _, b := range g.Blocks {
			for _, ins := range b.Instrs {
				ph, ok := ins.(*ssa.Phi)
				if !ok {
					continue
				}
				for _, e := range ph.Edges {
					if p, ok := e.(*ssa.Parameter); ok && p.Parent() == g {
						if bt, ok := p.Type().Underlying().(*types.Basic); ok && bt.Kind() == types.Int {
							// it must be a loop header whose condition compares the phi with len(...)
							if iff, ok := b.Instrs[len(b.Instrs)-1].(*ssa.If); ok {
								if bo, ok := iff.Cond.(*ssa.BinOp); ok && bo.Op == token.LSS && bo.X == ssa.Value(ph) {
									header, iPhi = b, ph
								}
							}
						}
					}
				}
			}
		}
	}
	if header == nil {
		res.why = "no loop index initialised from an int parameter"
		return res
	}
	fn = header.Parent()
	// natural loop of the header
	loop := map[*ssa.BasicBlock]bool{header: true}
	var work []*ssa.BasicBlock
	for _, p := range header.Preds {
		if header.Dominates(p) {
			work = append(work, p)
		}
	}
	for len(work) > 0 {
		b := work[len(work)-1]
		work = work[:len(work)-1]
		if loop[b] {
			continue
		}
		loop[b] = true
		work = append(work, b.Preds...)
	}
	// header condition: I < len(X): X is the scanned input
	iff, ok := header.Instrs[len(header.Instrs)-1].(*ssa.If)
	if !ok {
		res.why = "the loop header does not end in a test"
		return res
	}
	var input ssa.Value
	if bo, ok := iff.Cond.(*ssa.BinOp); ok && bo.Op == token.LSS && bo.X == ssa.Value(iPhi) {
		if lc, ok := bo.Y.(*ssa.Call); ok && isBuiltin(lc, "len") {
			input = lc.Common().Args[0]
		}
	}
	if input == nil {
		res.why = "the loop condition is not index < len(input)"
		return res
	}
	roles := map[*ssa.Phi]string{iPhi: "I"}
	extra := 0
	for _, ins := range header.Instrs {
		ph, ok := ins.(*ssa.Phi)
		if !ok || ph == iPhi {
			continue
		}
		switch t := ph.Type().Underlying().(type) {
		case *types.Slice:
			roles[ph] = "RES"
		case *types.Basic:
			switch {
			case t.Kind() == types.Bool:
				roles[ph] = "COPIED"
			case t.Info()&types.IsInteger != 0:
				roles[ph] = "K"
			}
		}
		if roles[ph] == "" {
			extra++
			roles[ph] = fmt.Sprintf("V%d", extra)
		}
	}
	seen := map[string]int{}
	for _, r := range roles {
		seen[r]++
	}
	if seen["RES"] != 1 || seen["K"] != 1 || seen["COPIED"] > 1 {
		res.why = fmt.Sprintf("loop-carried variables not recognised (%v)", seen)
		return res
	}
	res.init = map[string]string{}
	ex := &symExec{c: c, mf: mf, header: header, loop: loop, roles: roles, input: input, res: res, budget: 6000, root: root}
	// no copied flag: "something was copied" is then `output != nil` (the output
	// starts nil and the input is returned when it still is)
	ex.nilFlag = seen["COPIED"] == 0
	res.nilFlag = ex.nilFlag
	res.markers["START"] = len(string(mf.start))
	res.markers["END"] = len(string(mf.end))
	// from the entry of the routine; the scan loop is entered on the way
	f := &symFrame{fn: root, env: map[ssa.Value]interface{}{}, onPath: map[*ssa.BasicBlock]int{}, blk: root.Blocks[0]}
	st := &symState{stack: []*symFrame{f}}
	ex.run(st)
	if ex.undec != "" {
		res.why = ex.undec
		return res
	}
	res.decided = true
	for _, p := range res.paths {
		if p.kind != "back" {
			continue
		}
		line, elide := false, false
		for _, c := range p.conds {
			if c.pol && strings.Contains(c.text, "==10") {
				line = true
			}
			if strings.HasPrefix(c.text, "HasSuffix(") {
				elide = true
			}
		}
		if line && elide {
			res.lineSteps++
		}
	}
	return res
}

// rename calls the byte sequence named old "B" in every value of the state.
func (ex *symExec) rename(st *symState, old string) {
	for _, f := range st.stack {
		for k, v := range f.env {
			f.env[k] = renameVal(v, old)
		}
	}
}

func renameVal(v interface{}, old string) interface{} {
	rs := func(t string) string {
		t = strings.ReplaceAll(t, "len("+old+")", "LEN")
		return strings.ReplaceAll(t, old, "B")
	}
	switch x := v.(type) {
	case symBytes:
		out := make(symBytes, len(x))
		for i, p := range x {
			out[i] = rs(p)
		}
		if len(out) == 1 && out[0] == "B[0:LEN]" {
			out[0] = "B"
		}
		return out
	case symInt:
		return symInt{rs(x.base), x.off}
	case symBool:
		return symBool(rs(string(x)))
	case symOpaque:
		return symOpaque(rs(string(x)))
	case symTuple:
		out := make(symTuple, len(x))
		for i, e := range x {
			out[i] = renameVal(e, old)
		}
		return out
	}
	return v
}

func (ex *symExec) fail(msg string) {
	if ex.undec == "" {
		ex.undec = msg
	}
}

// outside evaluates a value defined outside the current exploration.
func (ex *symExec) outside(v ssa.Value) interface{} {
	if v == ex.input {
		return symBytes{"B"}
	}
	switch x := v.(type) {
	case *ssa.Const:
		if x.Value == nil {
			if _, ok := x.Type().Underlying().(*types.Slice); ok {
				return symBytes{}
			}
			return symOpaque("nil")
		}
		switch x.Value.Kind() {
		case constant.Int:
			n, _ := constant.Int64Val(x.Value)
			return symInt{off: n}
		case constant.Bool:
			return symBool(x.Value.String())
		case constant.String:
			s := constant.StringVal(x.Value)
			if name := ex.markerName(s); name != "" {
				return symBytes{name}
			}
			return symBytes{fmt.Sprintf("%q", s)}
		}
	case *ssa.Parameter:
		switch t := x.Type().Underlying().(type) {
		case *types.Basic:
			if t.Kind() == types.Bool {
				return symBool("param:" + x.Name())
			}
			if t.Info()&types.IsInteger != 0 {
				return symInt{base: "param:" + x.Name()}
			}
		case *types.Slice:
			return symBytes{"param:" + x.Name()}
		}
	case *ssa.UnOp:
		if x.Op == token.MUL {
			if _, s, ok := ex.c.markerGlobal(x, ex.mf); ok {
				if name := ex.markerName(s); name != "" {
					return symBytes{name}
				}
			}
		}
	case *ssa.Convert:
		return ex.outside(x.X)
	}
	return symOpaque("outer:" + v.Name())
}

func (ex *symExec) markerName(s string) string {
	switch s {
	case string(ex.mf.start):
		return "START"
	case string(ex.mf.end):
		return "END"
	case string(ex.mf.escape):
		return "ESC"
	}
	return ""
}

func (ex *symExec) eval(f *symFrame, v ssa.Value) interface{} {
	if x, ok := f.env[v]; ok {
		return x
	}
	return ex.outside(v)
}

func symLen(ex *symExec, v interface{}) interface{} {
	b, ok := v.(symBytes)
	if !ok {
		return symInt{base: fmt.Sprintf("len(%v)", v)}
	}
	total := int64(0)
	var rest []string
	for _, p := range b {
		switch p {
		case "START":
			total += int64(ex.res.markers["START"])
		case "END":
			total += int64(ex.res.markers["END"])
		case "ESC":
			total += int64(len(string(ex.mf.escape)))
		case "B":
			rest = append(rest, "LEN")
		default:
			rest = append(rest, "len("+p+")")
		}
	}
	if len(rest) == 0 {
		return symInt{off: total}
	}
	sort.Strings(rest)
	return symInt{base: strings.Join(rest, "+"), off: total}
}

func symAdd(a, b symInt, sign int64) symInt {
	switch {
	case b.base == "":
		return symInt{a.base, a.off + sign*b.off}
	case a.base == "" && sign > 0:
		return symInt{b.base, a.off + b.off}
	case a.base == b.base && sign < 0:
		return symInt{"", a.off - b.off}
	}
	op := "+"
	if sign < 0 {
		op = "-"
	}
	return symInt{base: "(" + a.String() + op + b.String() + ")"}
}

// cmp folds or canonicalises a comparison into a <= b / a < b with polarity.
func symCmp(op token.Token, a, b symInt) (symBool, *symCond) {
	if a.base == b.base {
		var r bool
		switch op {
		case token.LSS:
			r = a.off < b.off
		case token.LEQ:
			r = a.off <= b.off
		case token.GTR:
			r = a.off > b.off
		case token.GEQ:
			r = a.off >= b.off
		case token.EQL:
			r = a.off == b.off
		case token.NEQ:
			r = a.off != b.off
		}
		return symBool(fmt.Sprint(r)), nil
	}
	switch op {
	case token.LSS:
		return symBool(a.String() + "<" + b.String()), &symCond{cmpOp: "<", a: a, b: b}
	case token.LEQ:
		return symBool(a.String() + "<=" + b.String()), &symCond{cmpOp: "<=", a: a, b: b}
	case token.GTR:
		return symBool(b.String() + "<" + a.String()), &symCond{cmpOp: "<", a: b, b: a}
	case token.GEQ:
		return symBool(b.String() + "<=" + a.String()), &symCond{cmpOp: "<=", a: b, b: a}
	case token.EQL:
		return symBool(a.String() + "==" + b.String()), nil
	case token.NEQ:
		return symBool("!(" + a.String() + "==" + b.String() + ")"), nil
	}
	return symBool("?cmp"), nil
}

func (ex *symExec) run(st *symState) {
	for {
		if ex.undec != "" {
			return
		}
		ex.budget--
		if ex.budget < 0 {
			ex.fail("path budget exhausted")
			return
		}
		f := st.stack[len(st.stack)-1]
		if f.idx >= len(f.blk.Instrs) {
			ex.fail("fell off a block")
			return
		}
		ins := f.blk.Instrs[f.idx]
		switch x := ins.(type) {
		case *ssa.Phi:
			var v interface{} = symOpaque("phi?")
			for i, p := range f.blk.Preds {
				if p == f.prev {
					v = ex.eval(f, x.Edges[i])
					if m, ok := f.env[condMeta{x.Edges[i]}]; ok {
						f.env[condMeta{x}] = m
					}
				}
			}
			f.env[x] = v
		case *ssa.DebugRef:
		case *ssa.BinOp:
			f.env[x] = ex.binop(f, x)
		case *ssa.UnOp:
			f.env[x] = ex.unop(f, x)
		case *ssa.IndexAddr:
			base, idx := ex.eval(f, x.X), ex.eval(f, x.Index)
			if bb, ok := base.(symBytes); ok && len(bb) == 1 && bb[0] == "B" && st.inLoop {
				if ii, ok := idx.(symInt); ok {
					st.reads = append(st.reads, symRead{ii, len(st.conds), ex.c.P.Pos(x.Pos())})
				}
			}
			f.env[x] = symOpaque(fmt.Sprintf("&%v[%v]", base, idx))
		case *ssa.Slice:
			f.env[x] = ex.slice(f, x)
		case *ssa.MakeSlice:
			f.env[x] = symBytes{"FRESH"}
		case *ssa.Alloc:
			f.env[x] = symOpaque("alloc:" + x.Name())
		case *ssa.Convert:
			f.env[x] = ex.eval(f, x.X)
		case *ssa.ChangeType:
			f.env[x] = ex.eval(f, x.X)
		case *ssa.Extract:
			t := ex.eval(f, x.Tuple)
			if tv, ok := t.(symTuple); ok && x.Index < len(tv) {
				f.env[x] = tv[x.Index]
			} else {
				f.env[x] = symOpaque(fmt.Sprintf("ext#%d(%v)", x.Index, t))
			}
		case *ssa.Call:
			if done := ex.call(st, f, x); done {
				continue // a frame was pushed
			}
		case *ssa.Store, *ssa.MapUpdate, *ssa.Send, *ssa.Go, *ssa.Defer, *ssa.RunDefers:
			ex.fail("unmodelled effect in the escaper: " + ins.String())
			return
		case *ssa.Panic:
			ex.res.paths = append(ex.res.paths, symPath{kind: "panic", conds: st.conds, where: ex.c.P.Pos(x.Pos())})
			return
		case *ssa.Jump:
			if !ex.enter(st, f, f.blk.Succs[0]) {
				return
			}
			continue
		case *ssa.If:
			cond := ex.eval(f, x.Cond)
			b, ok := cond.(symBool)
			if !ok {
				ex.fail(fmt.Sprintf("branch on a non-boolean term %v", cond))
				return
			}
			switch b {
			case "true":
				if !ex.enter(st, f, f.blk.Succs[0]) {
					return
				}
			case "false":
				if !ex.enter(st, f, f.blk.Succs[1]) {
					return
				}
			default:
				// a negated term is recorded as the term with the polarity flipped
				neg := false
				for strings.HasPrefix(string(b), "!") {
					b = b[1:]
					neg = !neg
				}
				// contradiction / redundancy with an earlier decision on the same term
				decided := 0
				for _, c := range st.conds {
					if c.text == string(b) {
						if c.pol {
							decided = 1
						} else {
							decided = -1
						}
					}
				}
				sc := symCond{text: string(b)}
				if meta, ok := f.env[condMeta{x.Cond}].(*symCond); ok && meta != nil {
					sc = *meta
					sc.text = string(b)
				}
				// successor taken when the (un-negated) term is true / false
				tSucc, fSucc := 0, 1
				if neg {
					tSucc, fSucc = 1, 0
				}
				if decided >= 0 {
					ns := st.clone()
					nc := sc
					nc.pol = true
					ns.conds = append(ns.conds, nc)
					nf := ns.stack[len(ns.stack)-1]
					if ex.enter(ns, nf, nf.blk.Succs[tSucc]) {
						ex.run(ns)
					}
				}
				if decided <= 0 {
					sc.pol = false
					st.conds = append(st.conds, sc)
					if !ex.enter(st, f, f.blk.Succs[fSucc]) {
						return
					}
					continue
				}
				return
			}
			continue
		case *ssa.Return:
			var rv interface{}
			if len(x.Results) == 1 {
				rv = ex.eval(f, x.Results[0])
			} else if len(x.Results) > 1 {
				var tv symTuple
				for _, r := range x.Results {
					tv = append(tv, ex.eval(f, r))
				}
				rv = tv
			}
			if len(st.stack) == 1 {
				kind := "exit"
				if !st.inLoop {
					kind = "early" // returned before the scan loop was reached
				}
				ex.res.paths = append(ex.res.paths, symPath{kind: kind, conds: st.conds, ret: rv, where: ex.c.P.Pos(x.Pos()), reads: st.reads})
				return
			}
			st.stack = st.stack[:len(st.stack)-1]
			caller := st.stack[len(st.stack)-1]
			caller.env[f.call] = rv
			if len(x.Results) == 1 {
				// what a boolean helper established about the input is what its caller branches on
				if m, ok := f.env[condMeta{x.Results[0]}]; ok {
					caller.env[condMeta{f.call}] = m
				}
			}
			caller.idx++
			continue
		default:
			ex.fail("unmodelled instruction in the escaper: " + ins.String())
			return
		}
		f.idx++
	}
}

type condMeta struct{ v ssa.Value }

func (condMeta) Name() string                  { return "meta" }
func (condMeta) String() string                { return "meta" }
func (condMeta) Type() types.Type              { return nil }
func (condMeta) Parent() *ssa.Function         { return nil }
func (condMeta) Referrers() *[]ssa.Instruction { return nil }
func (condMeta) Pos() token.Pos                { return token.NoPos }

// enter moves the top frame to block b; false when the path ends there.
func (ex *symExec) enter(st *symState, f *symFrame, b *ssa.BasicBlock) bool {
	if b == ex.header && f.fn == ex.header.Parent() {
		vals := map[string]interface{}{}
		for ph, role := range ex.roles {
			for i, p := range ex.header.Preds {
				if p == f.blk {
					vals[role] = ex.eval(f, ph.Edges[i])
				}
			}
		}
		if ex.loop[f.blk] {
			// end of an iteration: the values the header phis receive
			if !st.inLoop {
				return false
			}
			ex.res.paths = append(ex.res.paths, symPath{kind: "back", conds: st.conds, next: vals, where: blockPos(ex.c, f.blk), innerStep: st.innerStep, reads: st.reads})
			return false
		}
		// first entry: whatever the input is here is called B from now on;
		// the initial values are noted and the loop-carried variables become
		// the symbols of an arbitrary iteration
		in := ex.eval(f, ex.input)
		if ib, ok := in.(symBytes); ok && len(ib) == 1 && ib[0] != "B" {
			ex.rename(st, ib[0])
			for k, v := range vals {
				vals[k] = renameVal(v, ib[0])
			}
		}
		var key []string
		for role, v := range vals {
			key = append(key, role+"="+fmt.Sprint(v))
		}
		sort.Strings(key)
		k := strings.Join(key, ";")
		if ex.entered == nil {
			ex.entered = map[string]bool{}
		}
		if ex.entered[k] {
			return false // the loop was already explored from this very state
		}
		ex.entered[k] = true
		if len(ex.entered) > 1 {
			ex.fail("the scan loop is entered with different initial values on different paths: " + k)
			return false
		}
		for role, v := range vals {
			ex.res.init[role] = fmt.Sprint(v)
		}
		st.conds = nil // what was decided before the loop does not concern the steps
		st.innerStep, st.innerSeen = "", false
		st.reads = nil
		st.inLoop = true
		first := 0
		for i, ins := range b.Instrs {
			ph, ok := ins.(*ssa.Phi)
			if !ok {
				first = i
				break
			}
			switch role := ex.roles[ph]; role {
			case "RES":
				f.env[ph] = symBytes{"RES"}
			case "COPIED":
				f.env[ph] = symBool("COPIED")
			default:
				f.env[ph] = symInt{base: role}
			}
		}
		f.prev, f.blk, f.idx = f.blk, b, first
		f.onPath = map[*ssa.BasicBlock]int{}
		return true
	}
	f.onPath[f.blk]++
	if f.onPath[b] > 0 && b != ex.header {
		// an inner loop. Its first iteration has been followed; from the
		// second entry on, the variables it carries are arbitrary (fresh
		// symbols) and the enumeration goes on from there: the paths that
		// leave the loop are its effect after any number of iterations.
		if f.havoc == nil {
			f.havoc = map[*ssa.BasicBlock]bool{}
		}
		if f.havoc[b] {
			return false // covered by the arbitrary iteration
		}
		f.havoc[b] = true
		nInt, nOther := 0, 0
		first := 0
		for i, ins := range b.Instrs {
			ph, ok := ins.(*ssa.Phi)
			if !ok {
				first = i
				break
			}
			// the counter of the inner loop advances by one per iteration
			if bt, ok := ph.Type().Underlying().(*types.Basic); ok && bt.Info()&types.IsInteger != 0 {
				st.innerSeen = true
				old, _ := f.env[ph].(symInt)
				for j, p := range b.Preds {
					if p == f.blk {
						if nv, ok := ex.eval(f, ph.Edges[j]).(symInt); !ok || nv.base != old.base || nv.off != old.off+1 {
							st.innerStep = fmt.Sprintf("%v -> %v", old, ex.eval(f, ph.Edges[j]))
						}
					}
				}
			}
			if bt, ok := ph.Type().Underlying().(*types.Basic); ok && bt.Info()&types.IsInteger != 0 {
				nInt++
				name := "N"
				if nInt > 1 {
					name = fmt.Sprintf("N%d", nInt)
				}
				f.env[ph] = symInt{base: name}
			} else if bt, ok := ph.Type().Underlying().(*types.Basic); ok && bt.Kind() == types.Bool {
				nOther++
				f.env[ph] = symBool(fmt.Sprintf("H%d", nOther))
			} else {
				nOther++
				f.env[ph] = symBytes{fmt.Sprintf("H%d", nOther)}
			}
		}
		f.prev, f.blk, f.idx = f.blk, b, first
		return true
	}
	f.prev, f.blk, f.idx = f.blk, b, 0
	return true
}

func blockPos(c *Ctx, b *ssa.BasicBlock) string {
	for _, ins := range b.Instrs {
		if ins.Pos().IsValid() {
			return c.P.Pos(ins.Pos())
		}
	}
	return c.P.Pos(b.Parent().Pos())
}

func (ex *symExec) binop(f *symFrame, x *ssa.BinOp) interface{} {
	a, b := ex.eval(f, x.X), ex.eval(f, x.Y)
	ai, aok := a.(symInt)
	bi, bok := b.(symInt)
	switch x.Op {
	case token.ADD, token.SUB:
		if aok && bok {
			sign := int64(1)
			if x.Op == token.SUB {
				sign = -1
			}
			return symAdd(ai, bi, sign)
		}
	case token.LSS, token.LEQ, token.GTR, token.GEQ, token.EQL, token.NEQ:
		if aok && bok {
			r, meta := symCmp(x.Op, ai, bi)
			if meta != nil {
				f.env[condMeta{x}] = meta
			}
			return r
		}
		if ab, ok := a.(symBool); ok {
			if bb, ok := b.(symBool); ok && (x.Op == token.EQL || x.Op == token.NEQ) {
				if (ab == "true" || ab == "false") && (bb == "true" || bb == "false") {
					return symBool(fmt.Sprint((ab == bb) == (x.Op == token.EQL)))
				}
			}
		}
		// string(B[lo:hi]) == string(M): the marker test written as a
		// string comparison
		if ab, ok := a.(symBytes); ok && (x.Op == token.EQL || x.Op == token.NEQ) {
			if bb, ok := b.(symBytes); ok && len(ab) == 1 && len(bb) == 1 {
				win, mk := ab[0], bb[0]
				if mk != "START" && mk != "END" {
					win, mk = bb[0], ab[0]
				}
				if mk == "START" || mk == "END" {
					if lo, hi, ok := parseWindow(win); ok {
						txt := fmt.Sprintf("Equal(%v,%v)", symBytes{win}, symBytes{mk})
						f.env[condMeta{x}] = &symCond{equalM: mk, lo: lo, hi: hi}
						if x.Op == token.NEQ {
							return symBool("!" + txt)
						}
						return symBool(txt)
					}
				}
			}
		}
		if ex.nilFlag && (x.Op == token.EQL || x.Op == token.NEQ) {
			isNilConst := func(v ssa.Value) bool {
				k, ok := v.(*ssa.Const)
				return ok && k.Value == nil
			}
			var other interface{}
			switch {
			case isNilConst(x.Y):
				other = a
			case isNilConst(x.X):
				other = b
			}
			if ob, ok := other.(symBytes); ok {
				var r symBool
				switch {
				case len(ob) == 1 && ob[0] == "RES":
					r = "COPIED" // output != nil
				case len(ob) == 0:
					r = "false"
				default:
					r = "true" // a fresh or extended slice
				}
				if x.Op == token.EQL {
					switch r {
					case "true":
						r = "false"
					case "false":
						r = "true"
					default:
						r = "!" + r
					}
				}
				return r
			}
		}
		op := x.Op.String()
		return symBool(fmt.Sprintf("%v%s%v", a, op, b))
	}
	return symOpaque(fmt.Sprintf("(%v%s%v)", a, x.Op, b))
}

func (ex *symExec) unop(f *symFrame, x *ssa.UnOp) interface{} {
	switch x.Op {
	case token.NOT:
		if b, ok := ex.eval(f, x.X).(symBool); ok {
			switch b {
			case "true":
				return symBool("false")
			case "false":
				return symBool("true")
			}
			return symBool("!" + string(b))
		}
	case token.MUL:
		if _, ok := x.X.(*ssa.Global); ok {
			return ex.outside(x)
		}
		return symOpaque(fmt.Sprintf("*%v", ex.eval(f, x.X)))
	case token.SUB:
		if i, ok := ex.eval(f, x.X).(symInt); ok && i.base == "" {
			return symInt{off: -i.off}
		}
	}
	return symOpaque(fmt.Sprintf("%s%v", x.Op, ex.eval(f, x.X)))
}

func (ex *symExec) slice(f *symFrame, x *ssa.Slice) interface{} {
	base := ex.eval(f, x.X)
	b, ok := base.(symBytes)
	if !ok {
		return symOpaque(fmt.Sprintf("slice(%v)", base))
	}
	lo := symInt{}
	if x.Low != nil {
		if v, ok := ex.eval(f, x.Low).(symInt); ok {
			lo = v
		} else {
			return symOpaque("slice?")
		}
	}
	if len(b) == 1 && (b[0] == "B" || strings.HasPrefix(b[0], "param:")) {
		hi := symInt{base: "LEN"}
		if b[0] != "B" {
			hi = symInt{base: "len(" + b[0] + ")"}
		}
		if x.High != nil {
			v, ok := ex.eval(f, x.High).(symInt)
			if !ok {
				return symOpaque("slice?")
			}
			hi = v
		}
		if b[0] == "B" && lo == (symInt{}) && hi == (symInt{base: "LEN"}) {
			return symBytes{"B"}
		}
		return symBytes{fmt.Sprintf("%s[%s:%s]", b[0], lo, hi)}
	}
	if x.Low == nil && x.High == nil {
		return b
	}
	var hs string
	if x.High != nil {
		hs = fmt.Sprint(ex.eval(f, x.High))
	}
	return symBytes{fmt.Sprintf("(%s)[%s:%s]", b, lo, hs)}
}

// call evaluates a call; true when a callee frame was pushed.
func (ex *symExec) call(st *symState, f *symFrame, x *ssa.Call) bool {
	args := x.Common().Args
	if bi, ok := x.Common().Value.(*ssa.Builtin); ok {
		switch bi.Name() {
		case "len":
			f.env[x] = symLen(ex, ex.eval(f, args[0]))
		case "cap":
			f.env[x] = symInt{base: fmt.Sprintf("cap(%v)", ex.eval(f, args[0]))}
		case "append":
			a, ok1 := ex.eval(f, args[0]).(symBytes)
			b, ok2 := ex.eval(f, args[1]).(symBytes)
			if !ok1 || !ok2 {
				ex.fail("append of a term that is not a byte sequence")
				return false
			}
			f.env[x] = append(append(symBytes{}, a...), b...)
		case "copy":
			ex.fail("copy in the escaper is not modelled")
		default:
			f.env[x] = symOpaque("builtin:" + bi.Name())
		}
		return false
	}
	callee := x.Common().StaticCallee()
	if callee == nil {
		ex.fail("dynamic call in the escaper")
		return false
	}
	switch callee.String() {
	case "bytes.Equal", "bytes.HasPrefix":
		a, b := ex.eval(f, args[0]), ex.eval(f, args[1])
		txt := fmt.Sprintf("%s(%v,%v)", callee.Name(), a, b)
		meta := &symCond{}
		if ab, ok := a.(symBytes); ok && len(ab) == 1 {
			if bb, ok := b.(symBytes); ok && len(bb) == 1 && (bb[0] == "START" || bb[0] == "END") {
				var lo, hi symInt
				if n, _ := fmt.Sscanf(ab[0], "B[%s", new(string)); n >= 0 && strings.HasPrefix(ab[0], "B[") {
					if l, h, ok := parseWindow(ab[0]); ok {
						lo, hi = l, h
						if callee.Name() == "HasPrefix" {
							// HasPrefix(B[I:], M): the window is as long as M
							hi = symInt{lo.base, lo.off + int64(ex.res.markers[bb[0]])}
							meta.prefix = true
						}
						meta.equalM, meta.lo, meta.hi = bb[0], lo, hi
					}
				}
			}
		}
		f.env[x] = symBool(txt)
		if meta.equalM != "" {
			f.env[condMeta{x}] = meta
		}
		return false
	case "bytes.HasSuffix":
		f.env[x] = symBool(fmt.Sprintf("HasSuffix(%v,%v)", ex.eval(f, args[0]), ex.eval(f, args[1])))
		return false
	case "unicode/utf8.DecodeLastRune":
		a := ex.eval(f, args[0])
		f.env[x] = symTuple{symInt{base: fmt.Sprintf("lastRune(%v)", a)}, symInt{base: fmt.Sprintf("lastSize(%v)", a)}}
		return false
	}
	if ex.c.P.InModule(callee) && callee.Blocks != nil && len(st.stack) < 4 {
		nf := &symFrame{fn: callee, env: map[ssa.Value]interface{}{}, call: x, blk: callee.Blocks[0], onPath: map[*ssa.BasicBlock]int{}}
		for i, p := range callee.Params {
			if i < len(args) {
				nf.env[p] = ex.eval(f, args[i])
			}
		}
		st.stack = append(st.stack, nf)
		return true
	}
	ex.fail("call of " + callee.String() + " in the escaper is not modelled")
	return false
}

// parseWindow reads "B[lo:hi]".
func parseWindow(s string) (lo, hi symInt, ok bool) {
	if !strings.HasPrefix(s, "B[") || !strings.HasSuffix(s, "]") {
		return
	}
	body := s[2 : len(s)-1]
	i := strings.Index(body, ":")
	if i < 0 {
		return
	}
	p := func(t string) (symInt, bool) {
		if t == "" {
			return symInt{}, false
		}
		// const
		var n int64
		if _, err := fmt.Sscanf(t, "%d", &n); err == nil && fmt.Sprint(n) == t {
			return symInt{off: n}, true
		}
		// base+off / base-off
		for j := len(t) - 1; j > 0; j-- {
			if (t[j] == '+' || t[j] == '-') && !strings.ContainsAny(t[j+1:], "()+-") {
				var k int64
				if _, err := fmt.Sscanf(t[j+1:], "%d", &k); err == nil && fmt.Sprint(k) == t[j+1:] {
					if t[j] == '-' {
						k = -k
					}
					return symInt{t[:j], k}, true
				}
			}
		}
		return symInt{base: t}, true
	}
	var ok1, ok2 bool
	lo, ok1 = p(body[:i])
	hi, ok2 = p(body[i+1:])
	return lo, hi, ok1 && ok2
}

// ---- the rule ----

func ruleC10sym(c *Ctx) []*report.Result {
	r := report.NewResult("C10.sym", "the scan loop of the escaper, path by path (symbolic terms over the loop-carried index, copied-up-to index, output and copied flag; module helpers read in place): every iteration path is a marker step (taken exactly on a true test B[I:I+len M]=M made within bounds; output gets B[K:I] and the escape mark; K'=I'=I+len M), a plain step (nothing changes, I'=I+1, and each marker has been ruled out at I) or a line step; every path from the loop to the return delivers the output plus B[K:] (plus the escape mark after a lone invalid last byte); a fresh output is started only where nothing was copied yet", 6)
	res := c.symScan()
	if !res.decided {
		r.Note("not decided path-wise (" + res.why + "); the shape rule C10.scan stands in")
		r.Floor = 0
		r.Ok("deferred to C10.scan")
		return []*report.Result{r}
	}
	_ = res.fn
	I := symInt{base: "I"}
	hasCond := func(p symPath, text string, pol bool) bool {
		for _, c := range p.conds {
			if c.text == text && c.pol == pol {
				return true
			}
		}
		return false
	}
	// a <= b established on the path
	leq := func(p symPath, a, b symInt) bool {
		if a.base == b.base {
			return a.off <= b.off
		}
		for _, c := range p.conds {
			switch {
			case c.cmpOp == "<=" && c.pol && c.a.base == a.base && c.b.base == b.base && a.off-c.a.off <= b.off-c.b.off:
				return true
			case c.cmpOp == "<" && c.pol && c.a.base == a.base && c.b.base == b.base && a.off-c.a.off <= b.off-c.b.off+1:
				// x+ca < y+cb  ==>  x+ca+1 <= y+cb
				return true
			case c.cmpOp == "<" && !c.pol && c.a.base == b.base && c.b.base == a.base && a.off-c.b.off <= b.off-c.a.off:
				// !(b' < a')  ==  a' <= b'
				return true
			case c.cmpOp == "<=" && !c.pol && c.a.base == b.base && c.b.base == a.base && a.off-c.b.off <= b.off-c.a.off+1:
				// !(b' <= a')  ==  a' < b'
				return true
			}
		}
		return false
	}
	base := func(p symPath) (symBytes, bool) {
		switch {
		case hasCond(p, "COPIED", true):
			return symBytes{"RES"}, true
		case hasCond(p, "COPIED", false):
			return symBytes{"FRESH"}, true
		}
		return symBytes{"RES"}, false
	}
	eqBytes := func(a interface{}, b symBytes) bool {
		ab, ok := a.(symBytes)
		if !ok || len(ab) != len(b) {
			return false
		}
		for i := range b {
			if ab[i] != b[i] {
				return false
			}
		}
		return true
	}
	// the initial values of the induction
	pos0 := c.P.Pos(res.fn.Pos())
	r.Check(strings.HasPrefix(res.init["I"], "param:"), "escape.InternalEscapeBytes / scan starts at the start offset", pos0, "the scan index is not initialised from the start-offset parameter: "+res.init["I"])
	r.Check(res.init["K"] == "0", "escape.InternalEscapeBytes / nothing copied at first", pos0, "the copied-up-to index starts at "+res.init["K"]+", want 0")
	r.Check(res.init["RES"] == "B" || (res.nilFlag && res.init["RES"] == ""), "escape.InternalEscapeBytes / output starts as the input", pos0, "the output variable starts as "+res.init["RES"]+", want the scanned input (returned as is when nothing needs escaping)")
	if v, ok := res.init["COPIED"]; ok {
		r.Check(v == "false", "escape.InternalEscapeBytes / copied flag starts false", pos0, "the copied flag starts as "+v)
	}
	// every element of the input read inside the loop is within bounds by
	// what the path had established when it was read
	for _, p := range res.paths {
		for _, rd := range p.reads {
			pre := symPath{conds: p.conds}
			if rd.nCond < len(p.conds) {
				pre.conds = p.conds[:rd.nCond]
			}
			r.Check(leq(pre, symInt{rd.idx.base, rd.idx.off + 1}, symInt{base: "LEN"}), "escape.InternalEscapeBytes / read within bounds @"+rd.where, rd.where, fmt.Sprintf("B[%s] is read without %s < len(B) having been established before on that path: an index out of range inside printing", rd.idx, rd.idx))
		}
	}
	// K <= len(B) is an invariant of the loop once the steps below are verified
	// (K starts at 0; a marker step sets it to I+L under a true I+L <= len(B);
	// a line step to the end of a run that stops at len(B); a plain step leaves
	// it): a path whose conditions say len(B) < K, with K the loop-carried
	// value itself, cannot be taken — a defensive clamp is dead code, not a
	// second way to finish.
	contradictsInv := func(p symPath) bool {
		for _, c := range p.conds {
			if c.cmpOp == "<" && c.pol && c.a.base == "LEN" && c.b.base == "K" && c.a.off >= c.b.off {
				return true // LEN+x < K+y with x >= y
			}
			if c.cmpOp == "<=" && !c.pol && c.a.base == "K" && c.b.base == "LEN" && c.a.off <= c.b.off {
				return true // !(K+x <= LEN+y) with x <= y
			}
		}
		return false
	}
	nBack, nExit := 0, 0
	for _, p := range res.paths {
		if (p.kind == "back" || p.kind == "exit") && contradictsInv(p) {
			r.Ok("infeasible path (contradicts K <= len(B)) @" + p.where)
			continue
		}
		var conds []string
		for _, c := range p.conds {
			if c.pol {
				conds = append(conds, c.text)
			} else {
				conds = append(conds, "!("+c.text+")")
			}
		}
		cfg := strings.Join(conds, " ; ")
		switch p.kind {
		case "panic":
			r.Fail("escape.InternalEscapeBytes / panicking path", p.where, "the escaper has an explicit panic on a path: ["+cfg+"]", nil, cfg)
		case "inner":
			// the run-of-line-feeds loop: must have been entered on a line-feed test
			isLine := false
			for _, c := range p.conds {
				if c.pol && strings.Contains(c.text, "==10") {
					isLine = true
				}
			}
			if isLine {
				r.Ok("line step (C03.c): " + cfg)
			} else {
				r.Fail("escape.InternalEscapeBytes / inner loop", p.where, "a nested loop is entered on a path that did not test for a line feed: ["+cfg+"]", nil, cfg)
			}
		case "back":
			nBack++
			var hits []symCond
			line := false
			for _, c := range p.conds {
				if c.equalM != "" && c.pol {
					hits = append(hits, c)
				}
				if c.pol && strings.Contains(c.text, "==10") {
					line = true
				}
			}
			switch {
			case line:
				// pending text, then close (or elide an envelope opened just
				// before), the run of line feeds, re-open
				construct := "escape.InternalEscapeBytes / line step"
				b, _ := base(p)
				pre := append(append(symBytes{}, b...), "B[K:I]")
				N := symInt{base: "N"}
				elideTxt := fmt.Sprintf("HasSuffix(%v,%v)", pre, symBytes{"START"})
				var tested, elided bool
				otherSuffix := ""
				for _, c := range p.conds {
					if c.text == elideTxt {
						tested, elided = true, c.pol
					} else if strings.HasPrefix(c.text, "HasSuffix(") {
						otherSuffix = c.text
					}
				}
				switch {
				case !tested && otherSuffix != "":
					r.Fail(construct+" / elision test on the output", p.where, "the test that decides between closing the envelope and eliding one opened just before looks at "+otherSuffix+", want the output just extended with the pending text ("+elideTxt+"): in the output data markers are already escaped, in the input they are not", nil, cfg)
				case !tested:
					r.Note("line step without a recognisable elision test (left to C03.c): " + cfg)
				default:
					var want symBytes
					if elided {
						l := symLen(&symExec{res: res, mf: c.symMF()}, pre).(symInt)
						want = symBytes{fmt.Sprintf("(%s)[%s:%s]", pre, symInt{}, symInt{l.base, l.off - int64(res.markers["START"])}), "B[I:N]", "START"}
					} else {
						want = append(append(symBytes{}, pre...), "END", "B[I:N]", "START")
					}
					r.Check(eqBytes(p.next["RES"], want), construct+" / output", p.where, fmt.Sprintf("at a line feed the output becomes %v, want %v (pending text; close the envelope or elide the one just opened; the whole run of line feeds; re-open)", p.next["RES"], want))
					r.Check(p.innerStep == "", construct+" / run counted byte by byte", p.where, "the loop over the run of line feeds advances its counter by "+p.innerStep+", want +1")
					maximal := false
					for _, c := range p.conds {
						if !c.pol && (c.text == "N<LEN" || strings.Contains(c.text, "B[N]==10")) {
							maximal = true
						}
					}
					r.Check(maximal, construct+" / maximal run", p.where, "the run of line feeds is left although neither the end of the input nor a byte other than a line feed was found at N: ["+cfg+"]")
					r.Check(p.next["K"] == interface{}(N), construct+" / copied-up-to index", p.where, fmt.Sprintf("after a run of line feeds ending at N, K becomes %v, want N", p.next["K"]))
					r.Check(p.next["I"] == interface{}(N), construct+" / scan index", p.where, fmt.Sprintf("after a run of line feeds ending at N the next iteration starts at %v, want N", p.next["I"]))
					if cp, has := p.next["COPIED"]; has {
						r.Check(cp == interface{}(symBool("true")) || (cp == interface{}(symBool("COPIED")) && hasCond(p, "COPIED", true)), construct+" / copied flag", p.where, fmt.Sprintf("after a line step the copied flag is %v, want true", cp))
					}
				}
			case len(hits) > 1:
				r.Fail("escape.InternalEscapeBytes / marker step", p.where, "two marker tests succeed on one path: ["+cfg+"]", nil, cfg)
			case len(hits) == 1:
				h := hits[0]
				L := int64(res.markers[h.equalM])
				construct := "escape.InternalEscapeBytes / marker step for " + h.equalM
				end := symInt{"I", L}
				okWin := h.lo == I && h.hi == end
				r.Check(okWin, construct+" / window", p.where, fmt.Sprintf("the window compared with the %d-byte marker is B[%s:%s], want B[I:I+%d]", L, h.lo, h.hi, L))
				r.Check(h.prefix || leq(p, end, symInt{base: "LEN"}), construct+" / within bounds", p.where, "the window is compared without I+len(marker) <= len(B) having been established on the path (out-of-range slice, a panic inside printing): ["+cfg+"]")
				b, known := base(p)
				want := append(append(symBytes{}, b...), "B[K:I]", "ESC")
				okRes := eqBytes(p.next["RES"], want)
				if !okRes && !known {
					// no copied flag on the path: a fresh output is acceptable only with the flag
					okRes = false
				}
				r.Check(okRes, construct+" / output", p.where, fmt.Sprintf("on a match the output becomes %v, want %v (the text before the marker, then the escape mark — on top of what was produced so far)", p.next["RES"], want))
				r.Check(p.next["K"] == interface{}(end), construct+" / copied-up-to index", p.where, fmt.Sprintf("after a match K becomes %v, want I+%d", p.next["K"], L))
				r.Check(p.next["I"] == interface{}(end), construct+" / scan index", p.where, fmt.Sprintf("after a match the next iteration starts at %v, want I+%d", p.next["I"], L))
				if cp, has := p.next["COPIED"]; has {
					r.Check(cp == interface{}(symBool("true")) || (cp == interface{}(symBool("COPIED")) && hasCond(p, "COPIED", true)), construct+" / copied flag", p.where, fmt.Sprintf("after a match the copied flag is %v, want true", cp))
				}
			default:
				construct := "escape.InternalEscapeBytes / plain step"
				okSame := eqBytes(p.next["RES"], symBytes{"RES"}) && p.next["K"] == interface{}(symInt{base: "K"}) && p.next["I"] == interface{}(symInt{"I", 1})
				if cp, has := p.next["COPIED"]; has {
					okSame = okSame && cp == interface{}(symBool("COPIED"))
				}
				r.Check(okSame, construct+" / nothing changes", p.where, fmt.Sprintf("an iteration that found nothing leaves I'=%v K'=%v RES'=%v (want I+1, K, RES): bytes are skipped unexamined or output is produced for nothing: [%s]", p.next["I"], p.next["K"], p.next["RES"], cfg))
				for _, m := range []string{"START", "END"} {
					L := int64(res.markers[m])
					ruled := false
					for _, c := range p.conds {
						if c.equalM == m && !c.pol && c.lo == I && c.hi == (symInt{"I", L}) {
							ruled = true
						}
					}
					// no room: !(I+L <= LEN)
					if !ruled {
						for _, c := range p.conds {
							if c.cmpOp == "<=" && !c.pol && c.a.base == "I" && c.b.base == "LEN" && c.a.off-c.b.off <= L {
								ruled = true
							}
							if c.cmpOp == "<" && c.pol && c.a.base == "LEN" && c.b.base == "I" && c.b.off-c.a.off <= L {
								ruled = true
							}
						}
					}
					r.Check(ruled, construct+" / "+m+" ruled out", p.where, "a path moves on to the next byte without having established that the "+m+" marker does not start here: ["+cfg+"]")
				}
			}
		case "exit":
			nExit++
			construct := "escape.InternalEscapeBytes / finish"
			dangling := false
			for _, c := range p.conds {
				if c.pol && strings.Contains(c.text, "lastRune(B)==65533") {
					dangling = true
				}
			}
			size1 := false
			for _, c := range p.conds {
				if c.pol && strings.Contains(c.text, "lastSize(B)==1") {
					size1 = true
				}
			}
			b, known := base(p)
			var wants []symBytes
			if dangling && size1 {
				wants = append(wants, append(append(symBytes{}, b...), "B[K:LEN]", "ESC"), append(append(symBytes{}, b...), "B[K:LEN]", "ESC", "B[LEN:LEN]"))
			} else {
				if hasCond(p, "COPIED", true) {
					wants = append(wants, symBytes{"RES", "B[K:LEN]"})
				} else {
					// nothing copied: the output still is the input itself
					if res.nilFlag {
						wants = append(wants, symBytes{"B"}) // the output variable is still nil: the input must be returned
					} else {
						wants = append(wants, symBytes{"RES"}, symBytes{"B"})
					}
				}
			}
			okRet := false
			for _, w := range wants {
				if eqBytes(p.ret, w) {
					okRet = true
				}
			}
			_ = known
			r.Check(okRet, construct, p.where, fmt.Sprintf("the escaper returns %v on the path [%s], want %v", p.ret, cfg, wants[0]))
		}
	}
	if nBack < 3 || nExit < 2 {
		r.Undecide(fmt.Sprintf("only %d iteration paths and %d finishing paths enumerated", nBack, nExit))
	}
	r.Analysed = fmt.Sprintf("%d paths (%d through one iteration, %d from the loop to the return)", len(res.paths), nBack, nExit)
	return []*report.Result{r}
}
