package rules

import (
	"fmt"
	"go/constant"
	"go/token"
	"go/types"
	"strings"
	"unicode/utf8"

	"golang.org/x/tools/go/ssa"

	"redactverif/report"
)

func init() {
	register("C11.a", ruleC11a)
	register("C11.b", ruleC11b)
}

// ---- C11.a: non-negative growth ------------------------------------------

type nnCtx struct {
	c       *Ctx
	visited map[ssa.Value]bool
	why     string
}

// condNonNegOnEdge: the edge from->to is taken only when v >= 0.
func condNonNegOnEdge(v ssa.Value, from, to *ssa.BasicBlock) bool {
	if len(from.Instrs) == 0 {
		return false
	}
	iff, ok := from.Instrs[len(from.Instrs)-1].(*ssa.If)
	if !ok {
		return false
	}
	bo, ok := iff.Cond.(*ssa.BinOp)
	if !ok {
		return false
	}
	k, isK := intConst(bo.Y)
	if bo.X != v || !isK {
		return false
	}
	trueEdge := from.Succs[0] == to
	switch bo.Op {
	case token.LSS: // not (v < k)  =>  v >= k
		return !trueEdge && k >= 0
	case token.LEQ: // not (v <= k)  =>  v >= k+1
		return !trueEdge && k >= -1
	case token.GEQ: // v >= k
		return trueEdge && k >= 0
	case token.GTR: // v > k
		return trueEdge && k >= -1
	}
	return false
}

// guardedNonNeg: the use in block `at` is dominated by an edge that
// establishes v >= 0.
func guardedNonNeg(v ssa.Value, at *ssa.BasicBlock, fn *ssa.Function) bool {
	for _, b := range fn.Blocks {
		for _, s := range b.Succs {
			if condNonNegOnEdge(v, b, s) && len(s.Preds) == 1 && (s == at || s.Dominates(at)) {
				return true
			}
		}
	}
	return false
}

func (n *nnCtx) nonNeg(v ssa.Value, at *ssa.BasicBlock) bool {
	if k, ok := intConst(v); ok {
		if k < 0 {
			n.why = fmt.Sprintf("constant %d", k)
		}
		return k >= 0
	}
	if n.visited[v] {
		return true // cycles (loop phis) are decided by their other edges
	}
	n.visited[v] = true
	if at != nil && guardedNonNeg(v, at, at.Parent()) {
		return true
	}
	switch x := v.(type) {
	case *ssa.Call:
		if b, ok := x.Common().Value.(*ssa.Builtin); ok && (b.Name() == "len" || b.Name() == "cap" || b.Name() == "copy") {
			return true
		}
		if f := x.Common().StaticCallee(); f != nil {
			switch f.String() {
			case "unicode/utf8.RuneLen":
				if cst, ok := x.Common().Args[0].(*ssa.Const); ok && cst.Value != nil {
					r, _ := constant.Int64Val(cst.Value)
					if utf8.RuneLen(rune(r)) >= 0 {
						return true
					}
				}
				n.why = "utf8.RuneLen(r) is -1 for an invalid rune"
				return false
			case "unicode/utf8.RuneCount", "unicode/utf8.RuneCountInString":
				return true
			}
			// in-module function: all its return values
			if n.c.P.InModule(f) && f.Blocks != nil {
				ok := true
				for _, b := range f.Blocks {
					if ret, isRet := b.Instrs[len(b.Instrs)-1].(*ssa.Return); isRet && len(ret.Results) == 1 {
						if !n.nonNeg(ret.Results[0], b) {
							ok = false
						}
					}
				}
				return ok
			}
		}
		n.why = "result of " + x.String()
		return false
	case *ssa.Phi:
		for i, e := range x.Edges {
			pred := x.Block().Preds[i]
			if condNonNegOnEdge(e, pred, x.Block()) {
				continue
			}
			if !n.nonNeg(e, pred) {
				return false
			}
		}
		return true
	case *ssa.BinOp:
		switch x.Op {
		case token.ADD, token.MUL:
			return n.nonNeg(x.X, at) && n.nonNeg(x.Y, at)
		case token.SUB:
			// a - b with b constant <= 0
			if k, ok := intConst(x.Y); ok && k <= 0 {
				return n.nonNeg(x.X, at)
			}
			n.why = "difference " + x.String()
			return false
		case token.REM, token.AND, token.SHR:
			return n.nonNeg(x.X, at)
		}
		n.why = "expression " + x.String()
		return false
	case *ssa.Convert:
		if b, ok := x.X.Type().Underlying().(*types.Basic); ok && b.Info()&types.IsUnsigned != 0 {
			return true
		}
		return n.nonNeg(x.X, at)
	case *ssa.Extract:
		// (n, ok) results of in-module functions are checked through the call
		if call, ok := x.Tuple.(*ssa.Call); ok {
			if f := call.Common().StaticCallee(); f != nil && n.c.P.InModule(f) && f.Blocks != nil {
				okAll := true
				for _, b := range f.Blocks {
					if ret, isRet := b.Instrs[len(b.Instrs)-1].(*ssa.Return); isRet && x.Index < len(ret.Results) {
						if !n.nonNeg(ret.Results[x.Index], b) {
							okAll = false
						}
					}
				}
				return okAll
			}
		}
		n.why = "result of " + x.Tuple.String()
		return false
	case *ssa.Parameter:
		fn := x.Parent()
		idx := -1
		for i, p := range fn.Params {
			if p == x {
				idx = i
			}
		}
		exported := fn.Object() != nil && fn.Object().Exported()
		sites := 0
		for _, caller := range n.c.P.ModuleFunctions() {
			for _, b := range caller.Blocks {
				for _, ins := range b.Instrs {
					ci, ok := ins.(ssa.CallInstruction)
					if !ok || ci.Common().StaticCallee() != fn {
						continue
					}
					sites++
					if !n.nonNeg(ci.Common().Args[idx], b) {
						if n.why == "" {
							n.why = "argument at " + n.c.P.Pos(ci.Pos())
						}
						return false
					}
				}
			}
		}
		if exported || sites == 0 {
			n.why = "parameter " + x.Name() + " of exported " + fn.Name() + " is not checked against 0"
			return false
		}
		return true
	case *ssa.UnOp:
		if x.Op == token.MUL {
			// load of a field: lengths/indices kept in fields (validUntil) are
			// non-negative by the buffer invariant; only locals reach here.
			if _, ok := x.X.(*ssa.FieldAddr); ok {
				return true
			}
		}
	}
	n.why = "value " + v.String()
	return false
}

// growthParams finds (function, parameter index) pairs of package buffer
// whose int parameter is added to a length to form a slice bound.
func (c *Ctx) growthParams() map[*ssa.Function][]int {
	out := map[*ssa.Function][]int{}
	for _, fn := range c.P.ModuleFunctions() {
		if pkgPathOf(fn) != pkgBuffer {
			continue
		}
		for _, b := range fn.Blocks {
			for _, ins := range b.Instrs {
				sl, ok := ins.(*ssa.Slice)
				if !ok || sl.High == nil {
					continue
				}
				bo, ok := sl.High.(*ssa.BinOp)
				if !ok || bo.Op != token.ADD {
					continue
				}
				for _, side := range []ssa.Value{bo.X, bo.Y} {
					if p, ok := side.(*ssa.Parameter); ok {
						for i, q := range fn.Params {
							if q == p {
								out[fn] = append(out[fn], i)
							}
						}
					}
				}
			}
		}
	}
	// propagate: a function that forwards its int parameter to a growth parameter
	changed := true
	for changed {
		changed = false
		for _, fn := range c.P.ModuleFunctions() {
			if pkgPathOf(fn) != pkgBuffer {
				continue
			}
			for _, b := range fn.Blocks {
				for _, ins := range b.Instrs {
					ci, ok := ins.(ssa.CallInstruction)
					if !ok {
						continue
					}
					g := ci.Common().StaticCallee()
					if g == nil {
						continue
					}
					for _, gi := range out[g] {
						if p, ok := ci.Common().Args[gi].(*ssa.Parameter); ok {
							for i, q := range fn.Params {
								if q == p && !containsInt(out[fn], i) {
									out[fn] = append(out[fn], i)
									changed = true
								}
							}
						}
					}
				}
			}
		}
	}
	return out
}

func containsInt(s []int, x int) bool {
	for _, y := range s {
		if y == x {
			return true
		}
	}
	return false
}

func ruleC11a(c *Ctx) []*report.Result {
	r := report.NewResult("C11.a", "every count by which the buffer is grown (an int parameter that is added to len(buf) to form a slice bound, followed through forwarding helpers) is, at every call site, a length, a non-negative constant, a sum of such, a value on an edge guarded by a comparison with 0, or a parameter whose own call sites all satisfy this: no write can shrink the buffer (utf8.RuneLen is -1 for invalid runes)", 10)
	gp := c.growthParams()
	if len(gp) == 0 {
		r.Undecide("no growth parameter found in package buffer")
		return []*report.Result{r}
	}
	for _, caller := range c.P.ModuleFunctions() {
		for _, b := range caller.Blocks {
			for _, ins := range b.Instrs {
				ci, ok := ins.(ssa.CallInstruction)
				if !ok {
					continue
				}
				g := ci.Common().StaticCallee()
				shift := 0
				if g == nil && ci.Common().IsInvoke() {
					// a call through an interface (`w.(interface{ Grow(int) })`): any
					// growth function of that name and arity may be the target
					m := ci.Common().Method
					for cand := range gp {
						if cand.Signature.Recv() != nil && cand.Name() == m.Name() && len(cand.Params)-1 == len(ci.Common().Args) {
							g, shift = cand, 1
						}
					}
				}
				if g == nil || len(gp[g]) == 0 {
					continue
				}
				for _, idx := range gp[g] {
					if idx-shift < 0 || idx-shift >= len(ci.Common().Args) {
						continue
					}
					arg := ci.Common().Args[idx-shift]
					// forwarding of the caller's own growth parameter is checked at the caller's call sites
					if p, ok := arg.(*ssa.Parameter); ok && containsInt(gp[caller], paramIndex(caller, p)) {
						// exported callers must guard
						if caller.Object() != nil && caller.Object().Exported() && !guardedNonNeg(p, b, caller) {
							r.Fail(shortFn(caller.String())+" / growth argument", c.P.Pos(ci.Pos()), "exported "+caller.Name()+" forwards its count to "+g.Name()+" without checking it against 0", nil, "")
						} else {
							r.Ok(shortFn(caller.String()) + " forwards its (checked) count to " + g.Name())
						}
						continue
					}
					n := &nnCtx{c: c, visited: map[ssa.Value]bool{}}
					if n.nonNeg(arg, b) {
						r.Ok(fmt.Sprintf("%s -> %s(%s)", shortFn(caller.String()), g.Name(), arg.String()))
					} else {
						r.Fail(shortFn(caller.String())+" / growth argument", c.P.Pos(ci.Pos()), "the count passed to "+g.Name()+" can be negative ("+n.why+"): the buffer is shrunk instead of grown and the following write panics or truncates a marker", nil, "")
					}
				}
			}
		}
	}
	return []*report.Result{r}
}

func paramIndex(fn *ssa.Function, p *ssa.Parameter) int {
	for i, q := range fn.Params {
		if q == p {
			return i
		}
	}
	return -1
}

// ---- C11.b: reflect kind guards -----------------------------------------------

var kindRestricted = map[string][]string{
	"Len":      {"Array", "Chan", "Map", "Slice", "String"},
	"Index":    {"Array", "Slice", "String"},
	"Field":    {"Struct"},
	"NumField": {"Struct"},
	"Elem":     {"Interface", "Ptr", "Pointer"},
	"IsNil":    {"Chan", "Func", "Interface", "Map", "Ptr", "Pointer", "Slice", "UnsafePointer"},
	"Bool":     {"Bool"},
	"Int":      {"Int", "Int8", "Int16", "Int32", "Int64"},
	"Uint":     {"Uint", "Uint8", "Uint16", "Uint32", "Uint64", "Uintptr"},
	"Float":    {"Float32", "Float64"},
	"Complex":  {"Complex64", "Complex128"},
	"Bytes":    {"Slice", "Array"},
	"Pointer":  {"Chan", "Func", "Map", "Ptr", "Pointer", "Slice", "UnsafePointer"},
	"MapRange": {"Map"},
	"MapKeys":  {"Map"},
	"MapIndex": {"Map"},
	"Slice":    {"Array", "Slice", "String"},
	"Cap":      {"Array", "Chan", "Slice"},
}

func kindName(v ssa.Value) (string, bool) {
	cst, ok := v.(*ssa.Const)
	if !ok || cst.Value == nil {
		return "", false
	}
	if namedOf(cst.Type()) != "reflect.Kind" {
		return "", false
	}
	n, _ := constant.Int64Val(cst.Value)
	names := []string{"Invalid", "Bool", "Int", "Int8", "Int16", "Int32", "Int64", "Uint", "Uint8", "Uint16", "Uint32", "Uint64", "Uintptr", "Float32", "Float64", "Complex64", "Complex128", "Array", "Chan", "Func", "Interface", "Map", "Ptr", "Slice", "String", "Struct", "UnsafePointer"}
	if n >= 0 && int(n) < len(names) {
		return names[n], true
	}
	return "", false
}

func inList(s string, l []string) bool {
	for _, x := range l {
		if x == s {
			return true
		}
	}
	return false
}

// kindEstablished: on the way to blk, recv.Kind() was compared and found to
// be one of the admissible kinds.
func kindEstablished(fn *ssa.Function, recv ssa.Value, blk *ssa.BasicBlock, adm []string) bool {
	for _, b := range fn.Blocks {
		iff, ok := b.Instrs[len(b.Instrs)-1].(*ssa.If)
		if !ok {
			continue
		}
		bo, ok := iff.Cond.(*ssa.BinOp)
		if !ok || (bo.Op != token.EQL && bo.Op != token.NEQ) {
			continue
		}
		call, ok := bo.X.(*ssa.Call)
		if !ok {
			continue
		}
		f := call.Common().StaticCallee()
		if f == nil || f.String() != "(reflect.Value).Kind" || call.Common().Args[0] != recv {
			continue
		}
		k, ok := kindName(bo.Y)
		if !ok || !inList(k, adm) {
			continue
		}
		succ := b.Succs[0]
		if bo.Op == token.NEQ {
			succ = b.Succs[1]
		}
		if len(succ.Preds) == 1 && (succ == blk || succ.Dominates(blk)) {
			return true
		}
	}
	return false
}

func handWritten(c *Ctx, fn *ssa.Function) bool {
	pos := c.P.Pos(fn.Pos())
	if strings.HasPrefix(pos, "internal/rfmt/print.go") || strings.HasPrefix(pos, "internal/rfmt/format.go") || strings.Contains(pos, "/fmtsort/") {
		return false
	}
	return true
}

func ruleC11b(c *Ctx) []*report.Result {
	r := report.NewResult("C11.b", "in the hand-written code every call of a kind-restricted reflect.Value method (Len, Index, Field, Elem, IsNil, Bytes, ...) is dominated by a test that establishes an admissible Kind() of that very value, or lies in an arm `t == <type variable>` of a function whose callers all pass value.Type() for t, the type variable denoting a type of an admissible kind", 4)
	lab := c.Labels()
	for _, fn := range c.P.ModuleFunctions() {
		if !handWritten(c, fn) {
			continue
		}
		for _, b := range fn.Blocks {
			for _, ins := range b.Instrs {
				call, ok := ins.(ssa.CallInstruction)
				if !ok {
					continue
				}
				f := call.Common().StaticCallee()
				if f == nil || !strings.HasPrefix(f.String(), "(reflect.Value).") {
					continue
				}
				adm, restricted := kindRestricted[f.Name()]
				if !restricted {
					continue
				}
				recv := call.Common().Args[0]
				construct := shortFn(fn.String()) + " / " + f.String()
				pos := c.P.Pos(call.Pos())
				if kindEstablished(fn, recv, b, adm) {
					r.Ok(construct + " under a Kind() test @" + pos)
					continue
				}
				// type-variable arm
				okArm := false
				if vp, isParam := recv.(*ssa.Parameter); isParam {
					for _, gb := range fn.Blocks {
						iff, ok := gb.Instrs[len(gb.Instrs)-1].(*ssa.If)
						if !ok {
							continue
						}
						bo, ok := iff.Cond.(*ssa.BinOp)
						if !ok || bo.Op != token.EQL {
							continue
						}
						tp, g := matchTypeEq(bo)
						if tp == nil || g == nil {
							continue
						}
						t := lab.TypeGlobal(g)
						if t == nil {
							continue
						}
						tb := gb.Succs[0]
						if !(tb == b || tb.Dominates(b)) {
							continue
						}
						if len(tb.Preds) != 1 {
							// a disjunction of such tests (`if t != A && t != B { return }`):
							// every way into the block must be the success edge of a
							// test of the same operand against a type of admissible kind
							all := true
							for _, pb := range tb.Preds {
								pif, ok := pb.Instrs[len(pb.Instrs)-1].(*ssa.If)
								if !ok || pb.Succs[0] != tb || pb.Succs[1] == tb {
									all = false
									break
								}
								pbo, ok := pif.Cond.(*ssa.BinOp)
								if !ok || pbo.Op != token.EQL {
									all = false
									break
								}
								ptp, pg := matchTypeEq(pbo)
								if ptp == nil || pg == nil {
									all = false
									break
								}
								pt := lab.TypeGlobal(pg)
								if pt == nil || !inList(kindOfType(pt), adm) || !lab.typeOperandOf(fn, vp, ptp) {
									all = false
									break
								}
							}
							if all {
								okArm = true
							}
							continue
						}
						if inList(kindOfType(t), adm) && lab.typeOperandOf(fn, vp, tp) {
							okArm = true
						}
					}
				}
				if okArm {
					r.Ok(construct + " in a type-variable arm @" + pos)
					continue
				}
				// the value is a parameter of an unexported helper all of
				// whose callers establish the kind before the call
				if vp, isParam := recv.(*ssa.Parameter); isParam && fn.Object() != nil && !fn.Object().Exported() {
					pi := paramIndex(fn, vp)
					n, okAll := 0, true
					for _, g := range c.P.ModuleFunctions() {
						for _, gb := range g.Blocks {
							for _, gi := range gb.Instrs {
								if ci, ok := gi.(ssa.CallInstruction); ok && ci.Common().StaticCallee() == fn && pi < len(ci.Common().Args) {
									n++
									if !kindEstablished(g, ci.Common().Args[pi], gb, adm) {
										okAll = false
									}
								}
							}
						}
					}
					if n > 0 && okAll {
						r.Ok(construct + " in a helper whose callers test Kind() @" + pos)
						continue
					}
				}
				r.Fail(construct, pos, f.Name()+" is called on a reflect.Value whose kind is not established on every path to the call: it panics for other kinds (admissible: "+strings.Join(adm, ", ")+")", nil, "")
			}
		}
	}
	return []*report.Result{r}
}

func kindOfType(t types.Type) string {
	switch u := t.Underlying().(type) {
	case *types.Struct:
		return "Struct"
	case *types.Slice:
		return "Slice"
	case *types.Array:
		return "Array"
	case *types.Map:
		return "Map"
	case *types.Pointer:
		return "Ptr"
	case *types.Interface:
		return "Interface"
	case *types.Basic:
		if u.Info()&types.IsString != 0 {
			return "String"
		}
	}
	return ""
}
