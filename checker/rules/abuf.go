package rules

import (
	"fmt"
	"go/constant"
	"go/token"
	"go/types"
	"strings"

	"golang.org/x/tools/go/ssa"

	"redactverif/engine"
)

// ABuf is run A-buf of Engine A: every method of buffer.Buffer is analysed
// from every entry configuration satisfying the inductive invariant.
//
// Tracked: mode, markerOpen. Ghosts (never present in the real struct):
//
//	#pending  none|esc|raw   bytes after validUntil: none / need escaping / raw
//	#len0     T|U            buffer known empty / unknown
//	#mk       ""|start|end|elide  a marker was appended (or elided) and
//	                         markerOpen has not been updated yet
//	#vu       ok|stale       validUntil must be re-established
//	#dirty    F|T            some field or byte of this object was written
type ABuf struct {
	It      *engine.Interp
	Roots   []bufRoot
	Markers struct{ Start, End string }
}

type bufRoot struct {
	Fn    *ssa.Function
	Entry bufState
	Sum   *engine.Summary
	Value bool // value receiver
	Args  []engine.AbsVal
}

type bufState struct {
	Mode    int64
	Open    bool
	Pending string
	Len0    string
}

func (s bufState) String() string {
	return fmt.Sprintf("mode=%s markerOpen=%v pending=%s len0=%s", modeNames[s.Mode], s.Open, s.Pending, s.Len0)
}

// bufInvariant is the inductive hypothesis on Buffer states:
//
//	I1 markerOpen => mode=Unsafe
//	I6 mode=Unsafe & !markerOpen => pending=none
//	I9 pending=raw <=> only in SafeRaw; pending=esc only outside SafeRaw
//	A-empty: markerOpen => buffer non-empty; empty => pending=none
func bufInvariant(s bufState) bool {
	if s.Open && s.Mode != 0 {
		return false
	}
	if s.Mode == 0 && !s.Open && s.Pending != "none" {
		return false
	}
	if s.Pending == "raw" && s.Mode != 2 {
		return false
	}
	if s.Pending == "esc" && s.Mode == 2 {
		return false
	}
	if s.Len0 == "T" && (s.Open || s.Pending != "none") {
		return false
	}
	return true
}

func allBufStates() []bufState {
	var out []bufState
	for _, m := range []int64{0, 1, 2} {
		for _, o := range []bool{false, true} {
			for _, p := range []string{"none", "esc", "raw"} {
				for _, l := range []string{"U", "T"} {
					s := bufState{m, o, p, l}
					if bufInvariant(s) {
						out = append(out, s)
					}
				}
			}
		}
	}
	return out
}

func bufGhosts() map[string]engine.AbsVal {
	return map[string]engine.AbsVal{
		"#pending": str("none"), "#len0": str("T"), "#mk": str(""), "#vu": str("ok"), "#dirty": str("F"), "#ctx": str("none"), "#dropped": str("F"), "#fin": str("F"),
	}
}

func bufFields(s bufState) map[string]engine.AbsVal {
	return map[string]engine.AbsVal{
		"mode": num(s.Mode), "markerOpen": boolv(s.Open),
		"#pending": str(s.Pending), "#len0": str(s.Len0), "#mk": str(""), "#vu": str("ok"), "#dirty": str("F"), "#ctx": str("none"), "#dropped": str("F"), "#fin": str("F"),
	}
}

// readBuf extracts the buffer configuration stored under prefix in obj.
func readBuf(h engine.Heap, obj, prefix string) (s bufState, mk, vu, dirty string, ok bool) {
	p := func(f string) string {
		if prefix == "" {
			return f
		}
		return prefix + "." + f
	}
	m, ok1 := constInt(h.Get(obj, p("mode")))
	o, ok2 := constBool(h.Get(obj, p("markerOpen")))
	pe, ok3 := constStr(h.Get(obj, p("#pending")))
	l0, ok4 := constStr(h.Get(obj, p("#len0")))
	mk, _ = constStr(h.Get(obj, p("#mk")))
	vu, _ = constStr(h.Get(obj, p("#vu")))
	dirty, _ = constStr(h.Get(obj, p("#dirty")))
	return bufState{m, o, pe, l0}, mk, vu, dirty, ok1 && ok2 && ok3 && ok4
}

func bufPrefixOfSlice(path string) string {
	if path == "buf" {
		return ""
	}
	return strings.TrimSuffix(path, ".buf")
}

type bufHooks struct {
	engine.BaseHooks
	start, end string
	pure       map[string]bool
	finalizeFn *ssa.Function // the function every accessor runs on its copy before handing bytes out
	neutral    map[string]bool
}

// finalizeNeutral decides, from the finalizing function's own code, whether
// running it in configuration (mode, markerOpen) can change the content: its
// control flow is followed with the two fields held at the given values
// (branches on anything else are followed both ways); a call other than a
// pure test, or a store to anything but the validation index, on a reachable
// block means "may change". An accessor that skips finalize in a
// configuration where finalize is the identity on the content hands out the
// same bytes.
func (h *bufHooks) finalizeNeutral(mode int64, open bool) bool {
	fn := h.finalizeFn
	if fn == nil || len(fn.Blocks) == 0 || len(fn.Params) == 0 {
		return false
	}
	key := fmt.Sprintf("%d/%v", mode, open)
	if v, ok := h.neutral[key]; ok {
		return v
	}
	if h.neutral == nil {
		h.neutral = map[string]bool{}
	}
	recv := fn.Params[0]
	fieldOf := func(v ssa.Value) string {
		u, ok := v.(*ssa.UnOp)
		if !ok || u.Op != token.MUL {
			return ""
		}
		fa, ok := u.X.(*ssa.FieldAddr)
		if !ok || fa.X != ssa.Value(recv) {
			return ""
		}
		return fieldName(fa)
	}
	// eval returns 1 true, 0 false, -1 unknown
	var eval func(v ssa.Value) int
	eval = func(v ssa.Value) int {
		switch x := v.(type) {
		case *ssa.UnOp:
			if x.Op == token.NOT {
				if r := eval(x.X); r >= 0 {
					return 1 - r
				}
				return -1
			}
			if fieldOf(x) == "markerOpen" {
				if open {
					return 1
				}
				return 0
			}
		case *ssa.BinOp:
			if x.Op != token.EQL && x.Op != token.NEQ {
				return -1
			}
			var k int64
			var okk bool
			if fieldOf(x.X) == "mode" {
				k, okk = intConst(x.Y)
			} else if fieldOf(x.Y) == "mode" {
				k, okk = intConst(x.X)
			}
			if !okk {
				return -1
			}
			eq := k == mode
			if (x.Op == token.EQL) == eq {
				return 1
			}
			return 0
		}
		return -1
	}
	seen := map[*ssa.BasicBlock]bool{}
	okAll := true
	var walk func(b *ssa.BasicBlock)
	walk = func(b *ssa.BasicBlock) {
		if seen[b] || !okAll {
			return
		}
		seen[b] = true
		for _, ins := range b.Instrs {
			switch x := ins.(type) {
			case *ssa.Store:
				fa, ok := x.Addr.(*ssa.FieldAddr)
				if !ok || fa.X != ssa.Value(recv) || fieldName(fa) != "validUntil" {
					okAll = false
				}
			case ssa.CallInstruction:
				if bi, isB := x.Common().Value.(*ssa.Builtin); isB && (bi.Name() == "len" || bi.Name() == "cap") {
					continue
				}
				if f := x.Common().StaticCallee(); f != nil && h.pure[f.String()] {
					continue
				}
				okAll = false
			case *ssa.MapUpdate, *ssa.Send, *ssa.Panic:
				okAll = false
			case *ssa.If:
				switch eval(x.Cond) {
				case 1:
					walk(b.Succs[0])
				case 0:
					walk(b.Succs[1])
				default:
					walk(b.Succs[0])
					walk(b.Succs[1])
				}
				return
			}
		}
		for _, sb := range b.Succs {
			walk(sb)
		}
	}
	walk(fn.Blocks[0])
	h.neutral[key] = okAll
	return okAll
}

func (h *bufHooks) set(c *engine.Ctx, obj, prefix, ghost, val string) {
	o := c.Heap[obj]
	if o == nil {
		return
	}
	p := ghost
	if prefix != "" {
		p = prefix + "." + ghost
	}
	o.Fields[p] = str(val)
}

// unfinal: bytes were added or the mode changed — the object is no longer
// "just finalized" (resetting fields to zero, as Take/Reset do, is not that).
func (h *bufHooks) unfinal(c *engine.Ctx, obj, prefix string) {
	h.set(c, obj, prefix, "#fin", "F")
}

// AfterCall: the finalizing function has run to completion on its receiver.
func (h *bufHooks) AfterCall(c *engine.Ctx, instr ssa.Instruction, callee *ssa.Function, args []engine.AbsVal, before, after engine.Heap, exc bool) {
	if exc || h.finalizeFn == nil || callee != h.finalizeFn || len(args) == 0 {
		return
	}
	if p, ok := args[0].(engine.Ptr); ok {
		if o := after[p.Obj]; o != nil {
			fp := "#fin"
			if p.Path != "" {
				fp = p.Path + ".#fin"
			}
			o.Fields[fp] = str("T")
		}
	}
}

func (h *bufHooks) verdict(c *engine.Ctx, instr ssa.Instruction, rule string, ok bool, what string, cfg string) {
	d := map[string]string{"ok": fmt.Sprint(ok), "what": what, "cfg": cfg}
	c.It.Record(engine.Event{Kind: rule, Instr: instr, Fn: c.Fn, Detail: d})
}

// isBufObj reports whether obj/prefix denotes a buffer.Buffer.
func (h *bufHooks) bufAt(c *engine.Ctx, obj, prefix string) bool {
	_, _, _, _, ok := readBuf(c.Heap, obj, prefix)
	return ok
}

func (h *bufHooks) dataWrite(c *engine.Ctx, instr ssa.Instruction, so engine.SliceOf, what string) {
	prefix := bufPrefixOfSlice(so.Path)
	s, mk, _, _, ok := readBuf(c.Heap, so.Obj, prefix)
	if !ok {
		return
	}
	h.verdict(c, instr, "I3", !(s.Mode == 0 && !s.Open) && mk == "", what+": data bytes appended; requires mode=Unsafe => markerOpen (the write passed through startWrite) and no half-updated marker", s.String()+" mk="+mk)
	if s.Mode == 2 {
		h.set(c, so.Obj, prefix, "#pending", "raw")
	} else {
		h.set(c, so.Obj, prefix, "#pending", "esc")
	}
	h.set(c, so.Obj, prefix, "#len0", "U")
	h.set(c, so.Obj, prefix, "#dirty", "T")
	h.unfinal(c, so.Obj, prefix)
}

func (h *bufHooks) markerWrite(c *engine.Ctx, instr ssa.Instruction, so engine.SliceOf, which string) {
	prefix := bufPrefixOfSlice(so.Path)
	s, mk, _, _, ok := readBuf(c.Heap, so.Obj, prefix)
	if !ok {
		return
	}
	want := which == "end"
	h.verdict(c, instr, "I2", s.Open == want && s.Pending == "none" && mk == "" && s.Mode == 0,
		which+" marker appended; requires mode=Unsafe, markerOpen="+fmt.Sprint(want)+", no pending unescaped bytes", s.String()+" mk="+mk)
	h.set(c, so.Obj, prefix, "#mk", which)
	h.set(c, so.Obj, prefix, "#len0", "U")
	h.set(c, so.Obj, prefix, "#dirty", "T")
	h.unfinal(c, so.Obj, prefix)
}

func (h *bufHooks) OnBuiltin(c *engine.Ctx, instr ssa.Instruction, name string, args []engine.AbsVal) {
	if len(args) < 2 {
		return
	}
	so, ok := args[0].(engine.SliceOf)
	if !ok {
		return
	}
	if name == "copy" || name == "append" {
		if s, ok := constStr(args[1]); ok {
			switch s {
			case h.start:
				h.markerWrite(c, instr, so, "start")
				return
			case h.end:
				h.markerWrite(c, instr, so, "end")
				return
			}
		}
		h.dataWrite(c, instr, so, name)
	}
}

func (h *bufHooks) OnSliceStore(c *engine.Ctx, instr ssa.Instruction, so engine.SliceOf, val engine.AbsVal) {
	h.dataWrite(c, instr, so, "element store")
}

func (h *bufHooks) LenIsZero(c *engine.Ctx, so engine.SliceOf) (bool, bool) {
	s, _, _, _, ok := readBuf(c.Heap, so.Obj, bufPrefixOfSlice(so.Path))
	if !ok {
		return false, false
	}
	if s.Len0 == "T" {
		return true, true
	}
	if s.Open {
		return false, true // assumption A-empty
	}
	return false, false
}

func (h *bufHooks) OnCall(c *engine.Ctx, instr ssa.Instruction, callee *ssa.Function, args []engine.AbsVal) (bool, engine.AbsVal) {
	name := callee.String()
	if name == escapeFnName {
		so, ok := args[0].(engine.SliceOf)
		if ok {
			prefix := bufPrefixOfSlice(so.Path)
			s, mk, vuNow, _, okb := readBuf(c.Heap, so.Obj, prefix)
			if okb {
				// a zeroed index on a buffer that was not emptied makes the scan
				// re-escape what is already valid
				h.verdict(c, instr, "I4", vuNow != "zero?", "validUntil := 0 requires an empty buffer (otherwise library-placed markers would be escaped again)", s.String())
				// C03.a: breakNewLines == (mode == Unsafe)
				brk, known := constBool(args[2])
				h.verdict(c, instr, "C03.a", known && brk == (s.Mode == 0),
					fmt.Sprintf("escape requested with breakNewLines=%v; must equal (mode==UnsafeEscaped)", args[2].Key()), s.String())
				strip, knownS := constBool(args[3])
				h.verdict(c, instr, "C03.a-strip", knownS && !strip, "escape must not strip trailing bytes of buffer content", s.String())
				// the start offset must be this buffer's validUntil
				okVU := false
				if ci, isCall := instr.(ssa.CallInstruction); isCall && len(ci.Common().Args) >= 2 {
					if u, isU := ci.Common().Args[1].(*ssa.UnOp); isU && u.Op == token.MUL {
						if fa, isFA := u.X.(*ssa.FieldAddr); isFA && fieldName(fa) == "validUntil" {
							okVU = true
						}
					}
				}
				h.verdict(c, instr, "I4-start", okVU && mk == "" && s.Mode != 2, "escape scans from validUntil of the same buffer, outside raw mode", s.String()+" mk="+mk)
				h.set(c, so.Obj, prefix, "#vu", "stale")
			}
		}
		return true, engine.Top{}
	}
	// an empty buffer neither ends nor begins with a marker
	if (name == "bytes.HasSuffix" || name == "bytes.HasPrefix") && len(args) == 2 {
		if so, ok := args[0].(engine.SliceOf); ok {
			if l0, _ := constStr(c.Heap.Get(so.Obj, joinPath(bufPrefixOfSlice(so.Path), "#len0"))); l0 == "T" {
				if ci, isCall := instr.(ssa.CallInstruction); isCall && nonEmptyConstBytes(ci.Common().Args[1]) {
					return true, boolv(false)
				}
			}
		}
	}
	// external callee that receives the tracked slice
	if !strings.HasPrefix(pkgPathOf(callee), "github.com/cockroachdb/redact") {
		for _, a := range args {
			if so, ok := a.(engine.SliceOf); ok && !h.pure[name] {
				h.dataWrite(c, instr, so, "call of "+name)
			}
		}
	}
	return false, nil
}

func pkgPathOf(fn *ssa.Function) string {
	if fn.Pkg != nil {
		return fn.Pkg.Pkg.Path()
	}
	if o := fn.Object(); o != nil && o.Pkg() != nil {
		return o.Pkg().Path()
	}
	return ""
}

func fieldName(fa *ssa.FieldAddr) string {
	st := fa.X.Type().Underlying().(*types.Pointer).Elem().Underlying().(*types.Struct)
	return engine.FieldName(st.Field(fa.Field))
}

func (h *bufHooks) OnStore(c *engine.Ctx, instr ssa.Instruction, addr engine.Ptr, val engine.AbsVal) engine.AbsVal {
	h.onStore(c, instr, addr, val)
	return nil
}

func (h *bufHooks) onStore(c *engine.Ctx, instr ssa.Instruction, addr engine.Ptr, val engine.AbsVal) {
	// which leaf of which buffer?
	leaf := addr.Path
	prefix := ""
	if i := strings.LastIndex(addr.Path, "."); i >= 0 {
		leaf = addr.Path[i+1:]
		prefix = addr.Path[:i]
	}
	s, mk, vu, _, ok := readBuf(c.Heap, addr.Obj, prefix)
	if !ok {
		return
	}
	st, _ := instr.(*ssa.Store)
	cfg := s.String() + " mk=" + mk + " vu=" + vu
	switch leaf {
	case "buf":
		h.set(c, addr.Obj, prefix, "#dirty", "T")
		if _, isNil := val.(engine.NilV); !isNil {
			h.unfinal(c, addr.Obj, prefix)
		}
		switch v := val.(type) {
		case engine.NilV:
			h.set(c, addr.Obj, prefix, "#dropped", "T")
			h.set(c, addr.Obj, prefix, "#len0", "T")
			h.set(c, addr.Obj, prefix, "#pending", "none")
			if vz, _ := constStr(c.Heap.Get(addr.Obj, joinPath(prefix, "#vz"))); vu == "zero?" || (vz == "T" && vu == "ok") {
				h.set(c, addr.Obj, prefix, "#vu", "ok") // the index was zeroed just before: settled
			} else {
				h.set(c, addr.Obj, prefix, "#vu", "stale")
			}
			h.verdict(c, instr, "I5", !s.Open && mk == "", "buffer content dropped; requires no open envelope", cfg)
		case engine.SliceOf:
			_ = v
			if sl, isSl := st.Val.(*ssa.Slice); isSl {
				if sl.High != nil {
					if cst, isC := sl.High.(*ssa.Const); isC && cst.Value != nil && constant.Sign(cst.Value) == 0 {
						h.set(c, addr.Obj, prefix, "#len0", "T")
						h.set(c, addr.Obj, prefix, "#pending", "none")
						if vz, _ := constStr(c.Heap.Get(addr.Obj, joinPath(prefix, "#vz"))); vu == "zero?" || (vz == "T" && vu == "ok") {
							h.set(c, addr.Obj, prefix, "#vu", "ok")
						} else {
							h.set(c, addr.Obj, prefix, "#vu", "stale")
						}
						h.set(c, addr.Obj, prefix, "#mk", "reset") // Reset must re-establish markerOpen
						return
					}
					if bo, isB := sl.High.(*ssa.BinOp); isB && bo.Op == token.SUB {
						// truncation: a trailing marker is elided
						h.verdict(c, instr, "I2-elide", mk == "" && s.Pending == "none", "trailing marker elided; requires no pending unescaped bytes", cfg)
						h.set(c, addr.Obj, prefix, "#mk", "elide")
						// the buffer got shorter: validUntil points past the end
						// until it is re-established
						h.set(c, addr.Obj, prefix, "#vu", "stale")
						return
					}
				}
				h.set(c, addr.Obj, prefix, "#len0", "U")
			}
		default:
			// new backing array: from the escape routine or from grow
			if call, isCall := st.Val.(*ssa.Call); isCall {
				if f := call.Common().StaticCallee(); f != nil && f.String() == escapeFnName {
					h.set(c, addr.Obj, prefix, "#pending", "none")
					return
				}
			}
		}
	case "validUntil":
		h.set(c, addr.Obj, prefix, "#dirty", "T")
		if n, isC := constInt(val); !isC || n != 0 {
			h.set(c, addr.Obj, prefix, "#vz", "F")
		}
		switch v := val.(type) {
		case engine.LenOf:
			same := v.S.Obj == addr.Obj && bufPrefixOfSlice(v.S.Path) == prefix
			h.verdict(c, instr, "I4", same && (s.Pending == "none" || (s.Pending == "raw" && s.Mode == 2)),
				"validUntil := len(buf) declares every byte validated; requires no unescaped pending bytes (raw bytes only in raw mode)", cfg)
			h.set(c, addr.Obj, prefix, "#pending", "none")
			h.set(c, addr.Obj, prefix, "#vu", "ok")
		default:
			if n, isC := constInt(val); isC && n == 0 {
				h.set(c, addr.Obj, prefix, "#vz", "T") // the index is exactly 0
				if s.Len0 == "T" {
					h.verdict(c, instr, "I4", true, "validUntil := 0 requires an empty buffer (otherwise library-placed markers would be escaped again)", cfg)
					h.set(c, addr.Obj, prefix, "#vu", "ok")
				} else {
					// the buffer may be emptied by the very next statements (the order
					// of the resets in Reset/Take* is immaterial): owed until then; the
					// exit invariant and every reader of the index require it settled
					h.set(c, addr.Obj, prefix, "#vu", "zero?")
				}
			} else {
				h.verdict(c, instr, "I4", false, "validUntil assigned from an unrecognised value", cfg)
			}
		}
	case "markerOpen":
		h.set(c, addr.Obj, prefix, "#dirty", "T")
		b, known := constBool(val)
		okv := known
		switch mk {
		case "start":
			okv = okv && b
		case "end":
			okv = okv && !b
		case "elide", "reset":
		case "":
			okv = okv && b == s.Open
		}
		h.verdict(c, instr, "I2-flag", okv, "markerOpen updated; must follow the marker just appended/elided", cfg+" new="+val.Key())
		h.set(c, addr.Obj, prefix, "#mk", "")
	case "mode":
		h.set(c, addr.Obj, prefix, "#dirty", "T")
		n, known := constInt(val)
		if !known || n != 0 {
			h.unfinal(c, addr.Obj, prefix)
		}
		h.verdict(c, instr, "I8", known && s.Pending == "none" && (mk == "" || mk == "reset") && (n == 0 || !s.Open || mk == "reset") && vu == "ok",
			"mode changed; requires pending bytes flushed, envelope closed unless the new mode is Unsafe, validUntil re-established", cfg+" new="+modeName(val))
	}
}

func (h *bufHooks) OnEscape(c *engine.Ctx, instr ssa.Instruction, v engine.AbsVal, how string) {
	var so engine.SliceOf
	switch x := v.(type) {
	case engine.SliceOf:
		so = x
	case engine.LenOf:
		so = x.S
	case engine.Ptr:
		so = engine.SliceOf{Obj: x.Obj, Path: x.Path}
	}
	if how == "return" {
		// only what an exported method hands to its caller counts
		if c.Fn.Object() == nil || !c.Fn.Object().Exported() {
			return
		}
	}
	s, mk, vu, _, ok := readBuf(c.Heap, so.Obj, bufPrefixOfSlice(so.Path))
	if !ok {
		return
	}
	fin := "?"
	if o := c.Heap[so.Obj]; o != nil {
		fp := "#fin"
		if pre := bufPrefixOfSlice(so.Path); pre != "" {
			fp = pre + ".#fin"
		}
		fin, _ = constStr(o.Fields[fp])
	}
	okFin := h.finalizeFn == nil || fin == "T"
	finished := s.Pending == "none" && !s.Open && mk == "" && vu == "ok" && okFin
	// or finalize would not touch the content in this configuration
	asGood := !s.Open && mk == "" && s.Pending != "esc" && h.finalizeFn != nil && h.finalizeNeutral(s.Mode, s.Open)
	h.verdict(c, instr, "I7", finished || asGood,
		"buffer content handed out ("+how+"); requires finalize to have run on this object (a buffer with nothing pending may still end in a lone invalid byte that finalizing completes)", s.String()+" mk="+mk+" vu="+vu+" fin="+fin)
}

// RunABuf performs the A-buf run.
func (c *Ctx) ABuf() *ABuf {
	if c.abuf != nil {
		return c.abuf
	}
	a := &ABuf{}
	mp := c.P.Pkg("internal/markers").Types.Scope()
	a.Markers.Start = constant.StringVal(mp.Lookup("StartS").(*types.Const).Val())
	a.Markers.End = constant.StringVal(mp.Lookup("EndS").(*types.Const).Val())
	hooks := &bufHooks{start: a.Markers.Start, end: a.Markers.End, pure: map[string]bool{
		"bytes.HasSuffix": true, "bytes.HasPrefix": true, "bytes.Equal": true, "unicode/utf8.DecodeLastRune": true,
		"unicode/utf8.RuneCount": true, "unicode/utf8.Valid": true,
	}}
	cfg := engine.Config{
		Prog:     c.P.Prog,
		InModule: c.P.InModule,
		Track: map[engine.TrackSpec]bool{
			{Type: tBuffer, Field: "mode"}: true, {Type: tBuffer, Field: "markerOpen"}: true,
		},
		SliceIdent:  map[engine.TrackSpec]bool{{Type: tBuffer, Field: "buf"}: true},
		Ghosts:      map[string]map[string]engine.AbsVal{tBuffer: bufGhosts()},
		NoPanicPkgs: map[string]bool{pkgBuffer: true},
		Hooks:       hooks,
	}
	hooks.finalizeFn = c.finalizeFn()
	a.It = engine.New(cfg)
	sp := c.P.SSAPkg("internal/buffer")
	bt := sp.Type("Buffer").Type()
	var roots []engine.Root
	for _, recvT := range []types.Type{bt, types.NewPointer(bt)} {
		ms := c.P.Prog.MethodSets.MethodSet(recvT)
		for i := 0; i < ms.Len(); i++ {
			sel := ms.At(i)
			fn := c.P.Prog.MethodValue(sel)
			if fn == nil || fn.Synthetic != "" {
				continue
			}
			// only methods declared with exactly this receiver kind
			_, isPtr := fn.Signature.Recv().Type().(*types.Pointer)
			if isPtr != (recvT != bt) {
				continue
			}
			if !fn.Object().Exported() {
				continue // helpers are analysed in the contexts that reach them
			}
			// parameters of the mode type are enumerated
			variants := [][]engine.AbsVal{make([]engine.AbsVal, len(fn.Params))}
			for j := range variants[0] {
				variants[0][j] = engine.Top{}
			}
			for j, prm := range fn.Params {
				if j > 0 && namedOf(prm.Type()) == pkgBuffer+".OutputMode" {
					var nv [][]engine.AbsVal
					for _, v := range variants {
						for m := int64(0); m < 3; m++ {
							w := append([]engine.AbsVal{}, v...)
							w[j] = num(m)
							nv = append(nv, w)
						}
					}
					variants = nv
				}
			}
			for _, s := range allBufStates() {
				for _, variant := range variants {
					args := append([]engine.AbsVal{}, variant...)
					h := engine.Heap{}
					if isPtr {
						h["in0"] = &engine.Object{Type: bt, Fields: bufFields(s)}
						args[0] = engine.Ptr{Obj: "in0"}
					} else {
						args[0] = engine.StructV{Fields: bufFields(s)}
					}
					roots = append(roots, engine.Root{Fn: fn, Args: args, Heap: h})
					a.Roots = append(a.Roots, bufRoot{Fn: fn, Entry: s, Value: !isPtr, Args: args})
				}
			}
		}
	}
	a.It.Run(roots)
	for i := range a.Roots {
		r := roots[i]
		a.Roots[i].Sum = a.It.SummaryFor(r.Fn, r.Args, r.Heap, false)
	}
	c.abuf = a
	return a
}

func namedOf(t types.Type) string {
	t = types.Unalias(t)
	if n, ok := t.(*types.Named); ok && n.Obj().Pkg() != nil {
		return n.Obj().Pkg().Path() + "." + n.Obj().Name()
	}
	return ""
}

// nonEmptyConstBytes: v is a marker constant in []byte form — a load of one
// of the package-level byte slices of the markers package (C07 decides that
// they hold the non-empty marker strings, C07.g that nobody can write them)
// or the conversion of a non-empty constant string.
func nonEmptyConstBytes(v ssa.Value) bool {
	switch x := v.(type) {
	case *ssa.UnOp:
		if g, ok := x.X.(*ssa.Global); ok && x.Op == token.MUL && g.Pkg != nil && g.Pkg.Pkg.Path() == pkgMarkers {
			return true
		}
	case *ssa.Convert:
		if k, ok := x.X.(*ssa.Const); ok && k.Value != nil && k.Value.Kind() == constant.String {
			return constant.StringVal(k.Value) != ""
		}
	}
	return false
}
