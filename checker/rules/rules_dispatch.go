package rules

import (
	"fmt"
	"go/token"
	"go/types"
	"strings"

	"golang.org/x/tools/go/ssa"

	"redactverif/report"
)

func init() {
	register("C17.a", ruleC17a)
	register("C17.b", ruleC17b)
	register("C17.c", ruleC17c)
	register("C17.e", ruleC17e)
}

// userCallSite is a call in fn that can enter user code.
type userCallSite struct {
	call     ssa.CallInstruction // the call in fn (of the user code, or of the helper that makes it)
	what     string
	specific bool // not one of fmt's four dispatch interfaces
	hook     bool
	inner    ssa.CallInstruction // the call that enters user code (== call unless in a helper)
	args     []ssa.Value         // its arguments, as values of fn where they come from fn
}

func (c *Ctx) userCallSites(fn *ssa.Function) []userCallSite {
	return c.userCallSitesDepth(fn, 0)
}

func (c *Ctx) userCallSitesDepth(fn *ssa.Function, depth int) []userCallSite {
	var out []userCallSite
	// a helper is read in place unless it leads back to fn by plain calls
	// (the recursion of the printer); deferred recovery routines do not count
	var back func(g *ssa.Function, seen map[*ssa.Function]bool) bool
	back = func(g *ssa.Function, seen map[*ssa.Function]bool) bool {
		if g == fn {
			return true
		}
		if seen[g] || g.Blocks == nil {
			return false
		}
		seen[g] = true
		for _, b := range g.Blocks {
			for _, ins := range b.Instrs {
				if call, ok := ins.(*ssa.Call); ok {
					if h := call.Common().StaticCallee(); h != nil && c.P.InModule(h) && back(h, seen) {
						return true
					}
				}
			}
		}
		return false
	}
	scc := map[*ssa.Function]bool{}
	_ = scc
	for _, b := range fn.Blocks {
		for _, ins := range b.Instrs {
			ci, ok := ins.(ssa.CallInstruction)
			if !ok {
				continue
			}
			if _, isDefer := ins.(*ssa.Defer); isDefer {
				continue
			}
			cc := ci.Common()
			if cc.IsInvoke() {
				if sealed(cc.Value.Type()) {
					continue
				}
				out = append(out, userCallSite{ci, "method " + cc.Method.Name(), !c.isFmtInterface(cc.Value.Type()), false, ci, cc.Args})
				continue
			}
			if g := cc.StaticCallee(); g != nil {
				// a helper of the printer that makes the call: the site is the
				// call of the helper, the arguments are the inner call's, read
				// through the helper's parameters
				if depth < 2 && g.Blocks != nil && c.P.InModule(g) && recvNamed(g) == tPP && (g.Object() == nil || !g.Object().Exported()) && g != fn && (handWritten(c, g) || !back(g, map[*ssa.Function]bool{})) {
					for _, in := range c.userCallSitesDepth(g, depth+1) {
						m := map[ssa.Value]ssa.Value{}
						for i, p := range g.Params {
							if i < len(cc.Args) {
								m[p] = cc.Args[i]
							}
						}
						var args []ssa.Value
						for _, a := range in.args {
							base := a
							if r, ok := m[stripIface(a)]; ok {
								base = r
							} else if r, ok := m[a]; ok {
								base = r
							}
							args = append(args, base)
						}
						out = append(out, userCallSite{ci, in.what + " (in " + g.Name() + ")", in.specific, in.hook, in.inner, args})
					}
				}
				continue
			}
			if _, isB := cc.Value.(*ssa.Builtin); isB {
				continue
			}
			if _, isMC := cc.Value.(*ssa.MakeClosure); isMC {
				continue
			}
			out = append(out, userCallSite{ci, "func value " + cc.Value.Name(), true, true, ci, cc.Args})
		}
	}
	return out
}

// handledBefore: in g, the named boolean result read on the recovery path
// (or, without one, nothing) holds true when the instruction is reached:
// a store of true dominates it and no other store follows on the way.
func handledBefore(g *ssa.Function, at ssa.Instruction) bool {
	var res *ssa.Alloc
	if g.Recover != nil {
		for _, ins := range g.Recover.Instrs {
			if u, ok := ins.(*ssa.UnOp); ok {
				if al, ok := u.X.(*ssa.Alloc); ok {
					res = al
				}
			}
		}
	}
	if res == nil {
		return false
	}
	blk := at.Block()
	ok := false
	for _, b := range g.Blocks {
		if !(b == blk || b.Dominates(blk)) {
			continue
		}
		for _, ins := range b.Instrs {
			if b == blk && ins == at {
				break
			}
			if st, isSt := ins.(*ssa.Store); isSt && st.Addr == ssa.Value(res) {
				if cst, isC := st.Val.(*ssa.Const); isC && cst.Value != nil && cst.Value.String() == "true" {
					ok = true
				} else {
					ok = false
				}
			}
		}
	}
	return ok
}

// recoversItself: g defers a function that calls recover (its own recovery).
func recoversItself(g *ssa.Function) bool {
	for _, b := range g.Blocks {
		for _, ins := range b.Instrs {
			d, ok := ins.(*ssa.Defer)
			if !ok {
				continue
			}
			f := d.Common().StaticCallee()
			if f == nil {
				continue
			}
			for _, fb := range f.Blocks {
				for _, fi := range fb.Instrs {
					if call, ok := fi.(*ssa.Call); ok {
						if bi, ok := call.Common().Value.(*ssa.Builtin); ok && bi.Name() == "recover" {
							return true
						}
					}
				}
			}
		}
	}
	return false
}

// reportsHandledAfter: right after the call, in its block, the boolean
// result of the enclosing function is set to true (or true is returned).
func reportsHandledAfter(ci ssa.CallInstruction) bool {
	seen := false
	for _, ins := range ci.Block().Instrs {
		if ins == ssa.Instruction(ci) {
			seen = true
			continue
		}
		if !seen {
			continue
		}
		switch x := ins.(type) {
		case *ssa.Store:
			if _, isAlloc := x.Addr.(*ssa.Alloc); isAlloc {
				if cst, ok := x.Val.(*ssa.Const); ok && cst.Value != nil && cst.Value.String() == "true" {
					return true
				}
			}
		case *ssa.Return:
			if len(x.Results) == 1 {
				if cst, ok := x.Results[0].(*ssa.Const); ok && cst.Value != nil && cst.Value.String() == "true" {
					return true
				}
			}
		case ssa.CallInstruction:
			if _, isRD := ins.(*ssa.RunDefers); !isRD {
				return false
			}
		}
	}
	return false
}

// resultBranch: the If that branches on the value of a call (the helper
// reported whether it entered user code).
func resultBranch(ci ssa.CallInstruction) *ssa.If {
	v := ci.Value()
	if v == nil || v.Referrers() == nil {
		return nil
	}
	for _, ref := range *v.Referrers() {
		if iff, ok := ref.(*ssa.If); ok {
			return iff
		}
	}
	return nil
}

type edge struct{ from, to *ssa.BasicBlock }

// reachableWithout: is `to` reachable from fn's entry when the given edges
// are removed?
func reachableWithout(fn *ssa.Function, to *ssa.BasicBlock, cut map[edge]bool) bool {
	seen := map[*ssa.BasicBlock]bool{}
	stack := []*ssa.BasicBlock{fn.Blocks[0]}
	for len(stack) > 0 {
		b := stack[len(stack)-1]
		stack = stack[:len(stack)-1]
		if b == to {
			return true
		}
		if seen[b] {
			continue
		}
		seen[b] = true
		for _, s := range b.Succs {
			if !cut[edge{b, s}] {
				stack = append(stack, s)
			}
		}
	}
	return false
}

// guardsOf: the conditional branches whose true edge leads (by dominance) to
// blk, restricted to tests of a comma-ok assertion or of a nil comparison.
func guardsOf(fn *ssa.Function, blk *ssa.BasicBlock) []edge {
	var out []edge // the FALSE edges of the guards
	for _, b := range fn.Blocks {
		iff, ok := b.Instrs[len(b.Instrs)-1].(*ssa.If)
		if !ok {
			continue
		}
		// which successor is taken when the test succeeds (the value is of the
		// type / is not nil), in either spelling of the test
		cond, neg := iff.Cond, false
		for {
			u, isU := cond.(*ssa.UnOp)
			if !isU || u.Op != token.NOT {
				break
			}
			cond, neg = u.X, !neg
		}
		pass := -1
		switch cnd := cond.(type) {
		case *ssa.Extract:
			if ta, ok := cnd.Tuple.(*ssa.TypeAssert); ok && ta.CommaOk && cnd.Index == 1 {
				pass = 0
			}
		case *ssa.BinOp:
			if cst, ok := cnd.Y.(*ssa.Const); ok && cst.IsNil() {
				switch cnd.Op {
				case token.NEQ:
					pass = 0
				case token.EQL:
					pass = 1
				}
			}
		}
		if pass < 0 {
			continue
		}
		if neg {
			pass = 1 - pass
		}
		t, f := b.Succs[pass], b.Succs[1-pass]
		if !(t == blk || t.Dominates(blk)) || len(t.Preds) != 1 {
			continue
		}
		out = append(out, edge{b, f})
	}
	return out
}

// overrideShortcut finds the branch on `override != <unsafe>` and returns
// the edge taken when the override IS unsafe.
func overrideShortcut(fn *ssa.Function) (edge, bool) {
	for _, b := range fn.Blocks {
		iff, ok := b.Instrs[len(b.Instrs)-1].(*ssa.If)
		if !ok {
			continue
		}
		bo, ok := iff.Cond.(*ssa.BinOp)
		if !ok || (bo.Op != token.NEQ && bo.Op != token.EQL) {
			continue
		}
		if loadedField(bo.X) != "override" {
			continue
		}
		cst, ok := bo.Y.(*ssa.Const)
		if !ok || cst.Value == nil || cst.Int64() != 2 {
			continue
		}
		if bo.Op == token.NEQ {
			return edge{b, b.Succs[1]}, true
		}
		return edge{b, b.Succs[0]}, true
	}
	return edge{}, false
}

// ruleC17a: dispatch order in the method dispatcher.
func ruleC17a(c *Ctx) []*report.Result {
	r := report.NewResult("C17.a", "in the method dispatcher every path to a call through one of fmt's four interfaces (Formatter, GoStringer, error, Stringer) either takes the override==unsafe edge or passes the failing edges of the SafeFormatter test, the SafeMessager test and the (error and hook installed) test; and these three are tested in that order", 12)
	fn := c.P.Func("internal/rfmt", "(*pp).handleMethods")
	if fn == nil {
		r.Undecide("(*pp).handleMethods not found")
		return []*report.Result{r}
	}
	pos := c.P.Pos(fn.Pos())
	sites := c.userCallSites(fn)
	var spec, fmtSites []userCallSite
	for _, s := range sites {
		if s.specific {
			spec = append(spec, s)
		} else {
			fmtSites = append(fmtSites, s)
		}
	}
	if len(spec) < 3 || len(fmtSites) < 4 {
		r.Undecide(fmt.Sprintf("found %d redact-specific and %d fmt dispatch sites (want >=3 and >=4)", len(spec), len(fmtSites)))
		return []*report.Result{r}
	}
	short, ok := overrideShortcut(fn)
	if !ok {
		r.Fail("(*internal/rfmt.pp).handleMethods / override guard", pos, "no branch on override != overrideUnsafe found in the dispatcher", nil, "")
		return []*report.Result{r}
	}
	// every specific site lies behind the guard
	for _, s := range spec {
		cut := map[edge]bool{}
		// cut the not-unsafe edge: the site must become unreachable
		for _, su := range short.from.Succs {
			if su != short.to {
				cut[edge{short.from, su}] = true
			}
		}
		r.Check(!reachableWithout(fn, s.call.Block(), cut), "(*internal/rfmt.pp).handleMethods / "+s.what+" behind the override guard", c.P.Pos(s.call.Pos()), s.what+" is reachable with override==unsafe")
	}
	// fmt sites: unreachable when the shortcut and the failing edges of a specific site's guards are cut
	for _, s := range spec {
		gs := guardsOf(fn, s.call.Block())
		if s.inner != s.call {
			// the test and the call sit in a helper that reports, as its
			// result, whether it made the call: "the test failed" is the
			// false edge of the branch on that result
			if iff := resultBranch(s.call); iff != nil && handledBefore(s.inner.Parent(), s.inner) {
				gs = append(gs, edge{iff.Block(), iff.Block().Succs[1]})
			}
		}
		if len(gs) == 0 {
			r.Fail("(*internal/rfmt.pp).handleMethods / guard of "+s.what, c.P.Pos(s.call.Pos()), "no type/nil test guards "+s.what, nil, "")
			continue
		}
		cut := map[edge]bool{short: true}
		for _, g := range gs {
			cut[g] = true
		}
		for _, f := range fmtSites {
			r.Check(!reachableWithout(fn, f.call.Block(), cut), fmt.Sprintf("(*internal/rfmt.pp).handleMethods / %s after the %s test", f.what, s.what), c.P.Pos(f.call.Pos()),
				fmt.Sprintf("%s can be reached without the %s test having failed: fmt's dispatch takes precedence over redact's", f.what, s.what))
		}
	}
	// order among the specific sites: SafeFormat, SafeMessage, hook
	order := map[string]int{}
	for i, s := range spec {
		switch {
		case s.hook:
			order["hook"] = i
		case strings.Contains(s.what, "SafeFormat"):
			order["sf"] = i
		case strings.Contains(s.what, "SafeMessage"):
			order["sm"] = i
		}
	}
	if len(order) == 3 {
		chk := func(first, second, name string) {
			cut := map[edge]bool{short: true}
			for _, g := range guardsOf(fn, spec[order[first]].call.Block()) {
				cut[g] = true
			}
			r.Check(!reachableWithout(fn, spec[order[second]].call.Block(), cut), "(*internal/rfmt.pp).handleMethods / "+name, pos, name+": the later dispatch is reachable without the earlier test having failed")
		}
		chk("sf", "sm", "SafeFormatter is tested before SafeMessager")
		chk("sf", "hook", "SafeFormatter is tested before the error hook")
		chk("sm", "hook", "SafeMessager is tested before the error hook")
	} else {
		r.Fail("(*internal/rfmt.pp).handleMethods / three redact-specific dispatches", pos, "expected SafeFormat, SafeMessage and one func-value (hook) call", nil, "")
	}
	return []*report.Result{r}
}

// ruleC17b: what the user methods receive.
func ruleC17b(c *Ctx) []*report.Result {
	r := report.NewResult("C17.b", "the error hook is called with the asserted error, the printer itself and the verb after the %w rewrite; SafeFormat and Format receive the printer itself and that same verb; after the rewrite no dispatch uses the original verb parameter", 8)
	fn := c.P.Func("internal/rfmt", "(*pp).handleMethods")
	if fn == nil {
		r.Undecide("(*pp).handleMethods not found")
		return []*report.Result{r}
	}
	recv := fn.Params[0]
	var verbParam *ssa.Parameter
	for _, p := range fn.Params[1:] {
		if b, ok := p.Type().Underlying().(*types.Basic); ok && b.Kind() == types.Int32 {
			verbParam = p
		}
	}
	if verbParam == nil {
		r.Undecide("verb parameter not found")
		return []*report.Result{r}
	}
	// the rewritten verb: a phi of the parameter and the constant 'v'
	var verbPhi *ssa.Phi
	for _, ref := range *verbParam.Referrers() {
		if ph, ok := ref.(*ssa.Phi); ok {
			for _, e := range ph.Edges {
				if cst, ok := e.(*ssa.Const); ok && cst.Value != nil && cst.Int64() == 'v' {
					verbPhi = ph
				}
			}
		}
	}
	pos := c.P.Pos(fn.Pos())
	if verbPhi == nil {
		r.Fail("(*internal/rfmt.pp).handleMethods / %w rewrite", pos, "no merge of the verb parameter with the constant 'v' found (the %w verb must be rewritten to %v before dispatch)", nil, "")
		return []*report.Result{r}
	}
	// other uses of the raw parameter: only the comparison with 'w' and the bad-verb report
	for _, ref := range *verbParam.Referrers() {
		switch x := ref.(type) {
		case *ssa.Phi, *ssa.DebugRef:
		case *ssa.BinOp:
			cst, ok := x.Y.(*ssa.Const)
			r.Check(ok && cst.Value != nil && cst.Int64() == 'w', "(*internal/rfmt.pp).handleMethods / raw verb compared only with 'w'", c.P.Pos(x.Pos()), "the unrewritten verb is used in "+x.String())
		case ssa.CallInstruction:
			name := calleeName(x)
			r.Check(strings.HasSuffix(name, ".badVerb"), "(*internal/rfmt.pp).handleMethods / raw verb passed only to badVerb", c.P.Pos(x.Pos()), "the unrewritten verb is passed to "+name+": a user method or hook would see %w instead of %v")
		default:
			r.Fail("(*internal/rfmt.pp).handleMethods / raw verb use", c.P.Pos(ref.Pos()), "the unrewritten verb is used by "+ref.String(), nil, "")
		}
	}
	isPrinter := func(v ssa.Value) bool { return stripIface(v) == ssa.Value(recv) }
	for _, s := range c.userCallSites(fn) {
		args := s.args
		construct := "(*internal/rfmt.pp).handleMethods / arguments of " + s.what
		p := c.P.Pos(s.call.Pos())
		switch {
		case s.hook:
			okErr := false
			if len(args) == 3 {
				if ex, ok := args[0].(*ssa.Extract); ok {
					if ta, ok := ex.Tuple.(*ssa.TypeAssert); ok && ex.Index == 0 && types.Identical(ta.AssertedType, types.Universe.Lookup("error").Type()) {
						okErr = true
					}
				}
			}
			r.Check(okErr, construct+" (error)", p, "the hook must receive the operand asserted to error")
			r.Check(len(args) == 3 && isPrinter(args[1]), construct+" (printer)", p, "the hook must receive the printer itself")
			r.Check(len(args) == 3 && args[2] == ssa.Value(verbPhi), construct+" (verb)", p, "the hook must receive the verb after the %w rewrite")
		case len(args) == 2: // SafeFormat(p, verb) / Format(p, verb)
			r.Check(isPrinter(args[0]), construct+" (printer)", p, s.what+" must receive the printer itself")
			r.Check(args[1] == ssa.Value(verbPhi), construct+" (verb)", p, s.what+" must receive the verb after the %w rewrite")
		}
	}
	return []*report.Result{r}
}

// ruleC17c: the dispatcher is reached on all three detection routes.
func ruleC17c(c *Ctx) []*report.Result {
	r := report.NewResult("C17.c", "the method dispatcher is called on each detection route: for the plain operand, for a reflect.Value operand and below the top level of reflection; on the two reflective routes under CanInterface() with p.arg set from Interface(); on every route a false result falls through to printValue", 6)
	hm := c.P.Func("internal/rfmt", "(*pp).handleMethods")
	if hm == nil {
		r.Undecide("(*pp).handleMethods not found")
		return []*report.Result{r}
	}
	type site struct {
		fn   *ssa.Function
		call *ssa.Call
	}
	var sites []site
	for _, fn := range c.P.ModuleFunctions() {
		for _, b := range fn.Blocks {
			for _, ins := range b.Instrs {
				if call, ok := ins.(*ssa.Call); ok && call.Common().StaticCallee() == hm {
					sites = append(sites, site{fn, call})
				}
			}
		}
	}
	reflective := 0
	for _, s := range sites {
		construct := shortFn(s.fn.String()) + " / handleMethods call"
		p := c.P.Pos(s.call.Pos())
		// guarded by CanInterface()?
		guarded := false
		for _, b := range s.fn.Blocks {
			iff, ok := b.Instrs[len(b.Instrs)-1].(*ssa.If)
			if !ok {
				continue
			}
			if call, ok := iff.Cond.(*ssa.Call); ok {
				if f := call.Common().StaticCallee(); f != nil && f.String() == "(reflect.Value).CanInterface" {
					t := b.Succs[0]
					if t == s.call.Block() || t.Dominates(s.call.Block()) {
						guarded = true
					}
				}
			}
		}
		// p.arg stored from Interface() in a block that dominates the call?
		fromIface := false
		for _, b := range s.fn.Blocks {
			if !(b == s.call.Block() || b.Dominates(s.call.Block())) {
				continue
			}
			for _, ins := range b.Instrs {
				if ins == ssa.Instruction(s.call) {
					break
				}
				if st, ok := ins.(*ssa.Store); ok {
					if fa, ok := st.Addr.(*ssa.FieldAddr); ok && fieldName(fa) == "arg" {
						if call, ok := st.Val.(*ssa.Call); ok {
							if f := call.Common().StaticCallee(); f != nil && f.String() == "(reflect.Value).Interface" {
								// Interface() itself must be under CanInterface()
								fromIface = true
							}
						}
					}
				}
			}
		}
		if guarded || fromIface {
			reflective++
			r.Check(guarded && fromIface, construct+" (reflective route)", p, "the reflective route must call Interface() only under CanInterface() and dispatch on that value")
		} else {
			r.Ok(construct + " (plain operand) @" + p)
		}
		// result used: If on the call's value
		used := false
		for _, ref := range *s.call.Referrers() {
			if _, ok := ref.(*ssa.If); ok {
				used = true
			}
		}
		r.Check(used, construct+" / result decides the fallback", p, "the result of handleMethods must decide whether reflection-based printing follows")
	}
	r.Check(len(sites) >= 3 && reflective >= 2, "rfmt / three dispatch routes", c.P.Pos(hm.Pos()), fmt.Sprintf("found %d calls of the dispatcher (%d reflective), want 3 (2)", len(sites), reflective))
	return []*report.Result{r}
}

// ruleC17e: who writes and who reads the hook variable.
func ruleC17e(c *Ctx) []*report.Result {
	r := report.NewResult("C17.e", "the func-typed package variable called by the dispatcher (the error hook) is written only by an exported Register* function and read only by the dispatcher", 2)
	hm := c.P.Func("internal/rfmt", "(*pp).handleMethods")
	if hm == nil {
		r.Undecide("(*pp).handleMethods not found")
		return []*report.Result{r}
	}
	var hook *ssa.Global
	for _, s := range c.userCallSites(hm) {
		if s.hook {
			if u, ok := s.inner.Common().Value.(*ssa.UnOp); ok {
				if g, ok := u.X.(*ssa.Global); ok {
					hook = g
				}
			}
		}
	}
	if hook == nil {
		r.Fail("rfmt / error hook variable", c.P.Pos(hm.Pos()), "the dispatcher does not call a func-typed package variable", nil, "")
		return []*report.Result{r}
	}
	for _, fn := range c.P.ModuleFunctions() {
		for _, b := range fn.Blocks {
			for _, ins := range b.Instrs {
				switch x := ins.(type) {
				case *ssa.Store:
					if x.Addr == ssa.Value(hook) {
						okW := fn.Object() != nil && fn.Object().Exported() && strings.HasPrefix(fn.Name(), "Register") && fn.Signature.Recv() == nil
						r.Check(okW, shortFn(fn.String())+" / writes "+hook.Name(), c.P.Pos(x.Pos()), "the hook variable is written outside a Register* function")
					}
				case *ssa.UnOp:
					if x.X == ssa.Value(hook) {
						r.Check(fn == hm || (recvNamed(fn) == tPP && c.reach(hm, false)[fn]), shortFn(fn.String())+" / reads "+hook.Name(), c.P.Pos(x.Pos()), "the hook variable is read outside the dispatcher")
					}
				}
			}
		}
	}
	return []*report.Result{r}
}

func init() {
	register("C11.g", ruleC11g)
	register("C08.c", ruleC08c)
}

// ruleC11g: the dispatcher's boolean result is already true when user code
// is entered, so that the recovered path reports the operand as handled.
func ruleC11g(c *Ctx) []*report.Result {
	r := report.NewResult("C11.g", "in the method dispatcher every call that can enter user code is dominated by the assignment handled=true to the named result: when the call panics and catchPanic recovers, the function still reports the operand as handled (otherwise the operand is printed a second time after the panic report)", 7)
	fn := c.P.Func("internal/rfmt", "(*pp).handleMethods")
	if fn == nil {
		r.Undecide("(*pp).handleMethods not found")
		return []*report.Result{r}
	}
	// the named result: an Alloc loaded in the recover block
	var res *ssa.Alloc
	if fn.Recover != nil {
		for _, ins := range fn.Recover.Instrs {
			if u, ok := ins.(*ssa.UnOp); ok {
				if al, ok := u.X.(*ssa.Alloc); ok {
					res = al
				}
			}
		}
	}
	if res == nil {
		r.Fail("(*internal/rfmt.pp).handleMethods / named result", c.P.Pos(fn.Pos()), "the dispatcher has no named boolean result read on the recovery path: after a recovered panic it would return false", nil, "")
		return []*report.Result{r}
	}
	for _, s := range c.userCallSites(fn) {
		if s.inner != s.call {
			// made by a helper with its own recovery: the helper's result is
			// true when the call is entered, and the dispatcher branches on it
			okH := handledBefore(s.inner.Parent(), s.inner) && resultBranch(s.call) != nil
			if !okH && recoversItself(s.inner.Parent()) && reportsHandledAfter(s.call) {
				// the helper contains the panic itself and returns normally;
				// the dispatcher then reports the operand as handled
				okH = true
			}
			r.Check(okH, "(*internal/rfmt.pp).handleMethods / handled set before "+s.what, c.P.Pos(s.inner.Pos()), "the helper that calls "+s.what+" does not report the operand as handled on its recovery path (or the dispatcher ignores its result)")
			continue
		}
		blk := s.call.Block()
		ok := false
		for _, b := range fn.Blocks {
			if !(b == blk || b.Dominates(blk)) {
				continue
			}
			for _, ins := range b.Instrs {
				if b == blk && ins == ssa.Instruction(s.call) {
					break
				}
				if st, isSt := ins.(*ssa.Store); isSt && st.Addr == ssa.Value(res) {
					if cst, isC := st.Val.(*ssa.Const); isC && cst.Value != nil && cst.Value.String() == "true" {
						ok = true
					} else {
						ok = false
					}
				}
			}
		}
		r.Check(ok, "(*internal/rfmt.pp).handleMethods / handled set before "+s.what, c.P.Pos(s.call.Pos()), "handled=true is not established before "+s.what+" is called: if it panics, the recovered dispatcher returns false and the operand is printed again by reflection")
	}
	return []*report.Result{r}
}

// ruleC08c: composition helpers print redactables through Print only.
func ruleC08c(c *Ctx) []*report.Result {
	r := report.NewResult("C08.c", "RedactableString/RedactableBytes/StringBuilder SafeFormat print themselves with a single Print call of their own value; JoinTo writes the delimiter and every element with w.Print (never through a classifying emitter); Join is a builder plus JoinTo", 8)
	type sf struct{ pkg, name string }
	for _, x := range []sf{{"internal/markers", "(RedactableString).SafeFormat"}, {"internal/markers", "(RedactableBytes).SafeFormat"}, {"builder", "(StringBuilder).SafeFormat"}} {
		fn := c.P.Func(x.pkg, x.name)
		construct := x.pkg + "." + x.name
		if fn == nil {
			r.Fail(construct, x.pkg, "SafeFormat method not found", nil, "")
			continue
		}
		pos := c.P.Pos(fn.Pos())
		var invokes []ssa.CallInstruction
		for _, b := range fn.Blocks {
			for _, ins := range b.Instrs {
				if ci, ok := ins.(ssa.CallInstruction); ok && ci.Common().IsInvoke() {
					invokes = append(invokes, ci)
				}
			}
		}
		okOne := len(invokes) == 1 && invokes[0].Common().Method.Name() == "Print" && invokes[0].Common().Value == ssa.Value(fn.Params[1])
		r.Check(okOne, construct+" / single Print on the printer", pos, "SafeFormat of a redactable must be exactly one Print call on the SafePrinter it received")
		if okOne {
			// the single variadic element is the receiver (or its RedactableString())
			arg := invokes[0].Common().Args[0]
			elem := singleVariadicElem(arg)
			okSelf := false
			if elem != nil {
				v := stripIface(elem)
				if v == ssa.Value(fn.Params[0]) {
					okSelf = true
				} else if call, ok := v.(*ssa.Call); ok {
					if f := call.Common().StaticCallee(); f != nil && strings.HasPrefix(f.Name(), "Redactable") {
						okSelf = true
					}
				}
			}
			r.Check(okSelf, construct+" / prints itself", pos, "the only operand of Print must be the redactable itself")
		}
	}
	jt := c.P.Func("", "JoinTo")
	if jt == nil {
		r.Fail("redact.JoinTo", "util.go", "not found", nil, "")
	} else {
		n := 0
		// JoinTo and the helpers of its package to which it hands the writer
		type wfn struct {
			fn *ssa.Function
			w  ssa.Value
			d  ssa.Value
		}
		work := []wfn{{jt, jt.Params[0], jt.Params[1]}}
		seenFn := map[*ssa.Function]bool{jt: true}
		var delims []ssa.Value
		for len(work) > 0 {
			cur := work[0]
			work = work[1:]
			if cur.d != nil {
				delims = append(delims, cur.d)
			}
			for _, b := range cur.fn.Blocks {
				for _, ins := range b.Instrs {
					ci, ok := ins.(ssa.CallInstruction)
					if !ok {
						continue
					}
					if g := ci.Common().StaticCallee(); g != nil && g.Pkg == jt.Pkg && g.Blocks != nil && !seenFn[g] {
						var wp, dp ssa.Value
						for i, a := range ci.Common().Args {
							if i >= len(g.Params) {
								break
							}
							if a == cur.w {
								wp = g.Params[i]
							}
							if cur.d != nil && a == cur.d {
								dp = g.Params[i]
							}
						}
						if wp != nil {
							seenFn[g] = true
							work = append(work, wfn{g, wp, dp})
						}
						continue
					}
					if !ci.Common().IsInvoke() || ci.Common().Value != cur.w {
						continue
					}
					n++
					r.Check(ci.Common().Method.Name() == "Print", "redact.JoinTo / writes through Print", c.P.Pos(ci.Pos()), "JoinTo calls "+ci.Common().Method.Name()+" on the writer: delimiter and elements must go through Print so that redactables are inlined unchanged")
				}
			}
		}
		r.Check(n >= 3, "redact.JoinTo / three Print sites", c.P.Pos(jt.Pos()), fmt.Sprintf("found %d writer calls in JoinTo, want the non-slice operand, the delimiter and the element", n))
		// the delimiter parameter flows only into Print
		okDelim := true
		for _, delim := range delims {
			if delim.Referrers() == nil {
				continue
			}
			for _, ref := range *delim.Referrers() {
				switch x := ref.(type) {
				case *ssa.MakeInterface:
					_ = x
				case *ssa.DebugRef:
				case ssa.CallInstruction:
					// measuring it is not converting it
					if bi, isB := x.Common().Value.(*ssa.Builtin); isB && bi.Name() == "len" {
						continue
					}
					// handed on to a helper of the package (followed above)
					if g := x.Common().StaticCallee(); g == nil || !seenFn[g] {
						okDelim = false
					}
				default:
					okDelim = false
				}
			}
		}
		r.Check(okDelim, "redact.JoinTo / delimiter passed as is", c.P.Pos(jt.Pos()), "the delimiter must be passed to Print unchanged (no conversion: its static type is what makes it pre-redactable)")
	}
	j := c.P.Func("", "Join")
	if j == nil {
		r.Fail("redact.Join", "util.go", "not found", nil, "")
	} else {
		// Join fills a fresh builder through JoinTo, or through Print calls
		// of its own whose operand is the delimiter or an element, both as
		// they are, and returns the builder's RedactableString()
		var names []string
		okJ, wrote, took := true, false, false
		why := ""
		for _, b := range j.Blocks {
			for _, ins := range b.Instrs {
				ci, ok := ins.(ssa.CallInstruction)
				if !ok {
					continue
				}
				n := calleeName(ci)
				names = append(names, n)
				switch {
				case strings.HasSuffix(n, "JoinTo"):
					wrote = true
				case strings.HasSuffix(n, ".RedactableString"):
					took = true
				case strings.HasSuffix(n, ".Print") || n == "invoke Print":
					wrote = true
					args := ci.Common().Args
					el := singleVariadicElem(args[len(args)-1])
					okOp := false
					if el != nil {
						v := stripIface(el)
						for _, p := range j.Params {
							if v == ssa.Value(p) {
								okOp = true // the delimiter
							}
						}
						if u, ok := v.(*ssa.UnOp); ok {
							if ia, ok := u.X.(*ssa.IndexAddr); ok {
								if _, isP := ia.X.(*ssa.Parameter); isP {
									okOp = true // an element
								}
							}
						}
					}
					if !okOp {
						okJ, why = false, "a Print in Join does not print the delimiter or an element as it is"
					}
				case strings.HasPrefix(n, "builtin "):
				default:
					if f := ci.Common().StaticCallee(); f != nil && c.P.InModule(f) && c.reachesWriter(f) {
						okJ, why = false, "Join writes through "+n
					}
				}
			}
		}
		if okJ && !(wrote && took) {
			okJ, why = false, "Join must write through JoinTo/Print and return RedactableString()"
		}
		r.Check(okJ, "redact.Join / builder + JoinTo", c.P.Pos(j.Pos()), why+": "+strings.Join(names, ","))
	}
	return []*report.Result{r}
}

// singleVariadicElem returns the only element stored into a one-element
// variadic slice, or nil.
func singleVariadicElem(v ssa.Value) ssa.Value {
	sl, ok := v.(*ssa.Slice)
	if !ok {
		return nil
	}
	al, ok := sl.X.(*ssa.Alloc)
	if !ok {
		return nil
	}
	var elem ssa.Value
	n := 0
	for _, ref := range *al.Referrers() {
		if ia, ok := ref.(*ssa.IndexAddr); ok {
			for _, r2 := range *ia.Referrers() {
				if st, ok := r2.(*ssa.Store); ok {
					n++
					elem = st.Val
				}
			}
		}
	}
	if n != 1 {
		return nil
	}
	return elem
}

func init() { register("C11.h", ruleC11h) }

// storedFields lists the fields of the receiver (following one level of
// nesting) that fn assigns.
func storedReceiverFields(fn *ssa.Function) map[string]bool {
	out := map[string]bool{}
	for _, b := range fn.Blocks {
		for _, ins := range b.Instrs {
			st, ok := ins.(*ssa.Store)
			if !ok {
				continue
			}
			fa, ok := st.Addr.(*ssa.FieldAddr)
			if !ok {
				continue
			}
			if fa.X == ssa.Value(fn.Params[0]) {
				out[fieldName(fa)] = true
			}
		}
	}
	return out
}

// ruleC11h: what the panic report clears for its own output it also puts
// back. catchPanic saves formatting state, resets it through a helper,
// prints the report and restores; every field the helper resets must be
// among the fields restored from values read before the reset.
func ruleC11h(c *Ctx) []*report.Result {
	r := report.NewResult("C11.h", "in the function that reports a recovered panic, every field of the formatter that the reset helper (clearflags) assigns is restored, after the report, from a value loaded before the reset: the directive's flags, width and precision are intact for the text that follows the report", 2)
	fn := c.P.Func("internal/rfmt", "(*pp).catchPanic")
	if fn == nil {
		r.Undecide("(*pp).catchPanic not found")
		return []*report.Result{r}
	}
	pos := c.P.Pos(fn.Pos())
	// the reset helper: a call on &p.fmt of a method that only stores fields
	var reset *ssa.Call
	for _, b := range fn.Blocks {
		for _, ins := range b.Instrs {
			call, ok := ins.(*ssa.Call)
			if !ok {
				continue
			}
			f := call.Common().StaticCallee()
			if f == nil || recvNamed(f) != tFmt || len(f.Blocks) != 1 {
				continue
			}
			if len(storedReceiverFields(f)) > 0 && len(c.staticCallees(f)) == 0 {
				reset = call
			}
		}
	}
	if reset == nil {
		r.Fail("(*internal/rfmt.pp).catchPanic / reset helper", pos, "no call of a formatter-reset helper found in the panic reporter", nil, "")
		return []*report.Result{r}
	}
	cleared := storedReceiverFields(reset.Common().StaticCallee())
	// loads of formatter fields before the reset, stores after it
	saved := map[ssa.Value]string{}
	restored := map[string]bool{}
	seenReset := false
	for _, b := range linearOrder(fn) {
		for _, ins := range b.Instrs {
			if ins == ssa.Instruction(reset) {
				seenReset = true
				continue
			}
			switch x := ins.(type) {
			case *ssa.UnOp:
				if fa, ok := x.X.(*ssa.FieldAddr); ok && !seenReset {
					if inner, ok := fa.X.(*ssa.FieldAddr); ok && fieldName(inner) == "fmt" {
						saved[x] = fieldName(fa)
					}
				}
			case *ssa.Store:
				if fa, ok := x.Addr.(*ssa.FieldAddr); ok && seenReset {
					if inner, ok := fa.X.(*ssa.FieldAddr); ok && fieldName(inner) == "fmt" {
						if name, ok := saved[x.Val]; ok && name == fieldName(fa) {
							restored[name] = true
						}
					}
				}
			}
		}
	}
	for f := range cleared {
		r.Check(restored[f], "(*internal/rfmt.pp).catchPanic / restores fmt."+f, pos, "the reset helper "+reset.Common().StaticCallee().Name()+" assigns fmt."+f+" but the panic reporter does not restore it: after a contained panic the rest of the directive's operand is formatted without it")
	}
	r.Check(len(cleared) >= 1, "(*internal/rfmt.pp).catchPanic / reset assigns something", pos, "the reset helper assigns no field")
	return []*report.Result{r}
}

func init() { register("C17.f", ruleC17f) }

// ruleC17f: registration is effective. The error hook and the safe-type
// registry are package variables of the formatting core; what the user hands
// to the public Register* function must be what ends up in them.
func ruleC17f(c *Ctx) []*report.Result {
	r := report.NewResult("C17.f", "registration is effective: each registry of the formatting core (the func-typed hook variable called by the dispatcher, the map-typed variables looked up while printing) has a writer that stores its own parameter (hook = fn; registry[t] = true), and the root package exposes that writer through an exported function that calls it unconditionally with its own parameter", 5)
	hm := c.P.Func("internal/rfmt", "(*pp).handleMethods")
	type registry struct {
		g    *ssa.Global
		kind string
	}
	var regs []registry
	if hm != nil {
		for _, s := range c.userCallSites(hm) {
			if s.hook {
				if u, ok := s.inner.Common().Value.(*ssa.UnOp); ok {
					if g, ok := u.X.(*ssa.Global); ok {
						regs = append(regs, registry{g, "hook"})
					}
				}
			}
		}
	}
	seen := map[*ssa.Global]bool{}
	for _, fn := range c.P.ModuleFunctions() {
		// the printer's methods, and the unexported functions of its package
		// through which it may consult a registry (isSafeType(t))
		if recvNamed(fn) != tPP && !(pkgPathOf(fn) == pkgRfmt && fn.Signature.Recv() == nil && fn.Object() != nil && !fn.Object().Exported()) {
			continue
		}
		for _, b := range fn.Blocks {
			for _, ins := range b.Instrs {
				if lk, ok := ins.(*ssa.Lookup); ok {
					if u, ok := lk.X.(*ssa.UnOp); ok {
						if g, ok := u.X.(*ssa.Global); ok && !seen[g] && pkgPathOfGlobal(g) == pkgRfmt {
							if _, isMap := g.Type().(*types.Pointer).Elem().Underlying().(*types.Map); isMap {
								seen[g] = true
								regs = append(regs, registry{g, "map"})
							}
						}
					}
				}
			}
		}
	}
	if len(regs) < 2 {
		r.Undecide(fmt.Sprintf("expected the error hook and the safe-type registry, found %d registries", len(regs)))
		return []*report.Result{r}
	}
	root := c.P.SSAPkg("")
	for _, rg := range regs {
		name := "rfmt." + rg.g.Name()
		type writer struct {
			fn    *ssa.Function
			param int
		}
		var writers []writer
		for _, fn := range c.P.ModuleFunctions() {
			if fn.Synthetic != "" || fn.Name() == "init" {
				continue
			}
			for _, b := range fn.Blocks {
				for _, ins := range b.Instrs {
					var stored ssa.Value
					var site ssa.Instruction
					switch x := ins.(type) {
					case *ssa.Store:
						if x.Addr == ssa.Value(rg.g) && rg.kind == "hook" {
							stored, site = x.Val, x
						}
					case *ssa.MapUpdate:
						if u, ok := x.Map.(*ssa.UnOp); ok && u.X == ssa.Value(rg.g) {
							stored, site = x.Key, x
							cst, isC := x.Value.(*ssa.Const)
							r.Check(isC && cst.Value != nil && cst.Value.String() == "true", shortFn(fn.String())+" / marks the type", c.P.Pos(x.Pos()), "the registry entry must be set to true")
						}
					}
					if site == nil {
						continue
					}
					p, isP := stripConvAll(stripIface(stored)).(*ssa.Parameter)
					if !isP {
						r.Fail(shortFn(fn.String())+" / stores its parameter into "+rg.g.Name(), c.P.Pos(site.Pos()), "what is stored into the registry is not the function's parameter: the user's registration is lost or replaced", nil, "")
						continue
					}
					uncond := site.Block() == fn.Blocks[0] || site.Block().Dominates(lastReturnBlock(fn))
					if !uncond {
						// skipping the store is fine when the entry is already
						// there: the branch that bypasses it tests registry[param]
						if d := site.Block().Idom(); d != nil {
							if iff, ok := d.Instrs[len(d.Instrs)-1].(*ssa.If); ok {
								cond := iff.Cond
								if u, ok := cond.(*ssa.UnOp); ok && u.Op == token.NOT {
									cond = u.X
								}
								if lk, ok := cond.(*ssa.Lookup); ok {
									if u, ok := lk.X.(*ssa.UnOp); ok && u.X == ssa.Value(rg.g) && stripConvAll(stripIface(lk.Index)) == ssa.Value(p) {
										uncond = true
									}
								}
							}
						}
					}
					r.Check(uncond, shortFn(fn.String())+" / registers unconditionally", c.P.Pos(site.Pos()), "the store into the registry does not lie on every path through the function")
					writers = append(writers, writer{fn, paramIndex(fn, p)})
				}
			}
		}
		if len(writers) == 0 {
			r.Fail(name+" / has a writer", c.P.Pos(rg.g.Pos()), "no function stores into this registry: nothing can be registered", nil, "")
			continue
		}
		// exposure by the root package
		for _, w := range writers {
			exposed := false
			for _, mem := range sortedMembers(root) {
				f, ok := mem.(*ssa.Function)
				if !ok || f.Object() == nil || !f.Object().Exported() || f.Blocks == nil {
					continue
				}
				fl := flatten(f, func(g *ssa.Function) bool { return g.Pkg == f.Pkg })
				if !fl.straight {
					continue
				}
				for _, ci := range fl.calls {
					if _, isCall := ci.(*ssa.Call); !isCall {
						continue
					}
					if ci.Common().StaticCallee() == w.fn {
						a := fl.args(ci)
						if w.param < len(a) {
							if p, ok := fl.deep(a[w.param]).(*ssa.Parameter); ok && p.Parent() == f {
								exposed = true
							}
						}
					}
				}
			}
			r.Check(exposed, "redact / exposes "+shortFn(w.fn.String()), c.P.Pos(w.fn.Pos()), "no exported function of the root package calls "+w.fn.Name()+" unconditionally with its own parameter: a registration made through the public API has no effect")
		}
	}
	return []*report.Result{r}
}

// lastReturnBlock: the block of the (single) return of fn, or its entry.
func lastReturnBlock(fn *ssa.Function) *ssa.BasicBlock {
	var rb *ssa.BasicBlock
	for _, b := range fn.Blocks {
		if b == fn.Recover || len(b.Instrs) == 0 {
			continue
		}
		if _, ok := b.Instrs[len(b.Instrs)-1].(*ssa.Return); ok {
			if rb != nil {
				return fn.Blocks[0]
			}
			rb = b
		}
	}
	if rb == nil {
		return fn.Blocks[0]
	}
	return rb
}
