package rules

import (
	"fmt"
	"go/types"
	"sort"

	"golang.org/x/tools/go/ssa"

	"redactverif/engine"
	"redactverif/report"
)

// eventsOf lists recorded events of the given kinds, sorted.
func eventsOf(it *engine.Interp, kinds ...string) []*engine.Event {
	want := map[string]bool{}
	for _, k := range kinds {
		want[k] = true
	}
	var ks []string
	for k, e := range it.Events {
		if want[e.Kind] {
			ks = append(ks, k)
		}
	}
	sort.Strings(ks)
	out := make([]*engine.Event, 0, len(ks))
	for _, k := range ks {
		out = append(out, it.Events[k])
	}
	return out
}

func (c *Ctx) evConstruct(e *engine.Event) string {
	return fmt.Sprintf("%s / %s", e.Fn.String(), e.Detail["what"])
}

// verdictRule turns recorded micro-event verdicts into a Result.
func (c *Ctx) verdictRule(it *engine.Interp, id, text string, floor int, kinds ...string) *report.Result {
	r := report.NewResult(id, text, floor)
	for _, e := range eventsOf(it, kinds...) {
		pos := c.P.Pos(e.Instr.Pos())
		construct := fmt.Sprintf("%s / %s", shortFn(e.Fn.String()), e.Kind)
		if e.Detail["ok"] == "true" {
			r.Ok(fmt.Sprintf("%s @%s [%s]", construct, pos, e.Detail["cfg"]))
		} else {
			r.Fail(construct, pos, e.Detail["what"], e.Chain, e.Detail["cfg"])
		}
	}
	for _, u := range it.Undecided {
		r.Undecide(u)
	}
	return r
}

func shortFn(s string) string {
	const pre = "github.com/cockroachdb/redact"
	out := ""
	for i := 0; i < len(s); {
		if i+len(pre) <= len(s) && s[i:i+len(pre)] == pre {
			i += len(pre)
			if i < len(s) && s[i] == '/' {
				i++
			}
			continue
		}
		out += string(s[i])
		i++
	}
	return out
}

func init() {
	register("C01.a", ruleC01a)
	register("C03.a", ruleC03a)
	register("C13.a", ruleC13a)
	register("C13.c", ruleC13c)
	register("C13.b", ruleC13b)
}

// ruleC01a: the marker/mode protocol of buffer.Buffer, inductively over all
// exported methods and all entry configurations.
func ruleC01a(c *Ctx) []*report.Result {
	a := c.ABuf()
	var out []*report.Result
	analysed := fmt.Sprintf("A-buf: %d roots (exported methods x entry configurations), %d summaries, %d states", len(a.Roots), len(a.It.Summaries), a.It.States)
	rs := []*report.Result{
		c.verdictRule(a.It, "C01.a/I2", "a start marker is appended only with markerOpen=false, an end marker only with markerOpen=true, both in mode Unsafe with no unescaped pending bytes; the flag follows the marker", 8, "I2", "I2-flag", "I2-elide"),
		c.verdictRule(a.It, "C01.a/I3", "every data append happens after startWrite: mode=Unsafe implies an open envelope", 4, "I3"),
		c.verdictRule(a.It, "C01.a/I4", "validUntil is advanced only over escaped (or, in raw mode, raw) bytes; it is reset to 0 only for an empty buffer; the escape scan starts at validUntil", 6, "I4", "I4-start"),
		c.verdictRule(a.It, "C01.a/I7", "buffer content is handed out (converted/returned) only after finalize ran on that object; content is dropped only with the envelope closed", 5, "I7", "I5"),
		c.verdictRule(a.It, "C01.a/I8", "the mode field changes only with pending bytes flushed and the envelope closed (unless entering Unsafe)", 3, "I8"),
	}
	for _, r := range rs {
		r.Analysed = analysed
	}
	out = append(out, rs...)
	// exit invariant (induction step)
	ex := report.NewResult("C01.a/inv", "inductive invariant I1&I6&I9&A-empty holds at every exit of every exported pointer-receiver method, for every entry configuration that satisfies it; no half-updated marker flag, validUntil re-established", 100)
	ex.Analysed = analysed
	for _, root := range a.Roots {
		if root.Sum == nil {
			ex.Undecide("no summary for " + root.Fn.String())
			continue
		}
		if root.Value {
			continue
		}
		outs := root.Sum.SortedOutcomes()
		if len(outs) == 0 {
			ex.Undecide("no outcome for " + root.Fn.String() + " from " + root.Entry.String())
		}
		for _, o := range outs {
			s, mk, vu, _, ok := readBuf(o.Heap, "in0", "")
			construct := fmt.Sprintf("%s / exit", shortFn(root.Fn.String()))
			pos := c.P.Pos(root.Fn.Pos())
			if !ok {
				ex.Fail(construct, pos, "tracked buffer state is not a constant at exit", nil, o.Heap.String())
				continue
			}
			if bufInvariant(s) && mk == "" && vu == "ok" && !o.Exc {
				ex.Ok(fmt.Sprintf("%s [%s] -> [%s]", shortFn(root.Fn.String()), root.Entry, s))
			} else {
				ex.Fail(construct, pos, fmt.Sprintf("exit configuration [%s mk=%s vu=%s] violates the buffer invariant", s, mk, vu), nil, "entry: "+root.Entry.String()+argString(root.Args))
			}
		}
	}
	out = append(out, ex)
	return out
}

func argString(args []engine.AbsVal) string {
	s := ""
	for i, a := range args {
		if i == 0 {
			continue
		}
		if _, top := a.(engine.Top); !top {
			s += fmt.Sprintf(" arg%d=%s", i, a.Key())
		}
	}
	return s
}

// ruleC03a: line splitting is requested exactly when unsafe data is sealed.
func ruleC03a(c *Ctx) []*report.Result {
	a := c.ABuf()
	r := c.verdictRule(a.It, "C03.a", "at every call of the escape routine from the buffer, breakNewLines evaluates to (mode==UnsafeEscaped) in every reachable configuration, and strip is false; with I2 (end marker only after pending bytes were flushed) every envelope is line-split before it is closed", 4, "C03.a", "C03.a-strip")
	return []*report.Result{r}
}

var accessorNames = map[string]bool{"Len": true, "Cap": true, "String": true, "RedactableString": true, "RedactableBytes": true, "GetMode": true}

// ruleC13a: accessors never write the receiver's state.
func ruleC13a(c *Ctx) []*report.Result {
	a := c.ABuf()
	r := report.NewResult("C13.a", "Len, Cap, String, RedactableString, RedactableBytes, GetMode: for every entry configuration no field of the receiver and no byte of its buffer is written (writes go to a by-value copy)", 30)
	seen := map[string]bool{}
	for _, root := range a.Roots {
		if !accessorNames[root.Fn.Name()] || root.Sum == nil {
			continue
		}
		seen[root.Fn.Name()] = true
		for _, o := range root.Sum.SortedOutcomes() {
			construct := shortFn(root.Fn.String()) + " / receiver"
			if root.Value {
				// by-value receiver: the caller's object is not reachable at all.
				r.Ok(fmt.Sprintf("%s [%s]: value receiver, caller's object unreachable", shortFn(root.Fn.String()), root.Entry))
				continue
			}
			s, mk, vu, dirty, ok := readBuf(o.Heap, "in0", "")
			if ok && dirty == "F" && s == root.Entry && mk == "" && vu == "ok" {
				r.Ok(fmt.Sprintf("%s [%s]: receiver untouched", shortFn(root.Fn.String()), root.Entry))
			} else {
				r.Fail(construct, c.P.Pos(root.Fn.Pos()), fmt.Sprintf("accessor writes the receiver: exit [%s dirty=%s]", s, dirty), nil, "entry: "+root.Entry.String())
			}
		}
	}
	for n := range accessorNames {
		if !seen[n] {
			r.Fail("buffer.Buffer."+n, "internal/buffer/buffer.go", "accessor "+n+" not found among the exported methods of Buffer", nil, "")
		}
	}
	return []*report.Result{r}
}

// ruleC13c: Reset and Take* end in the configuration of the zero Buffer.
func ruleC13c(c *Ctx) []*report.Result {
	a := c.ABuf()
	r := report.NewResult("C13.c", "Reset, TakeRedactableString, TakeRedactableBytes exit in the zero configuration (mode=Unsafe, markerOpen=false, nothing pending, empty, validUntil re-established) from every entry configuration", 30)
	pristine := bufState{0, false, "none", "T"}
	n := map[string]int{}
	for _, root := range a.Roots {
		nm := root.Fn.Name()
		if nm != "Reset" && nm != "TakeRedactableString" && nm != "TakeRedactableBytes" {
			continue
		}
		if root.Sum == nil {
			continue
		}
		for _, o := range root.Sum.SortedOutcomes() {
			n[nm]++
			s, mk, vu, _, ok := readBuf(o.Heap, "in0", "")
			if ok && s == pristine && mk == "" && vu == "ok" {
				r.Ok(fmt.Sprintf("%s [%s] -> zero configuration", nm, root.Entry))
			} else {
				r.Fail(shortFn(root.Fn.String())+" / exit", c.P.Pos(root.Fn.Pos()), fmt.Sprintf("exit [%s mk=%s vu=%s] is not the zero configuration", s, mk, vu), nil, "entry: "+root.Entry.String())
			}
		}
	}
	for _, nm := range []string{"Reset", "TakeRedactableString", "TakeRedactableBytes"} {
		if n[nm] == 0 {
			r.Fail("buffer.Buffer."+nm, "internal/buffer/buffer.go", "method not found or has no exit", nil, "")
		}
	}
	return []*report.Result{r}
}

// ruleC13b: ownership transfer. A function that hands the buffer's bytes to
// its caller without copying (Take*) must drop its own reference to the
// backing array, otherwise later writes modify the result already returned.
func ruleC13b(c *Ctx) []*report.Result {
	a := c.ABuf()
	r := report.NewResult("C13.b", "every exported pointer-receiver method that hands out the buffer's bytes without copying (the slice itself, or the slice header reinterpreted as a string) assigns nil to the buffer field on every path before returning, for every entry configuration: the result never shares storage with later writes", 20)
	found := map[string]bool{}
	for _, root := range a.Roots {
		if root.Value || root.Sum == nil {
			continue
		}
		if !handsOutWithoutCopy(root.Fn) {
			continue
		}
		found[root.Fn.Name()] = true
		for _, o := range root.Sum.SortedOutcomes() {
			d, _ := constStr(o.Heap.Get("in0", "#dropped"))
			if d == "T" {
				r.Ok(fmt.Sprintf("%s [%s]: backing array released", root.Fn.Name(), root.Entry))
			} else {
				r.Fail(shortFn(root.Fn.String())+" / keeps the backing array", c.P.Pos(root.Fn.Pos()), "the bytes handed to the caller stay referenced by the buffer (buf is not set to nil): a later write overwrites the result already returned", nil, "entry: "+root.Entry.String())
			}
		}
	}
	if len(found) < 2 {
		r.Undecide(fmt.Sprintf("found %d zero-copy hand-out methods (floor 2: the two Take*)", len(found)))
	}
	return []*report.Result{r}
}

// handsOutWithoutCopy: fn returns a value derived from the receiver's buf
// slice by ChangeType only, or converts the address of buf to unsafe.Pointer.
func handsOutWithoutCopy(fn *ssa.Function) bool {
	return handsOut(fn, 0)
}

func handsOut(fn *ssa.Function, depth int) bool {
	// through a helper of the same receiver that does
	if depth < 3 && len(fn.Params) > 0 {
		for _, b := range fn.Blocks {
			for _, ins := range b.Instrs {
				if call, ok := ins.(*ssa.Call); ok {
					g := call.Common().StaticCallee()
					if g != nil && g != fn && g.Blocks != nil && len(call.Common().Args) > 0 && call.Common().Args[0] == ssa.Value(fn.Params[0]) && g.Signature.Recv() != nil && g.Signature.Results().Len() > 0 && handsOut(g, depth+1) {
						return true
					}
				}
			}
		}
	}
	isBufLoad := func(v ssa.Value) bool {
		u, ok := v.(*ssa.UnOp)
		if !ok {
			return false
		}
		fa, ok := u.X.(*ssa.FieldAddr)
		return ok && fieldName(fa) == "buf" && fa.X == ssa.Value(fn.Params[0])
	}
	for _, b := range fn.Blocks {
		for _, ins := range b.Instrs {
			switch x := ins.(type) {
			case *ssa.Return:
				for _, res := range x.Results {
					v := res
					for {
						if ct, ok := v.(*ssa.ChangeType); ok {
							v = ct.X
							continue
						}
						break
					}
					if isBufLoad(v) {
						return true
					}
				}
			case *ssa.Convert:
				if fa, ok := x.X.(*ssa.FieldAddr); ok && fieldName(fa) == "buf" && fa.X == ssa.Value(fn.Params[0]) {
					if b, ok := x.Type().Underlying().(*types.Basic); ok && b.Kind() == types.UnsafePointer {
						return true
					}
				}
			}
		}
	}
	return false
}

func init() { register("C09.h", ruleC09h) }

// ruleC09h: selecting the mode already in force is the identity. The mode
// setter is how the writer layer separates payloads; escaping is deferred to
// the moment the mode really changes (or the buffer is finalised) so that a
// payload split over several writes is escaped as a whole. A mode "change" to
// the current mode that validated, closed or re-opened anything would cut a
// payload at that point (a marker or a multi-byte character split across two
// writes of the same side is then escaped piecewise).
func ruleC09h(c *Ctx) []*report.Result {
	a := c.ABuf()
	r := report.NewResult("C09.h", "the mode setter of Buffer (the exported pointer-receiver method taking an OutputMode), called with the mode already in force, writes nothing: for every entry configuration the receiver is untouched, pending bytes stay pending", 4)
	n := 0
	for _, root := range a.Roots {
		if root.Value || root.Sum == nil || len(root.Args) != 2 || len(root.Fn.Params) != 2 {
			continue
		}
		if namedOf(root.Fn.Params[1].Type()) != pkgBuffer+".OutputMode" {
			continue
		}
		m, ok := constInt(root.Args[1])
		if !ok || m != root.Entry.Mode {
			continue
		}
		for _, o := range root.Sum.SortedOutcomes() {
			n++
			s, mk, vu, dirty, ok := readBuf(o.Heap, "in0", "")
			if ok && dirty == "F" && s == root.Entry && mk == "" && vu == "ok" {
				r.Ok(fmt.Sprintf("%s(%s) [%s]: identity", root.Fn.Name(), modeNames[m], root.Entry))
			} else {
				r.Fail(shortFn(root.Fn.String())+" / same mode", c.P.Pos(root.Fn.Pos()), fmt.Sprintf("selecting the mode already in force changes the buffer: exit [%s dirty=%s mk=%s vu=%s] — the pending payload is cut at this point", s, dirty, mk, vu), nil, "entry: "+root.Entry.String())
			}
		}
	}
	if n == 0 {
		r.Undecide("no mode setter called with the current mode among the A-buf roots")
	}
	return []*report.Result{r}
}
