package rules

import (
	"fmt"
	"sort"
)

// Extra returns run-wide evidence fields.
func (c *Ctx) Extra() map[string]interface{} {
	m := map[string]interface{}{
		"packages":  len(c.P.Pkgs),
		"functions": len(c.P.ModuleFunctions()),
	}
	if c.abuf != nil {
		m["abuf_summaries"] = len(c.abuf.It.Summaries)
		m["abuf_states"] = c.abuf.It.States
		m["abuf_events"] = len(c.abuf.It.Events)
		m["abuf_rounds"] = c.abuf.It.Rounds()
	}
	return m
}

// Debug dumps an engine run.
func Debug(c *Ctx, what string) {
	switch what {
	case "lent":
		DebugLent(c)
	case "stats":
		SummaryStats(c)
	case "afmt":
		a := c.AFmt()
		lab := c.Labels()
		fmt.Println("summaries", len(a.It.Summaries), "states", a.It.States, "steps", a.It.Steps, "rounds", a.It.Rounds(), "undecided", a.It.Undecided)
		for _, r := range a.Roots {
			fmt.Printf("ROOT %s [%s]\n", r.Fn, r.Entry)
			if r.Sum == nil {
				fmt.Println("   no summary")
				continue
			}
			for _, o := range r.Sum.SortedOutcomes() {
				fmt.Printf("   -> exc=%v ret=%s heap=%s\n", o.Exc, o.Ret.Key(), o.Heap)
			}
		}
		var ks []string
		for k := range a.It.Events {
			ks = append(ks, k)
		}
		sort.Strings(ks)
		for _, k := range ks {
			e := a.It.Events[k]
			ls := ""
			for _, v := range e.Args {
				ls += lab.Of(v).String() + ","
			}
			fmt.Printf("EV %s %s %s %v labels=[%s]\n", e.Kind, c.P.Pos(e.Instr.Pos()), shortFn(e.Fn.String()), e.Detail, ls)
		}
	case "abuf":
		a := c.ABuf()
		fmt.Println("summaries", len(a.It.Summaries), "states", a.It.States, "steps", a.It.Steps, "rounds", a.It.Rounds(), "undecided", a.It.Undecided)
		for _, r := range a.Roots {
			fmt.Printf("ROOT %s [%s]\n", r.Fn, r.Entry)
			if r.Sum == nil {
				fmt.Println("   no summary")
				continue
			}
			for _, o := range r.Sum.SortedOutcomes() {
				fmt.Printf("   -> exc=%v ret=%s heap=%s\n", o.Exc, o.Ret.Key(), o.Heap)
			}
		}
		var ks []string
		for k := range a.It.Events {
			ks = append(ks, k)
		}
		sort.Strings(ks)
		for _, k := range ks {
			e := a.It.Events[k]
			fmt.Printf("EV %s %s ok=%s cfg=%s :: %s\n", e.Kind, c.P.Pos(e.Instr.Pos()), e.Detail["ok"], e.Detail["cfg"], e.Detail["what"])
		}
	}
}

// SummaryStats prints the number of summaries per function.
func SummaryStats(c *Ctx) {
	a := c.AFmt()
	cnt := map[string]int{}
	for _, s := range a.It.Summaries {
		cnt[shortFn(s.Fn.String())]++
	}
	type kv struct {
		k string
		v int
	}
	var l []kv
	for k, v := range cnt {
		l = append(l, kv{k, v})
	}
	sort.Slice(l, func(i, j int) bool { return l[i].v > l[j].v })
	for i, e := range l {
		if i > 15 {
			break
		}
		fmt.Println(e.v, e.k)
	}
	l = nil
	for k, v := range a.It.StatesByFn {
		l = append(l, kv{shortFn(k), v})
	}
	sort.Slice(l, func(i, j int) bool { return l[i].v > l[j].v })
	fmt.Println("states by function:")
	for i, e := range l {
		if i > 25 {
			break
		}
		fmt.Println(e.v, e.k)
	}
}

// DebugLent lists summaries whose entry has the #lent ghost but one outcome lacks it.
func DebugLent(c *Ctx) {
	a := c.AFmt()
	n := 0
	for _, k := range sortedSummaryKeys(a.It) {
		s := a.It.Summaries[k]
		for id, o := range s.Entry {
			for path := range o.Fields {
				if len(path) > 5 && path[len(path)-5:] == "#lent" {
					for _, out := range s.SortedOutcomes() {
						if oo := out.Heap[id]; oo != nil {
							if _, ok := oo.Fields[path]; !ok {
								n++
								if n < 12 {
									fmt.Printf("%s: entry has %s/%s, outcome lacks it (exc=%v)\n", shortFn(s.Fn.String()), id, path, out.Exc)
								}
							}
						}
					}
				}
			}
		}
	}
	fmt.Println("total", n)
	cnt := map[string]int{}
	for _, k := range sortedSummaryKeys(a.It) {
		s := a.It.Summaries[k]
		check := func(h map[string]*engineObject, where string) {}
		_ = check
		for _, out := range s.SortedOutcomes() {
			for _, oo := range out.Heap {
				if namedOf(oo.Type) == tPP {
					if _, ok := oo.Fields["buf.Buffer.#lent"]; !ok {
						cnt[shortFn(s.Fn.String())+" (outcome)"]++
					}
				}
			}
		}
		for _, oo := range s.Entry {
			if namedOf(oo.Type) == tPP {
				if _, ok := oo.Fields["buf.Buffer.#lent"]; !ok {
					cnt[shortFn(s.Fn.String())+" (entry)"]++
				}
			}
		}
	}
	for k, v := range cnt {
		fmt.Println(v, k)
	}
}

type engineObject = struct{}
