package rules

import (
	"go/token"
	"go/types"
	"strings"

	"golang.org/x/tools/go/ssa"
)

// Engine B: payload provenance. A context-insensitive, flow-insensitive
// explicit-flow propagation over the SSA values of the module.

type Label int

const (
	LBot   Label = iota
	LLit         // constants and package-level literals
	LFmt         // the format string and what is cut from it (verbs)
	LType        // type information obtained through reflection
	LPub         // join of different public labels
	LRedOp       // redactable operand (static type RedactableString/Bytes)
	LRedTk       // redactable taken from a buffer (Take*/Redactable*)
	LTaint       // derived from an operand, a payload parameter, user code, recover()
)

func (l Label) String() string {
	return [...]string{"bot", "literal", "format", "typeinfo", "public", "redactable-operand", "redactable-taken", "tainted"}[l]
}

func (l Label) Public() bool { return l == LLit || l == LFmt || l == LType || l == LPub || l == LBot }
func (l Label) Red() bool    { return l == LRedOp || l == LRedTk }

func join(a, b Label) Label {
	if a == b {
		return a
	}
	if a == LBot {
		return b
	}
	if b == LBot {
		return a
	}
	if a == LTaint || b == LTaint {
		return LTaint
	}
	if a.Red() || b.Red() {
		if a.Red() && b.Red() {
			return LRedOp
		}
		return LTaint
	}
	return LPub
}

type fieldKey struct {
	typ   string
	field string
}

// Labels is the result of Engine B.
type Labels struct {
	c       *Ctx
	val     map[ssa.Value]Label
	fields  map[fieldKey]Label
	rets    map[*ssa.Function]Label
	globals map[*ssa.Global]types.Type // globals initialised to reflect.TypeOf(x): static type of x
	fns     []*ssa.Function
	changed bool
	Notes   []string
}

func (c *Ctx) Labels() *Labels {
	if c.lab != nil {
		return c.lab
	}
	l := &Labels{c: c, val: map[ssa.Value]Label{}, fields: map[fieldKey]Label{}, rets: map[*ssa.Function]Label{}, globals: map[*ssa.Global]types.Type{}}
	l.fns = c.P.ModuleFunctions()
	l.findTypeGlobals()
	l.seed()
	for i := 0; i < 100; i++ {
		l.changed = false
		for _, fn := range l.fns {
			l.flow(fn)
		}
		if !l.changed {
			break
		}
	}
	c.lab = l
	return l
}

// Of returns the label of v.
func (l *Labels) Of(v ssa.Value) Label {
	if isRedactableType(v.Type()) {
		// the static type decides; Take*/Redactable* results are "taken"
		if call, ok := v.(*ssa.Call); ok {
			if f := call.Common().StaticCallee(); f != nil {
				name := f.String()
				if strings.HasPrefix(name, "(*"+pkgBuffer+".Buffer).Take") || strings.HasPrefix(name, "("+pkgBuffer+".Buffer).Redactable") {
					return LRedTk
				}
			}
		}
		return LRedOp
	}
	switch x := v.(type) {
	case *ssa.Const:
		return LLit
	case *ssa.Global:
		return LLit
	case *ssa.Function, *ssa.Builtin:
		return LLit
	default:
		_ = x
	}
	return l.val[v]
}

func (l *Labels) set(v ssa.Value, lab Label) {
	old := l.val[v]
	n := join(old, lab)
	if n != old {
		l.val[v] = n
		l.changed = true
	}
}

func isRedactableType(t types.Type) bool {
	n := namedOf(t)
	return n == pkgMarkers+".RedactableString" || n == pkgMarkers+".RedactableBytes"
}

// findTypeGlobals records globals G initialised as reflect.TypeOf(x).
func (l *Labels) findTypeGlobals() {
	for _, sp := range l.c.P.SSA {
		if !strings.HasPrefix(sp.Pkg.Path(), "github.com/cockroachdb/redact") {
			continue
		}
		init := sp.Func("init")
		if init == nil {
			continue
		}
		for _, b := range init.Blocks {
			for _, ins := range b.Instrs {
				st, ok := ins.(*ssa.Store)
				if !ok {
					continue
				}
				g, ok := st.Addr.(*ssa.Global)
				if !ok {
					continue
				}
				call, ok := st.Val.(*ssa.Call)
				if !ok {
					continue
				}
				if f := call.Common().StaticCallee(); f != nil && f.String() == "reflect.TypeOf" {
					if mi, ok := call.Common().Args[0].(*ssa.MakeInterface); ok {
						l.globals[g] = mi.X.Type()
					}
				}
			}
		}
	}
}

// TypeGlobal returns the static type a global reflect.Type variable denotes.
func (l *Labels) TypeGlobal(g *ssa.Global) types.Type { return l.globals[g] }

// seed labels the parameters of exported entry points.
func (l *Labels) seed() {
	for _, fn := range l.fns {
		if fn.Parent() != nil {
			continue
		}
		obj := fn.Object()
		if obj == nil || !obj.Exported() {
			continue
		}
		sig := fn.Signature
		params := fn.Params
		off := 0
		if sig.Recv() != nil {
			off = 1
		}
		np := sig.Params().Len()
		for i := 0; i < np; i++ {
			p := params[off+i]
			t := p.Type()
			lab := LTaint
			// printf convention: the string parameter right before a final
			// ...interface{} parameter is the format.
			if sig.Variadic() && i == np-2 {
				if b, ok := t.Underlying().(*types.Basic); ok && b.Kind() == types.String {
					if sl, ok := sig.Params().At(np - 1).Type().(*types.Slice); ok {
						if _, isIface := sl.Elem().Underlying().(*types.Interface); isIface {
							lab = LFmt
						}
					}
				}
			}
			if isRedactableType(t) {
				lab = LRedOp
			}
			l.set(p, lab)
		}
	}
}

func (l *Labels) fieldLabel(k fieldKey) Label { return l.fields[k] }

func (l *Labels) setField(k fieldKey, lab Label) {
	old := l.fields[k]
	n := join(old, lab)
	if n != old {
		l.fields[k] = n
		l.changed = true
	}
}

func fieldKeyOf(fa *ssa.FieldAddr) fieldKey {
	pt := fa.X.Type().Underlying().(*types.Pointer).Elem()
	st := pt.Underlying().(*types.Struct)
	return fieldKey{pt.String(), st.Field(fa.Field).Name()}
}

var shapeObservers = map[string]bool{
	"Kind": true, "Len": true, "NumField": true, "IsNil": true, "IsValid": true, "CanInterface": true, "CanAddr": true, "Cap": true,
}

func (l *Labels) flow(fn *ssa.Function) {
	for _, b := range fn.Blocks {
		for _, ins := range b.Instrs {
			switch ins := ins.(type) {
			case *ssa.Phi:
				for _, e := range ins.Edges {
					l.set(ins, l.Of(e))
				}
			case *ssa.UnOp:
				if ins.Op == token.MUL {
					l.set(ins, l.loadLabel(ins.X))
				} else {
					l.set(ins, l.Of(ins.X))
				}
			case *ssa.BinOp:
				l.set(ins, join(l.Of(ins.X), l.Of(ins.Y)))
			case *ssa.Convert:
				l.set(ins, l.Of(ins.X))
			case *ssa.ChangeType:
				l.set(ins, l.Of(ins.X))
			case *ssa.ChangeInterface:
				l.set(ins, l.Of(ins.X))
			case *ssa.MakeInterface:
				l.set(ins, l.Of(ins.X))
			case *ssa.TypeAssert:
				l.set(ins, l.Of(ins.X))
			case *ssa.Extract:
				l.set(ins, l.Of(ins.Tuple))
			case *ssa.Index:
				l.set(ins, l.Of(ins.X))
			case *ssa.IndexAddr:
				l.set(ins, l.Of(ins.X))
			case *ssa.Lookup:
				l.set(ins, l.Of(ins.X))
			case *ssa.Slice:
				l.set(ins, l.Of(ins.X))
			case *ssa.Field:
				l.set(ins, l.Of(ins.X))
			case *ssa.FieldAddr:
				// label of the address = label of the field content
				l.set(ins, l.fieldLabel(fieldKeyOf(ins)))
			case *ssa.Range:
				l.set(ins, l.Of(ins.X))
			case *ssa.Next:
				l.set(ins, l.Of(ins.Iter))
			case *ssa.MakeClosure:
				for i, bnd := range ins.Bindings {
					f := ins.Fn.(*ssa.Function)
					if i < len(f.FreeVars) {
						l.set(f.FreeVars[i], l.Of(bnd))
					}
				}
			case *ssa.Store:
				lab := l.Of(ins.Val)
				switch a := ins.Addr.(type) {
				case *ssa.FieldAddr:
					l.setField(fieldKeyOf(a), lab)
				case *ssa.Alloc:
					l.set(a, lab)
				case *ssa.IndexAddr:
					l.set(a.X, lab)
					if al, ok := a.X.(*ssa.Alloc); ok {
						l.set(al, lab)
					}
				}
			case *ssa.Return:
				for _, r := range ins.Results {
					old := l.rets[fn]
					n := join(old, l.Of(r))
					if n != old {
						l.rets[fn] = n
						l.changed = true
					}
				}
			case ssa.CallInstruction:
				l.flowCall(fn, ins)
			}
		}
	}
}

func (l *Labels) loadLabel(addr ssa.Value) Label {
	switch a := addr.(type) {
	case *ssa.FieldAddr:
		return l.fieldLabel(fieldKeyOf(a))
	case *ssa.Alloc:
		return l.val[a]
	case *ssa.IndexAddr:
		return l.Of(a.X)
	case *ssa.Global:
		return LLit
	}
	return l.Of(addr)
}

func (l *Labels) flowCall(fn *ssa.Function, ins ssa.CallInstruction) {
	c := ins.Common()
	v, _ := ins.(ssa.Value)
	argJoin := LBot
	for _, a := range c.Args {
		argJoin = join(argJoin, l.Of(a))
	}
	if c.IsInvoke() {
		recvT := c.Value.Type()
		res := LTaint
		if sealed(recvT) {
			res = LType
		}
		if v != nil {
			l.set(v, res)
		}
		// in-module implementations receive the arguments
		l.flowToImplementations(c)
		return
	}
	switch callee := c.Value.(type) {
	case *ssa.Builtin:
		if v == nil {
			return
		}
		switch callee.Name() {
		case "recover":
			l.set(v, LTaint)
		case "len", "cap":
			l.set(v, LLit) // shape, not content
		case "append", "copy":
			l.set(v, argJoin)
			// append(dst, src...) taints dst's origin when it is a local
			if len(c.Args) > 0 {
				if al, ok := c.Args[0].(*ssa.Alloc); ok {
					l.set(al, argJoin)
				}
			}
		default:
			l.set(v, argJoin)
		}
	case *ssa.Function:
		if l.c.P.InModule(callee) && callee.Blocks != nil {
			for i, a := range c.Args {
				if i < len(callee.Params) {
					l.set(callee.Params[i], l.Of(a))
				}
			}
			if v != nil {
				l.set(v, l.rets[callee])
			}
			return
		}
		if v == nil {
			return
		}
		name := callee.String()
		switch {
		case name == "reflect.TypeOf":
			l.set(v, LType)
		case strings.HasPrefix(name, "(reflect.Value)."):
			m := callee.Name()
			switch {
			case m == "Type":
				l.set(v, LType)
			case shapeObservers[m]:
				l.set(v, LLit)
			case (m == "String" || m == "Bytes") && l.redactableArm(fn, ins):
				l.set(v, LRedOp)
			default:
				l.set(v, argJoin)
			}
		case strings.HasPrefix(name, "(*reflect.rtype).") || strings.HasPrefix(name, "(reflect.StructField)."):
			l.set(v, LType)
		default:
			l.set(v, argJoin)
		}
	case *ssa.MakeClosure:
		f := callee.Fn.(*ssa.Function)
		for i, a := range c.Args {
			if i < len(f.Params) {
				l.set(f.Params[i], l.Of(a))
			}
		}
		if v != nil {
			l.set(v, l.rets[f])
		}
	default:
		// call of a func-typed value: user code
		if v != nil {
			l.set(v, LTaint)
		}
	}
}

func sealed(t types.Type) bool {
	it, ok := t.Underlying().(*types.Interface)
	if !ok {
		return false
	}
	for i := 0; i < it.NumMethods(); i++ {
		if !it.Method(i).Exported() {
			return true
		}
	}
	return false
}

// flowToImplementations passes argument labels to every in-module method
// that can be the target of the interface call (CHA over module types).
func (l *Labels) flowToImplementations(c *ssa.CallCommon) {
	iface, ok := c.Value.Type().Underlying().(*types.Interface)
	if !ok {
		return
	}
	for _, fn := range l.fns {
		if fn.Signature.Recv() == nil || fn.Name() != c.Method.Name() || fn.Parent() != nil {
			continue
		}
		rt := fn.Signature.Recv().Type()
		if !types.Implements(rt, iface) {
			continue
		}
		// Params[0] is the receiver.
		l.set(fn.Params[0], l.Of(c.Value))
		for i, a := range c.Args {
			if i+1 < len(fn.Params) {
				l.set(fn.Params[i+1], l.Of(a))
			}
		}
	}
}

// redactableArm implements the dedicated correlation rule of DESIGN §3 B:
// a (reflect.Value).String()/Bytes() call on parameter `value` lies in a
// block dominated by the true edge of `t == G`, G a global denoting a
// redactable type, and every static call site of the function passes
// X.Type() for t with the same X it passes for value.
func (l *Labels) redactableArm(fn *ssa.Function, ins ssa.CallInstruction) bool {
	c := ins.Common()
	if len(c.Args) == 0 {
		return false
	}
	valueParam, ok := c.Args[0].(*ssa.Parameter)
	if !ok {
		return false
	}
	blk := ins.Block()
	for _, b := range fn.Blocks {
		iff, ok := b.Instrs[len(b.Instrs)-1].(*ssa.If)
		if !ok {
			continue
		}
		bo, ok := iff.Cond.(*ssa.BinOp)
		if !ok || bo.Op != token.EQL {
			continue
		}
		tparam, g := matchTypeEq(bo)
		if tparam == nil || g == nil {
			continue
		}
		if !isRedactableType(l.globals[g]) {
			continue
		}
		thenB := b.Succs[0]
		if !(thenB == blk || thenB.Dominates(blk)) || len(thenB.Preds) != 1 {
			continue
		}
		if l.typeOperandOf(fn, valueParam, tparam) {
			return true
		}
	}
	return false
}

// matchTypeEq: the comparison is <type operand> == *<type variable>; the type
// operand is a parameter or a value computed in the function.
func matchTypeEq(bo *ssa.BinOp) (ssa.Value, *ssa.Global) {
	try := func(x, y ssa.Value) (ssa.Value, *ssa.Global) {
		switch x.(type) {
		case *ssa.Parameter, *ssa.Call:
		default:
			return nil, nil
		}
		u, ok := y.(*ssa.UnOp)
		if !ok || u.Op != token.MUL {
			return nil, nil
		}
		g, ok := u.X.(*ssa.Global)
		if !ok {
			return nil, nil
		}
		return x, g
	}
	if p, g := try(bo.X, bo.Y); p != nil {
		return p, g
	}
	return try(bo.Y, bo.X)
}

// typeOperandOf: the type operand denotes the (static) type of the value
// parameter — it is value.Type() computed in place, or a parameter for which
// every caller passes value.Type().
func (l *Labels) typeOperandOf(fn *ssa.Function, valueParam *ssa.Parameter, top ssa.Value) bool {
	switch t := top.(type) {
	case *ssa.Call:
		f := t.Common().StaticCallee()
		return f != nil && f.String() == "(reflect.Value).Type" && t.Common().Args[0] == ssa.Value(valueParam)
	case *ssa.Parameter:
		return l.paramsCorrelated(fn, valueParam, t)
	}
	return false
}

// paramsCorrelated checks every static call site of fn.
func (l *Labels) paramsCorrelated(fn *ssa.Function, valueParam, tparam *ssa.Parameter) bool {
	vi, ti := -1, -1
	for i, p := range fn.Params {
		if p == valueParam {
			vi = i
		}
		if p == tparam {
			ti = i
		}
	}
	if vi < 0 || ti < 0 {
		return false
	}
	sites := 0
	for _, caller := range l.fns {
		for _, b := range caller.Blocks {
			for _, ins := range b.Instrs {
				ci, ok := ins.(ssa.CallInstruction)
				if !ok || ci.Common().StaticCallee() != fn {
					continue
				}
				sites++
				args := ci.Common().Args
				tc, ok := args[ti].(*ssa.Call)
				if !ok {
					return false
				}
				f := tc.Common().StaticCallee()
				if f == nil || f.String() != "(reflect.Value).Type" || tc.Common().Args[0] != args[vi] {
					return false
				}
			}
		}
	}
	return sites > 0
}

// CorrelatedSites returns the number of call sites checked by the
// correlation rule for fn (0 if the rule does not apply).
func (l *Labels) CorrelatedSites(fn *ssa.Function) int {
	n := 0
	for _, caller := range l.fns {
		for _, b := range caller.Blocks {
			for _, ins := range b.Instrs {
				if ci, ok := ins.(ssa.CallInstruction); ok && ci.Common().StaticCallee() == fn {
					n++
				}
			}
		}
	}
	return n
}
