package rules

import (
	"fmt"
	"go/constant"
	"go/types"
	"strings"

	"golang.org/x/tools/go/ssa"

	"redactverif/engine"
	"redactverif/report"
)

func init() {
	register("C01.b", ruleC01b)
	register("C01.d", ruleC01d)
	register("C01.e", ruleC05b) // literals go through an escaped mode
	register("C02.a", ruleC02a)
	register("C05.b", ruleC05b)
	register("C05.c", ruleC05c)
	register("C06.a", ruleC06a)
	register("C06.c", ruleC06c)
	register("C08.a", ruleC08a)
	register("C11.c", ruleC11c)
	register("C12.b", ruleC12b)
	register("C12.d", ruleC12d)
	register("C06.e", ruleC06e)
	register("C08.b", ruleC08b)
}

// writeEvent is a decoded "write" event.
type writeEvent struct {
	e        *engine.Event
	mode     string
	ctx      string
	override string
	owner    string
	label    Label
	callee   string
	pos      string
	litConst string // the literal payload when it is a single constant string
}

func (w writeEvent) eff() string {
	if w.ctx != "" && w.ctx != "none" {
		return w.ctx
	}
	return w.override
}

func (w writeEvent) cfg() string {
	return fmt.Sprintf("mode=%s override=%s ctx=%s payload=%s", w.mode, w.override, w.ctx, w.label)
}

func (w writeEvent) construct() string {
	k := shortFn(w.e.Fn.String()) + " / " + w.callee
	if w.litConst != "" {
		k += " const " + w.litConst
	}
	return k
}

func (c *Ctx) writeEvents() []writeEvent {
	a := c.AFmt()
	lab := c.Labels()
	var out []writeEvent
	for _, e := range eventsOf(a.It, "write") {
		w := writeEvent{e: e, mode: e.Detail["mode"], ctx: e.Detail["ctx"], override: e.Detail["override"], owner: e.Detail["owner"], callee: e.Detail["callee"]}
		w.pos = c.P.Pos(e.Instr.Pos())
		l := LBot
		for _, v := range e.Args {
			l = join(l, lab.Of(v))
		}
		if len(e.Args) == 0 {
			l = LTaint // issued by code outside the module
		}
		w.label = l
		if len(e.Args) == 1 {
			if cv, ok := e.Args[0].(*ssa.Const); ok && cv.Value != nil && cv.Value.Kind() == constant.String {
				w.litConst = constant.StringVal(cv.Value)
			}
		}
		out = append(out, w)
	}
	return out
}

func (c *Ctx) fmtAnalysed() string {
	a := c.AFmt()
	return fmt.Sprintf("A-fmt: %d entry points, %d summaries, %d abstract states, %d events, %d fixpoint rounds", len(a.Roots), len(a.It.Summaries), a.It.States, len(a.It.Events), a.It.Rounds())
}

func (c *Ctx) finish(r *report.Result) *report.Result {
	r.Analysed = c.fmtAnalysed()
	for _, u := range c.AFmt().It.Undecided {
		r.Undecide(u)
	}
	return r
}

// C01.b raw-mode confinement: what is written in SafeRaw mode is redactable.
func ruleC01b(c *Ctx) []*report.Result {
	r := report.NewResult("C01.b", "every write event reachable in mode SafeRaw has a redactable payload (static type RedactableString/Bytes, or taken from a finished buffer)", 5)
	for _, w := range c.writeEvents() {
		if w.mode != "SafeRaw" {
			continue
		}
		if w.label.Red() {
			r.Ok(w.construct() + " @" + w.pos + " [" + w.cfg() + "]")
		} else {
			r.Fail(w.construct(), w.pos, "payload labelled "+w.label.String()+" is written in raw mode: its marker bytes would be taken as delimiters", w.e.Chain, w.cfg())
		}
	}
	return []*report.Result{c.finish(r)}
}

// C02.a: nothing operand-derived is written outside an envelope.
func ruleC02a(c *Ctx) []*report.Result {
	r := report.NewResult("C02.a", "every write event of the printer with a tainted payload happens in mode UnsafeEscaped, or under override=safe (declared safe by an enclosing wrapper / SafeValue / registered type / Safe* emitter)", 60)
	sites := map[string]bool{}
	for _, w := range c.writeEvents() {
		if w.owner != tPP || w.label != LTaint {
			continue
		}
		sites[w.pos] = true
		if w.mode == "UnsafeEscaped" || w.override == "safe" {
			r.Ok(w.construct() + " @" + w.pos + " [" + w.cfg() + "]")
		} else {
			r.Fail(w.construct(), w.pos, "operand-derived payload written in mode "+w.mode+" without a safe override: it lands outside the redaction markers", w.e.Chain, w.cfg())
		}
	}
	r.Note(fmt.Sprintf("%d distinct tainted write sites", len(sites)))
	if len(sites) < 30 {
		r.Undecide(fmt.Sprintf("only %d tainted write sites found (floor 30): provenance labelling went vacuous", len(sites)))
	}
	return []*report.Result{c.finish(r)}
}

// exception of C05.b: the data-selected literal "<nil>" of fmtPointer.
func isNilPointerLiteral(w writeEvent) bool {
	return w.litConst == "<nil>" && strings.HasSuffix(w.e.Fn.String(), ".fmtPointer")
}

// C05.b / C01.e: public text is written in SafeEscaped mode.
func ruleC05b(c *Ctx) []*report.Result {
	r := report.NewResult("C05.b", "with no override in force (own override none, borrowed context not unsafe) every public (literal/format/typeinfo) write event of the printer is in mode SafeEscaped — never enveloped, never raw; single exception: the data-selected literal \"<nil>\" of fmtPointer", 100)
	for _, w := range c.writeEvents() {
		if w.owner != tPP || !w.label.Public() || w.override != "none" || w.ctx == "unsafe" {
			continue
		}
		if w.mode == "SafeEscaped" {
			r.Ok(w.construct() + " @" + w.pos + " [" + w.cfg() + "]")
		} else if w.mode == "UnsafeEscaped" && isNilPointerLiteral(w) {
			r.Ok(w.construct() + " (accepted exception: a nil pointer is a rendering of the operand)")
		} else {
			r.Fail(w.construct(), w.pos, "public text written in mode "+w.mode+": safe text is swallowed by an envelope (or written unescaped)", w.e.Chain, w.cfg())
		}
	}
	return []*report.Result{c.finish(r)}
}

// C05.c / C06.b: under override=safe everything stays visible.
func ruleC05c(c *Ctx) []*report.Result {
	r := report.NewResult("C05.c", "under the printer's own override=safe every write event is in mode SafeEscaped, or SafeRaw with a redactable payload: the full rendering of a safe value stays outside envelopes", 40)
	for _, w := range c.writeEvents() {
		if w.owner != tPP || w.override != "safe" {
			continue
		}
		if w.mode == "SafeEscaped" || (w.mode == "SafeRaw" && w.label.Red()) {
			r.Ok(w.construct() + " @" + w.pos + " [" + w.cfg() + "]")
		} else {
			r.Fail(w.construct(), w.pos, "write in mode "+w.mode+" under override=safe", w.e.Chain, w.cfg())
		}
	}
	return []*report.Result{c.finish(r)}
}

// C06.a: under an effective unsafe context everything is enveloped.
func ruleC06a(c *Ctx) []*report.Result {
	r := report.NewResult("C06.a", "every write event reachable with effective context unsafe (the override of the current or of any enclosing printer whose buffer is borrowed, outermost first) is in mode UnsafeEscaped", 40)
	for _, w := range c.writeEvents() {
		if w.owner != tPP || w.eff() != "unsafe" {
			continue
		}
		if w.mode == "UnsafeEscaped" {
			r.Ok(w.construct() + " @" + w.pos + " [" + w.cfg() + "]")
		} else {
			// construct key: when the context was lost by a nested printer,
			// the finding is the function that created it (one finding per
			// creation site, however many writes it affects).
			key := w.construct()
			if w.ctx == "unsafe" && w.override != "unsafe" {
				key = "nested printer without the caller's unsafe context"
				for i := len(w.e.Chain) - 1; i >= 0; i-- {
					fn := strings.SplitN(shortFn(w.e.Chain[i]), " ", 2)[0]
					if strings.HasPrefix(fn, "(*internal/rfmt.pp).Print") {
						key = "nested printer created in " + fn + " without the caller's unsafe context"
						break
					}
				}
			}
			r.Fail(key, w.pos, "write in mode "+w.mode+" although an enclosing Unsafe() is in force: part of Unsafe(x) is rendered outside envelopes", w.e.Chain, w.cfg())
		}
	}
	return []*report.Result{c.finish(r)}
}

// C08.a: redactable operands are inlined raw.
func ruleC08a(c *Ctx) []*report.Result {
	r := report.NewResult("C08.a", "every write event whose payload is a redactable operand is, outside an unsafe context, in mode SafeRaw and calls Buffer.Write/WriteString directly (no verb, width or precision applied); inside an unsafe context it is in mode UnsafeEscaped", 8)
	for _, w := range c.writeEvents() {
		if w.owner != tPP || w.label != LRedOp {
			continue
		}
		direct := strings.HasPrefix(w.callee, "(*internal/buffer.Buffer).Write")
		switch {
		case w.override == "unsafe" || (w.eff() == "unsafe" && w.mode == "UnsafeEscaped"):
			if w.mode == "UnsafeEscaped" {
				r.Ok(w.construct() + " [" + w.cfg() + "]")
			} else {
				r.Fail(w.construct(), w.pos, "redactable operand under Unsafe() written in mode "+w.mode, w.e.Chain, w.cfg())
			}
		case w.mode == "SafeRaw" && direct:
			r.Ok(w.construct() + " [" + w.cfg() + "]")
		case w.ctx == "unsafe":
			// covered by C06.a (nested printer); not double-reported here
			r.Ok(w.construct() + " [" + w.cfg() + "] (context loss is C06.a's finding)")
		default:
			r.Fail(w.construct(), w.pos, "redactable operand is not inlined raw (mode "+w.mode+", callee "+w.callee+"): it would be escaped again, re-enveloped or reformatted", w.e.Chain, w.cfg())
		}
	}
	return []*report.Result{c.finish(r)}
}

// balancedFns: functions that must leave (mode, override, ctx) as found.
func (c *Ctx) balancedFns() map[*ssa.Function]bool {
	res := map[*ssa.Function]bool{}
	pa := c.P.Func("internal/rfmt", "(*pp).printArg")
	if pa != nil {
		for f := range c.sccOf(pa) {
			if recvNamed(f) == tPP {
				res[f] = true
			}
		}
	}
	for _, f := range c.P.ModuleFunctions() {
		if recvNamed(f) == tPP && f.Object() != nil && f.Object().Exported() && f.Parent() == nil {
			res[f] = true
		}
	}
	return res
}

func ppState(h engine.Heap, obj string) string {
	return fmt.Sprintf("mode=%s override=%s ctx=%s", modeName(h.Get(obj, "buf.Buffer.mode")), overrideName(h.Get(obj, "override")), strOf(h.Get(obj, "buf.Buffer.#ctx")))
}

func strOf(v engine.AbsVal) string {
	if s, ok := constStr(v); ok {
		return s
	}
	return v.Key()
}

// C01.d / C05.d / C05.f / C11.d: classification restored on every exit.
func ruleC01d(c *Ctx) []*report.Result {
	a := c.AFmt()
	r := report.NewResult("C01.d", "every function of the printArg recursion and every exported method of the printer leaves (buffer mode, override, borrowed context) exactly as it found them, on every normal and every panicking exit, for every reachable entry configuration", 150)
	bal := c.balancedFns()
	seen := map[*ssa.Function]int{}
	for _, k := range sortedSummaryKeys(a.It) {
		s := a.It.Summaries[k]
		if !bal[s.Fn] || len(s.Args) == 0 {
			continue
		}
		recv, ok := s.Args[0].(engine.Ptr)
		if !ok || recv.Path != "" {
			continue
		}
		entry := ppState(s.Entry, recv.Obj)
		for _, o := range s.SortedOutcomes() {
			seen[s.Fn]++
			exit := ppState(o.Heap, recv.Obj)
			kind := "normal"
			if o.Exc {
				kind = "panicking"
			}
			if exit == entry {
				r.Ok(fmt.Sprintf("%s [%s] %s exit", shortFn(s.Fn.String()), entry, kind))
			} else {
				r.Fail(shortFn(s.Fn.String())+" / "+kind+" exit", c.P.Pos(s.Fn.Pos()), fmt.Sprintf("%s exit with [%s], entered with [%s]: the classification leaks into the text that follows", kind, exit, entry), nil, "entry: "+cfgString(ppConfig(s.Entry, recv.Obj)))
			}
		}
	}
	// a restore deferred inside a loop does not run between the iterations
	for _, e := range eventsOf(a.It, "deferloop") {
		r.Fail(shortFn(e.Fn.String())+" / call deferred inside a loop", c.P.Pos(e.Instr.Pos()), "a call deferred inside a loop ("+e.Detail["callee"]+") runs only when the function returns, once per iteration: what it was meant to undo stays in force for the rest of the loop", nil, "")
	}
	n := 0
	for f := range bal {
		if seen[f] > 0 {
			n++
		}
	}
	r.Note(fmt.Sprintf("%d of %d balanced functions reached", n, len(bal)))
	if n < 25 {
		r.Undecide(fmt.Sprintf("only %d balanced functions reached (floor 25)", n))
	}
	return []*report.Result{c.finish(r)}
}

func sortedSummaryKeys(it *engine.Interp) []string {
	ks := make([]string, 0, len(it.Summaries))
	for k := range it.Summaries {
		ks = append(ks, k)
	}
	// deterministic: by function name then key
	sortStrings(ks)
	return ks
}

// C06.c outermost wins: behaviour of the four start* helpers.
func ruleC06c(c *Ctx) []*report.Result {
	a := c.AFmt()
	r := report.NewResult("C06.c", "the helpers returning a restorer: an override is installed only when none is active (outermost wins); startUnsafe leaves the mode alone under override=safe, startPreRedactable under override=unsafe; each returned restorer holds the entry (mode, override) and the same printer", 30)
	roles := map[string]*ssa.Function{}
	for _, k := range sortedSummaryKeys(a.It) {
		s := a.It.Summaries[k]
		if recvNamed(s.Fn) != tPP || !returnsRestorer(s.Fn) || len(s.Args) == 0 {
			continue
		}
		recv, ok := s.Args[0].(engine.Ptr)
		if !ok {
			continue
		}
		eMode, _ := constInt(s.Entry.Get(recv.Obj, "buf.Buffer.mode"))
		eOv, _ := constInt(s.Entry.Get(recv.Obj, "override"))
		for _, o := range s.SortedOutcomes() {
			xMode, _ := constInt(o.Heap.Get(recv.Obj, "buf.Buffer.mode"))
			xOv, _ := constInt(o.Heap.Get(recv.Obj, "override"))
			name := shortFn(s.Fn.String())
			cfg := fmt.Sprintf("entry mode=%s override=%s -> exit mode=%s override=%s", modeNames[eMode], overrideNames[eOv], modeNames[xMode], overrideNames[xOv])
			// role discovery from the override=none entry
			if eOv == 0 {
				role := ""
				switch {
				case xOv == 1 && xMode == 1:
					role = "safe-override"
				case xOv == 2 && xMode == 0:
					role = "unsafe-override"
				case xOv == 0 && xMode == 0:
					role = "unsafe"
				case xOv == 0 && xMode == 2:
					role = "pre-redactable"
				}
				if role == "" {
					r.Fail(name+" / role", c.P.Pos(s.Fn.Pos()), "helper has none of the four known effects from override=none: "+cfg, nil, cfg)
				} else {
					// several helpers may share a role (a generic helper
					// taking the override as a parameter and its two
					// one-line instances)
					roles[role] = s.Fn
					r.Ok(name + " is the " + role + " helper: " + cfg)
				}
			} else {
				okv := xOv == eOv
				switch {
				case eOv == 1: // safe in force
					// nobody may leave SafeEscaped/raw for Unsafe; pre-redactable may go raw
					okv = okv && (xMode == eMode || xMode == 2)
				case eOv == 2: // unsafe in force: mode must end Unsafe or unchanged
					okv = okv && (xMode == eMode || xMode == 0)
				}
				if okv {
					r.Ok(name + ": " + cfg)
				} else {
					r.Fail(name+" / outermost wins", c.P.Pos(s.Fn.Pos()), "an inner classification overrides the active one: "+cfg, nil, cfg)
				}
			}
			// the restorer value
			if sv, ok := o.Ret.(engine.StructV); ok {
				pm, ok1 := constInt(structLeaf(sv, "prevMode"))
				po, ok2 := constInt(structLeaf(sv, "prevOverride"))
				pp, ok3 := structLeaf(sv, "p").(engine.Ptr)
				if ok1 && ok2 && ok3 && pm == eMode && po == eOv && pp.Obj == recv.Obj {
					r.Ok(name + " restorer holds entry state: " + cfg)
				} else {
					r.Fail(name+" / restorer", c.P.Pos(s.Fn.Pos()), "returned restorer does not hold the entry (mode, override) of the same printer: "+sv.Key(), nil, cfg)
				}
			} else {
				r.Fail(name+" / restorer", c.P.Pos(s.Fn.Pos()), "returned restorer is not a known struct value", nil, cfg)
			}
		}
	}
	for _, role := range []string{"safe-override", "unsafe-override", "unsafe", "pre-redactable"} {
		if roles[role] == nil {
			r.Fail("rfmt / "+role+" helper", "internal/rfmt/helpers.go", "no helper with the "+role+" effect found", nil, "")
		}
	}
	return []*report.Result{c.finish(r)}
}

func structLeaf(sv engine.StructV, name string) engine.AbsVal {
	if v, ok := sv.Fields[name]; ok {
		return v
	}
	return engine.Top{}
}

func returnsRestorer(fn *ssa.Function) bool {
	res := fn.Signature.Results()
	return res.Len() == 1 && namedOf(res.At(0).Type()) == restorerName
}

// C11.c containment of user-method panics.
func ruleC11c(c *Ctx) []*report.Result {
	a := c.AFmt()
	r := report.NewResult("C11.c", "a method of the printer that calls user code: entered with panicking=false it has no panicking exit, except the nested-panic re-raise (exit with panicking=true, raised while printing the panic payload); the explicit re-raise is reached only with panicking=true", 20)
	// functions with user-call sites
	userFns := map[*ssa.Function]int{}
	for _, e := range eventsOf(a.It, "usercall") {
		if e.Detail["user"] == "true" && recvNamed(e.Fn) == tPP {
			userFns[e.Fn]++
		}
	}
	sites := 0
	for _, n := range userFns {
		sites += n
	}
	for _, k := range sortedSummaryKeys(a.It) {
		s := a.It.Summaries[k]
		if userFns[s.Fn] == 0 || len(s.Args) == 0 {
			continue
		}
		recv, ok := s.Args[0].(engine.Ptr)
		if !ok {
			continue
		}
		if p, _ := constBool(s.Entry.Get(recv.Obj, "panicking")); p {
			continue
		}
		for _, o := range s.SortedOutcomes() {
			name := shortFn(s.Fn.String())
			if !o.Exc {
				r.Ok(name + " normal exit from " + cfgString(ppConfig(s.Entry, recv.Obj)))
				continue
			}
			if p, _ := constBool(o.Heap.Get(recv.Obj, "panicking")); p {
				r.Ok(name + " nested-panic exit (panicking=true)")
			} else {
				r.Fail(name+" / uncontained panic", c.P.Pos(s.Fn.Pos()), "a panic raised by a user method leaves the printer uncaught (no catchPanic on the defer stack at that call)", nil, "entry: "+cfgString(ppConfig(s.Entry, recv.Obj)))
			}
		}
	}
	for _, e := range eventsOf(a.It, "panic") {
		if e.Detail["panicking"] == "ctrue" {
			r.Ok("re-raise at " + c.P.Pos(e.Instr.Pos()) + " with panicking=true")
		} else {
			r.Fail(shortFn(e.Fn.String())+" / explicit panic", c.P.Pos(e.Instr.Pos()), "explicit panic reachable with panicking="+e.Detail["panicking"], e.Chain, cfgString(e.Detail))
		}
	}
	// user-code entries: each must have catchPanic below it on the defer stack
	for _, e := range eventsOf(a.It, "usercall") {
		if e.Detail["user"] != "true" || recvNamed(e.Fn) != tPP {
			continue
		}
		if strings.Contains(e.Detail["defers"], ".catchPanic") {
			r.Ok("user call at " + c.P.Pos(e.Instr.Pos()) + " with defers [" + shortFn(e.Detail["defers"]) + "]")
		} else {
			r.Fail(shortFn(e.Fn.String())+" / user call without catchPanic", c.P.Pos(e.Instr.Pos()), "user code is entered without catchPanic on the frame's defer stack", e.Chain, "defers: "+e.Detail["defers"])
		}
	}
	// the recovering deferred call runs after the restorers pushed later
	for _, e := range eventsOf(a.It, "recoverer") {
		if e.Detail["same"] == "true" {
			r.Ok("recovering " + e.Detail["callee"] + " at " + c.P.Pos(e.Instr.Pos()) + " runs in the entry classification [" + e.Detail["entry"] + "]")
		} else {
			r.Fail(shortFn(e.Fn.String())+" / panic report classification", c.P.Pos(e.Instr.Pos()), "the deferred "+e.Detail["callee"]+" runs with ["+e.Detail["now"]+"] but the frame was entered with ["+e.Detail["entry"]+"]: the panic report (and the panic payload) is written in the classification of the failed call", e.Chain, e.Detail["now"])
		}
	}
	r.Note(fmt.Sprintf("%d user-code entry sites in printer methods", sites))
	if len(userFns) == 0 {
		r.Undecide("no user-code entry found in printer methods")
	}
	return []*report.Result{c.finish(r)}
}

// C12.b pool hygiene at sync.Pool.Put and after newPrinter.
func ruleC12b(c *Ctx) []*report.Result {
	a := c.AFmt()
	r := report.NewResult("C12.b", "every printer handed back to the pool has override=none, no captured %w operand, a reset buffer (mode Unsafe) with no borrowed context, and fmt.buf pointing at its own buffer; every printer obtained from newPrinter has panicking, erroring, wrapErrs cleared and fmt.buf initialised", 3)
	puts := 0
	for _, e := range eventsOf(a.It, "poolput") {
		puts++
		d := e.Detail
		okv := d["type"] == tPP && d["lent"] == "F" && d["override"] == "none" && d["mode"] == "UnsafeEscaped" && d["ctx"] == "none" && d["fmt.buf"] == "&"+d["self"]+"/buf"
		if okv {
			r.Ok("Put at " + c.P.Pos(e.Instr.Pos()) + " [" + cfgString(d) + "]")
		} else {
			r.Fail(shortFn(e.Fn.String())+" / sync.Pool.Put", c.P.Pos(e.Instr.Pos()), "a printer is recycled with stale state: "+cfgString(d), e.Chain, cfgString(d))
		}
	}
	if puts == 0 {
		r.Undecide("no sync.Pool.Put event found")
	}
	np := c.P.Func("internal/rfmt", "newPrinter")
	n := 0
	if np != nil {
		for _, s := range a.SummariesOf(np.String()) {
			for _, o := range s.SortedOutcomes() {
				n++
				p, ok := o.Ret.(engine.Ptr)
				if !ok {
					r.Fail("rfmt.newPrinter / result", c.P.Pos(np.Pos()), "result is not a tracked printer object", nil, "")
					continue
				}
				d := ppConfig(o.Heap, p.Obj)
				fb := o.Heap.Get(p.Obj, "fmt.buf").Key()
				if d["panicking"] == "cfalse" && d["erroring"] == "cfalse" && d["override"] == "none" && fb == "&"+p.Obj+"/buf" {
					r.Ok("newPrinter result [" + cfgString(d) + "]")
				} else {
					r.Fail("rfmt.newPrinter / result", c.P.Pos(np.Pos()), "a recycled printer starts with stale per-call state: "+cfgString(d)+" fmt.buf="+fb, nil, cfgString(d))
				}
			}
		}
	}
	if n == 0 {
		r.Undecide("newPrinter has no summary")
	}
	// the %w capture slot (run A-wrap)
	w := c.AWrap()
	wputs := 0
	for _, e := range eventsOf(w.It, "poolput") {
		wputs++
		if e.Detail["wrappedErr"] == "nil" {
			r.Ok("Put at " + c.P.Pos(e.Instr.Pos()) + " with no captured error [wrapErrs=" + e.Detail["wrapErrs"] + "]")
		} else {
			r.Fail(shortFn(e.Fn.String())+" / sync.Pool.Put", c.P.Pos(e.Instr.Pos()), "a printer is recycled with a captured %w operand still in place (wrappedErr="+e.Detail["wrappedErr"]+"): a later HelperForErrorf on the recycled printer rejects its first %w", e.Chain, cfgString(e.Detail))
		}
	}
	if wputs == 0 {
		r.Undecide("no sync.Pool.Put event in run A-wrap")
	}
	if np != nil {
		for _, s := range w.SummariesOf(np.String()) {
			for _, o := range s.SortedOutcomes() {
				if p, ok := o.Ret.(engine.Ptr); ok {
					we, wd := o.Heap.Get(p.Obj, "wrapErrs").Key(), o.Heap.Get(p.Obj, "wrappedErr").Key()
					if we == "cfalse" && wd == "nil" {
						r.Ok("newPrinter result: capture disabled, slot empty")
					} else {
						r.Fail("rfmt.newPrinter / result", c.P.Pos(np.Pos()), "a recycled printer starts with %w capture state wrapErrs="+we+" wrappedErr="+wd+": Sprintf(\"%w\", err) then captures or rejects depending on the previous call", nil, "")
					}
				}
			}
		}
	}
	return []*report.Result{c.finish(r)}
}

// C06.e / C17.d: redact-specific dispatch is bypassed under Unsafe().
func ruleC06e(c *Ctx) []*report.Result {
	a := c.AFmt()
	r := report.NewResult("C06.e", "user code reached by the printer through anything other than the four dispatch interfaces of package fmt (Formatter, GoStringer, Stringer, error) — i.e. SafeFormatter, SafeMessager and the func-typed error hook — is entered only with override != unsafe", 6)
	for _, e := range eventsOf(a.It, "usercall") {
		if recvNamed(e.Fn) != tPP || e.Detail["printer"] == "" && e.Detail["override"] == "" {
			// not a printer method, or no printer configuration known
		}
		if recvNamed(e.Fn) != tPP {
			continue
		}
		specific := true
		if ci, ok := e.Instr.(ssa.CallInstruction); ok && ci.Common().IsInvoke() {
			specific = !c.isFmtInterface(ci.Common().Value.Type())
		}
		if !specific {
			continue
		}
		ov := e.Detail["override"]
		if ov == "" {
			// the printer is not an argument (SafeMessage()): use the frame's receiver
			r.Note("no configuration for " + e.Detail["target"])
			continue
		}
		if ov != "unsafe" {
			r.Ok(e.Detail["target"] + " at " + c.P.Pos(e.Instr.Pos()) + " with override=" + ov)
		} else {
			r.Fail(shortFn(e.Fn.String())+" / "+e.Detail["target"], c.P.Pos(e.Instr.Pos()), "redact-specific rendering ("+e.Detail["target"]+") is dispatched under Unsafe(): the text is no longer what fmt prints for the operand", e.Chain, cfgString(e.Detail))
		}
	}
	return []*report.Result{c.finish(r)}
}

// C08.b: a redactable operand flows only into a direct buffer write.
func ruleC08b(c *Ctx) []*report.Result {
	r := report.NewResult("C08.b", "in the printer, every value of static type RedactableString/RedactableBytes obtained from an operand (type-switch arm, assertion, or reflect String()/Bytes() in an arm proved redactable) is used only, after conversion, as the payload of a direct Buffer.Write/WriteString call, in a frame that deferred the pre-redactable restorer", 4)
	lab := c.Labels()
	for _, fn := range c.P.ModuleFunctions() {
		if pkgPathOf(fn) != pkgRfmt {
			continue
		}
		for _, b := range fn.Blocks {
			for _, ins := range b.Instrs {
				v, ok := ins.(ssa.Value)
				if !ok {
					continue
				}
				src := false
				switch x := ins.(type) {
				case *ssa.TypeAssert:
					src = isRedactableType(x.AssertedType)
				case *ssa.Call:
					if f := x.Common().StaticCallee(); f != nil && strings.HasPrefix(f.String(), "(reflect.Value).") && lab.Of(x) == LRedOp {
						src = true
					}
				}
				if !src {
					continue
				}
				bad := redactableUses(v, 0)
				construct := shortFn(fn.String()) + " / redactable operand " + v.Name()
				if len(bad) == 0 {
					r.Ok(construct + " @" + c.P.Pos(ins.Pos()))
				} else {
					for _, u := range bad {
						r.Fail(shortFn(fn.String())+" / redactable operand", c.P.Pos(u.Pos()), "a redactable operand is used by "+u.String()+" instead of being written raw: it is reformatted, re-escaped or re-enveloped", nil, "")
					}
				}
			}
		}
	}
	return []*report.Result{r}
}

// redactableUses follows v through conversions and tuple extraction and
// returns the uses that are not direct buffer writes.
func redactableUses(v ssa.Value, depth int) []ssa.Instruction {
	var bad []ssa.Instruction
	refs := v.Referrers()
	if refs == nil || depth > 5 {
		return nil
	}
	for _, u := range *refs {
		switch x := u.(type) {
		case *ssa.Extract:
			if x.Index == 0 {
				bad = append(bad, redactableUses(x, depth+1)...)
			}
		case *ssa.ChangeType:
			bad = append(bad, redactableUses(x, depth+1)...)
		case *ssa.Convert:
			bad = append(bad, redactableUses(x, depth+1)...)
		case *ssa.DebugRef:
		case *ssa.If:
		case *ssa.Call:
			f := x.Common().StaticCallee()
			if f != nil && recvNamed(f) == tBuffer && (f.Name() == "Write" || f.Name() == "WriteString") {
				continue
			}
			// handed to an unexported helper of the printer whose parameter is
			// itself used only as the payload of such a write
			if f != nil && recvNamed(f) == tPP && f.Object() != nil && !f.Object().Exported() && f.Blocks != nil {
				okAll := true
				for i, a := range x.Common().Args {
					if a != v {
						continue
					}
					if i >= len(f.Params) || f.Params[i].Referrers() == nil || len(*f.Params[i].Referrers()) == 0 || len(redactableUses(f.Params[i], depth+1)) > 0 {
						okAll = false
					}
				}
				if okAll {
					continue
				}
			}
			bad = append(bad, u)
		default:
			bad = append(bad, u)
		}
	}
	return bad
}

// isFmtInterface: t is identical to fmt.Formatter, fmt.Stringer,
// fmt.GoStringer or error.
func (c *Ctx) isFmtInterface(t types.Type) bool {
	it, ok := t.Underlying().(*types.Interface)
	if !ok {
		return false
	}
	if types.Identical(it, types.Universe.Lookup("error").Type().Underlying()) {
		return true
	}
	fp := c.P.SSA["fmt"]
	if fp == nil {
		return false
	}
	for _, n := range []string{"Formatter", "Stringer", "GoStringer"} {
		if o := fp.Pkg.Scope().Lookup(n); o != nil && types.Identical(it, o.Type().Underlying()) {
			return true
		}
	}
	return false
}

// ruleC12d: a printer that lends its buffer to a nested printer has it back
// on every exit. Ghost #lent is set on the lender when its buffer struct is
// copied into another printer and disappears when a buffer struct is copied
// back over it.
func ruleC12d(c *Ctx) []*report.Result {
	a := c.AFmt()
	r := report.NewResult("C12.d", "every printer method that copies its buffer into another printer (a nested printer borrows the caller's buffer by value) has copied it back on every normal AND every panicking exit, for every reachable configuration: the caller never continues on a stale copy of a buffer the nested printer has already appended to", 8)
	// the obligation is stated at the boundary to the user: the exported
	// printer methods from which a hand-over is reachable (a helper that
	// sets up the nested printer and returns it passes the obligation on to
	// its caller)
	copiers := map[*ssa.Function]bool{}
	for _, e := range eventsOf(a.It, "bufcopy") {
		copiers[e.Fn] = true
	}
	if len(copiers) == 0 {
		r.Undecide("no buffer hand-over between printers found")
		return []*report.Result{c.finish(r)}
	}
	lenders := map[*ssa.Function]bool{}
	for _, fn := range c.P.ModuleFunctions() {
		if recvNamed(fn) != tPP || fn.Object() == nil || !fn.Object().Exported() || fn.Parent() != nil {
			continue
		}
		for g := range c.reach(fn, false) {
			if copiers[g] {
				lenders[fn] = true
			}
		}
		if copiers[fn] {
			lenders[fn] = true
		}
	}
	for _, k := range sortedSummaryKeys(a.It) {
		s := a.It.Summaries[k]
		if !lenders[s.Fn] || len(s.Args) == 0 {
			continue
		}
		recv, ok := s.Args[0].(engine.Ptr)
		if !ok {
			continue
		}
		entry := strOf(s.Entry.Get(recv.Obj, "buf.Buffer.#lent"))
		if entry != "F" {
			continue // consequences of an earlier failure are reported at their origin
		}
		for _, o := range s.SortedOutcomes() {
			kind := "normal"
			if o.Exc {
				kind = "panicking"
			}
			exit := strOf(o.Heap.Get(recv.Obj, "buf.Buffer.#lent"))
			name := shortFn(s.Fn.String())
			if exit == "F" {
				r.Ok(name + " " + kind + " exit: buffer handed back [" + ppState(s.Entry, recv.Obj) + "]")
			} else {
				r.Fail(name+" / "+kind+" exit without hand-back", c.P.Pos(s.Fn.Pos()), "on a "+kind+" exit the buffer lent to the nested printer is not copied back: the caller goes on with a stale length and marker state while the shared storage already holds the nested output (a panic out of the nested print, contained further up, yields an ill-formed string)", nil, "entry: "+cfgString(ppConfig(s.Entry, recv.Obj)))
			}
		}
	}
	return []*report.Result{c.finish(r)}
}
