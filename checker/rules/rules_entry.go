package rules

import (
	"fmt"
	"go/types"
	"strings"

	"golang.org/x/tools/go/ssa"

	"redactverif/engine"
	"redactverif/report"
)

func init() {
	register("C16.a", ruleC16a)
	register("C16.b", ruleC16b)
	register("C16.c", ruleC16c)
	register("C16.d", ruleC16d)
	register("C16.e", ruleC16e)
}

// callsInOrder lists the call instructions of fn's non-recover blocks in
// instruction order, provided those blocks form a straight line.
func callsInOrder(fn *ssa.Function) ([]ssa.CallInstruction, bool) {
	var out []ssa.CallInstruction
	var deferred []ssa.CallInstruction
	straight := true
	b := fn.Blocks[0]
	seen := map[*ssa.BasicBlock]bool{}
	for b != nil && !seen[b] {
		seen[b] = true
		for _, ins := range b.Instrs {
			if d, ok := ins.(*ssa.Defer); ok {
				deferred = append(deferred, d)
				continue
			}
			if ci, ok := ins.(ssa.CallInstruction); ok {
				out = append(out, ci)
			}
		}
		switch len(b.Succs) {
		case 0:
			b = nil
		case 1:
			b = b.Succs[0]
		default:
			straight = false
			b = nil
		}
	}
	// deferred calls run when the function returns, last pushed first
	for i := len(deferred) - 1; i >= 0; i-- {
		out = append(out, deferred[i])
	}
	return out, straight
}

func calleeName(ci ssa.CallInstruction) string {
	c := ci.Common()
	if c.IsInvoke() {
		return "invoke " + c.Method.Name()
	}
	if f := c.StaticCallee(); f != nil {
		return shortFn(f.String())
	}
	if b, ok := c.Value.(*ssa.Builtin); ok {
		return "builtin " + b.Name()
	}
	return "dynamic"
}

// pureForward: fn's body is one call whose arguments are fn's parameters in
// order and whose results are returned unchanged.
func pureForward(fn *ssa.Function) (target string, ok bool, why string) {
	if len(fn.Blocks) != 1 {
		return "", false, "more than one block"
	}
	calls, _ := callsInOrder(fn)
	if len(calls) != 1 {
		return "", false, fmt.Sprintf("%d calls", len(calls))
	}
	call, isCall := calls[0].(*ssa.Call)
	if !isCall {
		return "", false, "call is deferred or go"
	}
	args := call.Common().Args
	if len(args) != len(fn.Params) {
		return calleeName(call), false, "argument count differs from parameter count"
	}
	for i, a := range args {
		if stripIface(a) != ssa.Value(fn.Params[i]) && a != ssa.Value(fn.Params[i]) {
			return calleeName(call), false, fmt.Sprintf("argument %d is not parameter %d", i, i)
		}
	}
	ret, isRet := fn.Blocks[0].Instrs[len(fn.Blocks[0].Instrs)-1].(*ssa.Return)
	if !isRet {
		return calleeName(call), false, "no return"
	}
	switch len(ret.Results) {
	case 0:
	case 1:
		if stripConv(ret.Results[0]) != ssa.Value(call) {
			return calleeName(call), false, "result is not the callee's result"
		}
	default:
		for i, r := range ret.Results {
			ex, ok := r.(*ssa.Extract)
			if !ok || ex.Tuple != ssa.Value(call) || ex.Index != i {
				return calleeName(call), false, fmt.Sprintf("result %d is not the callee's result %d", i, i)
			}
		}
	}
	return calleeName(call), true, ""
}

func stripConv(v ssa.Value) ssa.Value {
	for {
		switch x := v.(type) {
		case *ssa.ChangeType:
			v = x.X
		case *ssa.ChangeInterface:
			v = x.X
		case *ssa.MakeInterface:
			v = x.X
		default:
			return v
		}
	}
}

// the public functions of the root package that are forwards to an internal
// package on the pinned tree (confirmed by reading): each must stay one
var printEntryPoints = []string{"Sprint", "Sprintf", "Fprint", "Fprintf", "HelperForErrorf", "Sprintfn", "EscapeBytes",
	"Safe", "Unsafe", "MakeFormat", "RegisterSafeType", "RegisterRedactErrorFn"}

// ruleC16a: the S/F entry points follow one protocol around doPrint*, and the
// public façade forwards to them unchanged.
func ruleC16a(c *Ctx) []*report.Result {
	r := report.NewResult("C16.a", "Sprint/Sprintln/Sprintf/Fprint/Fprintln/Fprintf/HelperForErrorf run, on a single path, newPrinter, then exactly one doPrint/doPrintln/doPrintf with the caller's arguments unchanged, then Take*, then free; the public functions of the root package are pure forwards (one call, same arguments in order, results returned unchanged)", 20)
	sp := c.P.SSAPkg("internal/rfmt")
	want := map[string]string{"Sprint": "doPrint", "Fprint": "doPrint", "Sprintln": "doPrintln", "Fprintln": "doPrintln", "Sprintf": "doPrintf", "Fprintf": "doPrintf", "HelperForErrorf": "doPrintf"}
	entryDo := map[*ssa.Function]string{} // entry point of rfmt -> the doPrint* it runs
	for name, do := range want {
		fn := sp.Func(name)
		if fn == nil {
			fn = c.internalTarget("internal/rfmt", name) // renamed: what the public function of that name calls
		}
		construct := "rfmt." + name
		if fn == nil {
			r.Fail(construct, "internal/rfmt/print.go", "entry point not found", nil, "")
			continue
		}
		entryDo[fn] = do
		pos := c.P.Pos(fn.Pos())
		// unexported helpers of the printer are read in place
		fl := flatten(fn, func(g *ssa.Function) bool {
			return c.P.InModule(g) && recvNamed(g) == tPP && g.Object() != nil && !g.Object().Exported() && !strings.HasPrefix(g.Name(), "doPrint") && g.Name() != "free"
		})
		calls, straight := fl.calls, fl.straight
		if !straight {
			r.Undecide(construct + " is not straight-line code: the protocol rule does not apply to this shape")
			continue
		}
		var seq []string
		var np ssa.Value
		okArgs, okRecv := true, true
		for _, ci := range calls {
			n := calleeName(ci)
			switch {
			case n == "internal/rfmt.newPrinter":
				seq = append(seq, "new")
				np = ci.(*ssa.Call)
			case strings.HasPrefix(n, "(*internal/rfmt.pp).doPrint"):
				seq = append(seq, ci.Common().StaticCallee().Name())
				a := fl.args(ci)
				okRecv = okRecv && a[0] == np
				// remaining args = the entry point's own parameters, minus the writer
				params := fn.Params
				if strings.HasPrefix(name, "F") {
					params = params[1:]
				}
				if len(a)-1 != len(params) {
					okArgs = false
				} else {
					for i, p := range params {
						if a[i+1] != ssa.Value(p) {
							okArgs = false
						}
					}
				}
			case strings.HasPrefix(n, "(*internal/buffer.Buffer).Take"):
				seq = append(seq, "take")
			case n == "(*internal/rfmt.pp).free":
				seq = append(seq, "free")
				okRecv = okRecv && fl.args(ci)[0] == np
			case strings.HasPrefix(n, "invoke "):
				seq = append(seq, "write")
			default:
				seq = append(seq, n)
			}
		}
		got := strings.Join(seq, ",")
		exp := "new," + do + ",take,free"
		if strings.HasPrefix(name, "F") {
			exp = "new," + do + ",take,write,free"
		}
		r.Check(got == exp, construct+" / protocol", pos, fmt.Sprintf("call sequence is [%s], want [%s]", got, exp))
		r.Check(okArgs, construct+" / arguments passed through", pos, "doPrint* must receive the entry point's format/arguments unchanged")
		r.Check(okRecv, construct+" / one printer", pos, "doPrint* and free must be applied to the printer returned by newPrinter")
	}
	// façade
	root := c.P.SSAPkg("")
	fwd := 0
	for _, mem := range sortedMembers(root) {
		fn, ok := mem.(*ssa.Function)
		if !ok || fn.Object() == nil || !fn.Object().Exported() || fn.Blocks == nil {
			continue
		}
		target, ok, why := pureForward(fn)
		must := false
		for _, n := range printEntryPoints {
			if fn.Name() == n {
				must = true
			}
		}
		if ok {
			fwd++
			r.Ok("redact." + fn.Name() + " forwards to " + target)
			// the forward must go to the homonymous function
			// ... or, the internal function having another name, to the entry
			// point that runs the doPrint* this public name stands for
			sameProtocol := false
			if wantDo, known := want[fn.Name()]; known {
				for _, b := range fn.Blocks {
					for _, ins := range b.Instrs {
						if ci, ok := ins.(*ssa.Call); ok {
							if g := ci.Common().StaticCallee(); g != nil && entryDo[g] == wantDo {
								sameProtocol = true
							}
						}
					}
				}
			}
			// an internal function that was renamed has no homonym left in its
			// package: then only purity is required (a forward to the wrong
			// SIBLING, whose homonym still exists, is reported)
			homonymExists := false
			for _, b := range fn.Blocks {
				for _, ins := range b.Instrs {
					if ci, ok := ins.(*ssa.Call); ok {
						if g := ci.Common().StaticCallee(); g != nil && g.Pkg != nil && g.Pkg.Func(fn.Name()) != nil {
							homonymExists = true
						}
					}
				}
			}
			if _, known := want[fn.Name()]; known {
				homonymExists = true
			}
			if must && !strings.HasSuffix(target, "."+fn.Name()) && !sameProtocol && homonymExists {
				r.Fail("redact."+fn.Name()+" / forward target", c.P.Pos(fn.Pos()), "forwards to "+target+" instead of the function of the same name", nil, "")
			}
		} else if must {
			r.Fail("redact."+fn.Name()+" / pure forward", c.P.Pos(fn.Pos()), "public entry point is not a pure forward: "+why, nil, "")
		}
	}
	if fwd < 10 {
		r.Undecide(fmt.Sprintf("only %d forwarding functions in the root package (floor 10)", fwd))
	}
	return []*report.Result{r}
}

func sortedMembers(p *ssa.Package) []ssa.Member {
	var names []string
	for n := range p.Members {
		names = append(names, n)
	}
	sortStrings(names)
	var out []ssa.Member
	for _, n := range names {
		out = append(out, p.Members[n])
	}
	return out
}

// ruleC16b: the F* variants deliver the text in a single Write and return
// the writer's results.
func ruleC16b(c *Ctx) []*report.Result {
	r := report.NewResult("C16.b", "Fprint/Fprintln/Fprintf: exactly one Write on the writer parameter, its argument is the bytes taken from this call's printer (a plain conversion of TakeRedactableBytes()), and the function returns the (n, err) of that Write unmodified", 9)
	sp := c.P.SSAPkg("internal/rfmt")
	for _, name := range []string{"Fprint", "Fprintln", "Fprintf"} {
		fn := sp.Func(name)
		construct := "rfmt." + name
		if fn == nil {
			r.Fail(construct, "internal/rfmt/print.go", "not found", nil, "")
			continue
		}
		pos := c.P.Pos(fn.Pos())
		var writes []*ssa.Call
		for _, b := range fn.Blocks {
			for _, ins := range b.Instrs {
				if call, ok := ins.(*ssa.Call); ok && call.Common().IsInvoke() {
					writes = append(writes, call)
				}
			}
		}
		if len(writes) != 1 {
			r.Fail(construct+" / single Write", pos, fmt.Sprintf("%d calls on interface values, want exactly one Write", len(writes)), nil, "")
			continue
		}
		w := writes[0]
		r.Check(w.Common().Method.Name() == "Write" && w.Common().Value == ssa.Value(fn.Params[0]), construct+" / Write on the writer parameter", pos, "the interface call must be Write on the io.Writer parameter")
		src := stripConvAll(w.Common().Args[0])
		tk, ok := src.(*ssa.Call)
		okTake := ok && tk.Common().StaticCallee() != nil && tk.Common().StaticCallee().Name() == "TakeRedactableBytes"
		r.Check(okTake, construct+" / payload", pos, "Write must receive TakeRedactableBytes() of this printer, converted only")
		// results: named results n, err are stored from extracts of w and loaded at return
		okRes := true
		for _, b := range fn.Blocks {
			if b == fn.Recover {
				continue
			}
			ret, ok := b.Instrs[len(b.Instrs)-1].(*ssa.Return)
			if !ok {
				continue
			}
			for i, res := range ret.Results {
				if !resultIsExtractOf(res, w, i) {
					okRes = false
				}
			}
		}
		r.Check(okRes, construct+" / results", pos, "must return the writer's (n, err) unmodified")
	}
	return []*report.Result{r}
}

func stripConvAll(v ssa.Value) ssa.Value {
	for {
		switch x := v.(type) {
		case *ssa.ChangeType:
			v = x.X
		case *ssa.Convert:
			v = x.X
		default:
			return v
		}
	}
}

// resultIsExtractOf: res is extract #i of call, possibly through a named
// result variable stored exactly once.
func resultIsExtractOf(res ssa.Value, call *ssa.Call, i int) bool {
	if ex, ok := res.(*ssa.Extract); ok {
		return ex.Tuple == ssa.Value(call) && ex.Index == i
	}
	if u, ok := res.(*ssa.UnOp); ok {
		if al, ok := u.X.(*ssa.Alloc); ok {
			n := 0
			good := false
			for _, ref := range *al.Referrers() {
				if st, ok := ref.(*ssa.Store); ok && st.Addr == ssa.Value(al) {
					n++
					if ex, ok := st.Val.(*ssa.Extract); ok && ex.Tuple == ssa.Value(call) && ex.Index == i {
						good = true
					}
				}
			}
			return n == 1 && good
		}
	}
	return false
}

// ruleC16c: the builder route prints into its own buffer in raw mode.
func ruleC16c(c *Ctx) []*report.Result {
	r := report.NewResult("C16.c", "StringBuilder.Print/Printf: SetMode(PreRedactable) on the builder's buffer precedes, on the single path, one call of rfmt.Fprint/Fprintf whose writer is that same buffer and whose remaining arguments are the method's own", 6)
	for name, target := range map[string]string{"Print": "Fprint", "Printf": "Fprintf"} {
		fn := c.P.Func("builder", "(*StringBuilder)."+name)
		construct := "(*builder.StringBuilder)." + name
		if fn == nil {
			r.Fail(construct, "builder/builder.go", "not found", nil, "")
			continue
		}
		pos := c.P.Pos(fn.Pos())
		// helpers of the builder are read in place
		fl := flatten(fn, func(g *ssa.Function) bool {
			if !c.P.InModule(g) {
				return false
			}
			// methods of the builder, and unexported functions of its package
			return recvNamed(g) == tBuilder || (g.Pkg == fn.Pkg && g.Signature.Recv() == nil && g.Object() != nil && !g.Object().Exported())
		})
		calls := fl.calls
		if !fl.straight {
			calls = nil
			for _, b := range linearOrder(fn) {
				for _, ins := range b.Instrs {
					if ci, ok := ins.(ssa.CallInstruction); ok {
						calls = append(calls, ci)
					}
				}
			}
		}
		var sm, fp ssa.CallInstruction
		extraWrites := 0
		for _, ci := range calls {
			n := calleeName(ci)
			switch {
			case strings.HasSuffix(n, ".SetMode") && sm == nil && fp == nil:
				sm = ci
			case n == "internal/rfmt."+target && fp == nil:
				fp = ci
			default:
				if f := ci.Common().StaticCallee(); f != nil && c.P.InModule(f) && c.reachesWriter(f) {
					extraWrites++
				}
			}
		}
		if sm == nil || fp == nil || extraWrites > 0 {
			r.Fail(construct+" / shape", pos, fmt.Sprintf("want SetMode(PreRedactable) followed by one call of rfmt.%s and no other route into the buffer (found SetMode=%v, %s=%v, %d other writing calls): text written by another route does not go through the printer's classification and escaping", target, sm != nil, target, fp != nil, extraWrites), nil, "")
			continue
		}
		if !(fl.straight && fl.before(sm, fp)) && !(sm.Parent() == fp.Parent() && instrBefore(sm, fp)) {
			r.Fail(construct+" / raw mode first", pos, "SetMode(PreRedactable) must precede (dominate) the call of rfmt."+target, nil, "")
			continue
		}
		okMode := false
		if strings.HasSuffix(calleeName(sm), ".SetMode") {
			if k, ok := intConst(fl.res(sm.Common().Args[1])); ok && k == 2 {
				okMode = true
			}
		}
		r.Check(okMode, construct+" / raw mode first", pos, "the first call must be SetMode(PreRedactable)")
		okT := calleeName(fp) == "internal/rfmt."+target
		r.Check(okT, construct+" / route", pos, "the second call must be rfmt."+target)
		if okT {
			a := fl.args(fp)
			bufBase := func(v ssa.Value) ssa.Value {
				if x := bufferOf(fl.deep(v)); x != nil {
					return fl.res(x)
				}
				return nil
			}
			sameBuf := bufBase(a[0]) == bufBase(sm.Common().Args[0]) && bufBase(sm.Common().Args[0]) != nil
			r.Check(sameBuf, construct+" / writer is the builder's buffer", pos, "rfmt."+target+" must write into the buffer whose mode was set")
			okArgs := len(a)-1 == len(fn.Params)-1
			if okArgs {
				for i := 1; i < len(fn.Params); i++ {
					if a[i] != ssa.Value(fn.Params[i]) {
						okArgs = false
					}
				}
			}
			r.Check(okArgs, construct+" / arguments passed through", pos, "format/arguments must be forwarded unchanged")
		}
	}
	return []*report.Result{r}
}

// bufferOf: v is &recv.Buffer for a parameter recv; returns recv.
func bufferOf(v ssa.Value) ssa.Value {
	fa, ok := v.(*ssa.FieldAddr)
	if !ok {
		return nil
	}
	if fieldName(fa) != "Buffer" {
		return nil
	}
	return fa.X
}

// ruleC16d: the nested route borrows and hands back the buffer.
func ruleC16d(c *Ctx) []*report.Result {
	r := report.NewResult("C16.d", "(*pp).Print/Printf: the caller's mode restoration is deferred first; then newPrinter; the caller's buffer is copied in before doPrint*, copied back after it, the nested printer's buffer and override are cleared, and only then is it freed (the body of a deferred helper method is read in place, at return)", 12)
	for name, do := range map[string]string{"Print": "doPrint", "Printf": "doPrintf"} {
		fn := c.P.Func("internal/rfmt", "(*pp)."+name)
		construct := "(*internal/rfmt.pp)." + name
		if fn == nil {
			r.Fail(construct, "internal/rfmt/printer_adapter.go", "not found", nil, "")
			continue
		}
		pos := c.P.Pos(fn.Pos())
		// linearise: entry block, follow the unique non-recover path, ignoring
		// the small diamond that inherits the override.
		var steps []string
		var np ssa.Value
		recv := ssa.Value(fn.Params[0])
		// subst maps the parameters of a deferred helper to the values it
		// is called with, so that its body is read as if written in place.
		type pending struct {
			callee *ssa.Function
			subst  map[ssa.Value]ssa.Value
		}
		var deferredHelpers []pending
		depth := 0
		var walk func(f *ssa.Function, subst map[ssa.Value]ssa.Value)
		walk = func(f *ssa.Function, subst map[ssa.Value]ssa.Value) {
			res := func(v ssa.Value) ssa.Value {
				if r, ok := subst[v]; ok {
					return r
				}
				return v
			}
			for _, b := range linearOrder(f) {
				for _, ins := range b.Instrs {
					switch x := ins.(type) {
					case *ssa.Defer:
						callee := x.Common().StaticCallee()
						if callee != nil && recvNamed(callee) == tPP && callee.Blocks != nil && (f == fn || depth > 0) {
							m := map[ssa.Value]ssa.Value{}
							for i, a := range x.Common().Args {
								if i < len(callee.Params) {
									m[callee.Params[i]] = res(a)
								}
							}
							deferredHelpers = append(deferredHelpers, pending{callee, m})
							steps = append(steps, "defer helper "+callee.Name())
							continue
						}
						steps = append(steps, "defer "+calleeName(x))
					case *ssa.Call:
						n := calleeName(x)
						// a closure made by the method and run by a helper:
						// its body is read in place
						if x.Common().StaticCallee() == nil && !x.Common().IsInvoke() {
							if mc, ok := res(x.Common().Value).(*ssa.MakeClosure); ok {
								if cf, ok := mc.Fn.(*ssa.Function); ok && cf.Blocks != nil && depth < 3 {
									m := map[ssa.Value]ssa.Value{}
									for k, v := range subst {
										m[k] = v
									}
									for i, fv := range cf.FreeVars {
										if i < len(mc.Bindings) {
											// a captured variable is a cell: loads of it stand for the captured value
											m[fv] = mc.Bindings[i]
										}
									}
									for i, a := range x.Common().Args {
										if i < len(cf.Params) {
											m[cf.Params[i]] = res(a)
										}
									}
									depth++
									walk(cf, m)
									depth--
									continue
								}
							}
						}
						switch {
						case n == "internal/rfmt.newPrinter":
							np = x
							steps = append(steps, "new")
						case n == "(*internal/rfmt.pp)."+do:
							if res(x.Common().Args[0]) == np {
								steps = append(steps, "print")
							} else {
								steps = append(steps, "print-on-other")
							}
						case n == "(*internal/rfmt.pp).free":
							if res(x.Common().Args[0]) == np {
								steps = append(steps, "free")
							}
						default:
							// a set-up helper of the printer (one that creates
							// the nested printer) is read in place
							callee := x.Common().StaticCallee()
							if callee != nil && callee.Blocks != nil && recvNamed(callee) == tPP && depth < 3 && callsFn(callee, "internal/rfmt.newPrinter") {
								m := map[ssa.Value]ssa.Value{}
								for k, v := range subst {
									m[k] = v
								}
								for i, a := range x.Common().Args {
									if i < len(callee.Params) {
										m[callee.Params[i]] = res(a)
									}
								}
								depth++
								walk(callee, m)
								depth--
								if rv := singleReturn(callee); rv != nil {
									if r2, ok := m[rv]; ok {
										rv = r2
									}
									if subst == nil {
										subst = map[ssa.Value]ssa.Value{}
									}
									subst[x] = rv
									if rv == np {
										// the helper returned the nested printer
									}
								}
							}
						}
					case *ssa.Store:
						fa, ok := x.Addr.(*ssa.FieldAddr)
						if !ok {
							continue
						}
						switch fieldName(fa) {
						case "buf":
							src := ""
							if u, ok := x.Val.(*ssa.UnOp); ok {
								if sfa, ok := u.X.(*ssa.FieldAddr); ok && fieldName(sfa) == "buf" {
									if res(sfa.X) == recv {
										src = "caller"
									} else if res(sfa.X) == np {
										src = "nested"
									}
								}
							} else if cst, ok := x.Val.(*ssa.Const); ok && cst.Value == nil {
								src = "zero"
							}
							dst := "?"
							if res(fa.X) == recv {
								dst = "caller"
							} else if res(fa.X) == np {
								dst = "nested"
							}
							steps = append(steps, "buf:"+dst+"<-"+src)
						case "override":
							if res(fa.X) == np {
								if cst, ok := x.Val.(*ssa.Const); ok && cst.Value != nil && cst.Int64() == 0 {
									steps = append(steps, "override:nested<-none")
								}
							}
						}
					}
				}
			}
		}
		walk(fn, nil)
		// deferred helpers run at return, last pushed first
		for i := len(deferredHelpers) - 1; i >= 0; i-- {
			walk(deferredHelpers[i].callee, deferredHelpers[i].subst)
		}
		got := strings.Join(steps, " ; ")
		idx := func(s string) int {
			for i, x := range steps {
				if x == s {
					return i
				}
			}
			return -1
		}
		last := func(s string) int {
			for i := len(steps) - 1; i >= 0; i-- {
				if steps[i] == s {
					return i
				}
			}
			return -1
		}
		r.Check(len(steps) > 0 && strings.HasPrefix(steps[0], "defer ") && strings.HasSuffix(steps[0], ".SetMode"), construct+" / mode restoration deferred first", pos, "the first action must be `defer p.buf.SetMode(p.buf.GetMode())`: "+got)
		in, pr, out, clr, fr := idx("buf:nested<-caller"), idx("print"), idx("buf:caller<-nested"), last("buf:nested<-zero"), idx("free")
		r.Check(idx("new") >= 0 && in > idx("new") && pr > in, construct+" / copy-in before printing", pos, "the caller's buffer must be copied into the fresh printer before "+do+": "+got)
		r.Check(out > pr && pr >= 0, construct+" / copy-out after printing", pos, "the buffer must be handed back after "+do+": "+got)
		r.Check(clr > out && out >= 0 && fr > clr, construct+" / cleared before free", pos, "the nested printer's buffer must be cleared after the hand-back and before free (otherwise two printers share one backing array): "+got)
		r.Check(idx("print-on-other") < 0, construct+" / prints on the nested printer", pos, do+" must run on the nested printer")
		ovr := last("override:nested<-none")
		r.Check(ovr > pr && ovr < fr, construct+" / override cleared before free", pos, "the inherited override must be cleared before the printer is recycled: "+got)
		_ = types.Typ
	}
	return []*report.Result{r}
}

// callsFn: fn contains a static call of the named function.
func callsFn(fn *ssa.Function, name string) bool {
	for _, b := range fn.Blocks {
		for _, ins := range b.Instrs {
			if ci, ok := ins.(ssa.CallInstruction); ok && calleeName(ci) == name {
				return true
			}
		}
	}
	return false
}

// linearOrder returns fn's blocks (without the recover block) in a
// topological order of the acyclic CFG (reverse post-order).
func linearOrder(fn *ssa.Function) []*ssa.BasicBlock {
	var post []*ssa.BasicBlock
	seen := map[*ssa.BasicBlock]bool{}
	var dfs func(b *ssa.BasicBlock)
	dfs = func(b *ssa.BasicBlock) {
		if seen[b] {
			return
		}
		seen[b] = true
		for i := len(b.Succs) - 1; i >= 0; i-- {
			dfs(b.Succs[i])
		}
		post = append(post, b)
	}
	dfs(fn.Blocks[0])
	for i, j := 0, len(post)-1; i < j; i, j = i+1, j-1 {
		post[i], post[j] = post[j], post[i]
	}
	return post
}

// ruleC16e: an argument list is never printed under an inherited Safe().
// The safe override belongs to one operand: it is installed by the
// classification code around that operand and restored after it. A printer
// that starts on an argument list (doPrint, doPrintf, doPrintln: the printer
// methods taking the []interface{} and reaching printArg) with the safe
// override already in force treats every operand as safe, which no entry
// point does for the same arguments: the routes would disagree.
func ruleC16e(c *Ctx) []*report.Result {
	a := c.AFmt()
	r := report.NewResult("C16.e", "in every reachable configuration the printer methods that take the argument list (doPrint/doPrintf/doPrintln) are entered with override none or unsafe, never with the safe override of an enclosing operand: a nested Print/Printf classifies its operands exactly as the top-level entry points do (the unsafe override alone is inherited, C06.a)", 6)
	pa := c.P.Func("internal/rfmt", "(*pp).printArg")
	listPrinters := map[*ssa.Function]bool{}
	for _, fn := range c.P.ModuleFunctions() {
		if recvNamed(fn) != tPP || fn.Parent() != nil || fn.Object() == nil || fn.Object().Exported() {
			continue
		}
		takesList := false
		for _, p := range fn.Params[1:] {
			if sl, ok := p.Type().Underlying().(*types.Slice); ok {
				if it, ok := sl.Elem().Underlying().(*types.Interface); ok && it.Empty() {
					takesList = true
				}
			}
		}
		if !takesList || pa == nil {
			continue
		}
		for _, g := range c.staticCallees(fn) {
			if g == pa || c.reach(g, true)[pa] {
				listPrinters[fn] = true
			}
		}
	}
	if len(listPrinters) < 2 {
		r.Undecide(fmt.Sprintf("expected the print and printf argument-list printers, found %d", len(listPrinters)))
		return []*report.Result{c.finish(r)}
	}
	for _, k := range sortedSummaryKeys(a.It) {
		s := a.It.Summaries[k]
		if !listPrinters[s.Fn] || len(s.Args) == 0 {
			continue
		}
		recv, ok := s.Args[0].(engine.Ptr)
		if !ok {
			continue
		}
		ov := overrideName(s.Entry.Get(recv.Obj, "override"))
		name := shortFn(s.Fn.String())
		cfg := cfgString(ppConfig(s.Entry, recv.Obj))
		if ov == "safe" {
			r.Fail(name+" / entered under a safe override", c.P.Pos(s.Fn.Pos()), "the argument list is printed with the safe override of an enclosing operand in force: operands of a nested Print/Printf that are not declared safe are rendered outside envelopes, unlike Sprint/Sprintf for the same arguments", nil, "entry: "+cfg)
		} else {
			r.Ok(name + " entered with [" + cfg + "]")
		}
	}
	return []*report.Result{c.finish(r)}
}

// bytePreservingConv: the conversion keeps the bytes (or the number) it is
// given: between string and []byte (named forms included), or between types
// of the same underlying basic kind. A detour through []rune replaces invalid
// UTF-8 by U+FFFD; byte -> rune -> writeRune re-encodes values >= 0x80.
func bytePreservingConv(from, to types.Type) bool {
	isBytes := func(t types.Type) bool {
		sl, ok := t.Underlying().(*types.Slice)
		if !ok {
			return false
		}
		b, ok := sl.Elem().Underlying().(*types.Basic)
		return ok && b.Kind() == types.Uint8
	}
	isString := func(t types.Type) bool {
		b, ok := t.Underlying().(*types.Basic)
		return ok && b.Info()&types.IsString != 0
	}
	if (isBytes(from) || isString(from)) && (isBytes(to) || isString(to)) {
		return true
	}
	fb, ok1 := from.Underlying().(*types.Basic)
	tb, ok2 := to.Underlying().(*types.Basic)
	if ok1 && ok2 {
		if fb.Kind() == tb.Kind() {
			return true
		}
		// widening between integers of the same signedness keeps the number
		// (what matters is then the primitive it is written with, checked by
		// the caller); byte <-> rune is NOT accepted here
		return false
	}
	return false
}

// lossyConvOnPath: walking from v back through conversions, the first one
// that does not preserve its operand; nil if all do.
func lossyConvOnPath(v ssa.Value) *ssa.Convert {
	for i := 0; i < 8; i++ {
		switch x := v.(type) {
		case *ssa.ChangeType:
			v = x.X
		case *ssa.MakeInterface:
			v = x.X
		case *ssa.Convert:
			if !bytePreservingConv(x.X.Type(), x.Type()) {
				return x
			}
			v = x.X
		default:
			return nil
		}
	}
	return nil
}
