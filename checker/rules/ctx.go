// Package rules holds the repository-specific rule sets (DESIGN.md §5).
package rules

import (
	"fmt"
	"go/constant"
	"sort"

	"redactverif/engine"
	"redactverif/load"
	"redactverif/report"
)

// Ctx is shared by all rules of one checker invocation.
type Ctx struct {
	P      *load.Program
	Tier   string
	Oracle string // directory of the reference fmt sources (default /verif/checker/oracle)

	symCache *symScanResult
	abuf     *ABuf
	afmt     *AFmt
	awrap    *AFmt
	lab      *Labels
}

type RuleFunc func(c *Ctx) []*report.Result

// Registry maps rule ids to implementations.
var Registry = map[string]RuleFunc{}

// Properties maps property ids to the rule ids that decide them.
var Properties = map[string][]string{
	"C01": {"C01.a", "C01.b", "C01.c", "C01.d", "C12.d", "C05.b", "C10.scan", "C03.d", "C10.sym", "C03.c", "C09.g", "C10.g", "C09.h", "C10.f", "C07.g", "C13.e"},
	"C02": {"C02.a", "C02.b", "C01.a", "C10.sym", "C10.scan", "C03.c", "C03.d", "C10.f", "C10.g", "C09.g", "C09.h", "C05.b", "C05.c", "C05.e", "C05.g", "C06.a", "C06.c", "C06.e", "C06.g", "C01.d", "C12.b", "C12.d", "C16.e", "C02.f", "C08.a", "C08.b"},
	"C03": {"C03.a", "C03.c", "C03.d", "C01.a", "C10.sym", "C10.g", "C09.h", "C10.scan", "C10.f", "C09.g", "C07.g", "C10.b"},
	"C04": {"C04.a", "C04.a3", "C04.b", "C10.sym", "C10.scan", "C03.c", "C01.a", "C09.g", "C09.h", "C10.f", "C03.d", "C10.g", "C02.f", "C09.s", "C05.h", "C17.g", "C16.a"},
	"C09": {"C09", "C09.g", "C01.a", "C01.b", "C16.c", "C09.h", "C10.sym", "C10.scan", "C03.c", "C10.g", "C10.f", "C03.d", "C09.s", "C06.p", "C08.a", "C08.b"},
	"C10": {"C07", "C10.scan", "C10.b", "C10.f", "C10.g", "C03.c", "C09.h", "C10.sym", "C01.a", "C03.d", "C09.g", "C07.g", "C01.b", "C09", "C16.a", "C10.h"},
	"C05": {"C02.a", "C02.b", "C05.b", "C05.c", "C01.d", "C05.e", "C05.g", "C17.f", "C06.g", "C12.b", "C06.a", "C06.c", "C06.e", "C12.d", "C16.e", "C02.f", "C06.p", "C08.a", "C08.b", "C05.h", "C17.g", "C12.g", "C06.h", "C09"},
	"C07": {"C07", "C07.g", "C16.a", "C10.h"},
	"C06": {"C06.a", "C05.c", "C06.c", "C06.e", "C05.e", "C06.g", "C12.b", "C02.a", "C02.b", "C05.b", "C05.g", "C01.d", "C12.d", "C16.e", "C06.p", "C14.d", "C05.h", "C06.h"},
	"C08": {"C08.a", "C08.b", "C08.c", "C02.a", "C05.c", "C06.a", "C06.c", "C01.b", "C01.a", "C10.sym", "C10.scan", "C03.c", "C03.d", "C10.f", "C10.g", "C09.g", "C09.h", "C12.b", "C16.d", "C12.d", "C13.e", "C07"},
	"C11": {"C11.a", "C11.b", "C11.c", "C11.g", "C11.h", "C01.d", "C12.d", "C11.p", "C10.sym", "C04.a", "C04.a3", "C11.i", "C17.g", "C10.scan", "C03.c"},
	"C12": {"C12.a", "C12.b", "C12.d", "C16.d", "C12.e", "C13.b", "C12.f", "C02.f", "C07.g", "C12.g", "C16.f"},
	"C13": {"C13.a", "C13.b", "C13.c", "C10.f", "C01.a", "C13.e"},
	"C17": {"C12.a", "C17.a", "C17.b", "C17.c", "C06.e", "C17.e", "C11.c", "C11.g", "C17.f", "C11.p", "C06.a", "C01.d", "C05.c", "C17.g", "C02.f"},
	"C16": {"C16.a", "C16.b", "C16.c", "C16.d", "C12.d", "C16.e", "C13.e", "C12.b", "C12.g", "C16.f"},
	"C15": {"C15.b", "C15.d", "C12.b", "C15.e", "C16.a", "C16.f"},
	"C14": {"C14.abc", "C14.d", "C14.e", "C14.p", "C02.f", "C11.h", "C17.b", "C06.p"},
}

func register(id string, f RuleFunc) { Registry[id] = f }

func str(s string) engine.AbsVal { return engine.Const{V: constant.MakeString(s)} }
func num(n int64) engine.AbsVal  { return engine.Const{V: constant.MakeInt64(n)} }
func boolv(b bool) engine.AbsVal { return engine.Const{V: constant.MakeBool(b)} }

func constStr(v engine.AbsVal) (string, bool) {
	if c, ok := v.(engine.Const); ok && c.V.Kind() == constant.String {
		return constant.StringVal(c.V), true
	}
	return "", false
}

func constInt(v engine.AbsVal) (int64, bool) {
	if c, ok := v.(engine.Const); ok && c.V.Kind() == constant.Int {
		n, ok := constant.Int64Val(c.V)
		return n, ok
	}
	return 0, false
}

func constBool(v engine.AbsVal) (bool, bool) {
	if c, ok := v.(engine.Const); ok && c.V.Kind() == constant.Bool {
		return constant.BoolVal(c.V), true
	}
	return false, false
}

const (
	pkgBuffer  = load.ModPath + "/internal/buffer"
	pkgRfmt    = load.ModPath + "/internal/rfmt"
	pkgBuilder = load.ModPath + "/builder"
	pkgMarkers = load.ModPath + "/internal/markers"
	pkgEscape  = load.ModPath + "/internal/escape"
	pkgIfaces  = load.ModPath + "/interfaces"
	pkgWrap    = load.ModPath + "/internal/redact"
	pkgFwd     = load.ModPath + "/internal/fmtforward"
	tBuffer    = pkgBuffer + ".Buffer"
	tPP        = pkgRfmt + ".pp"
	tFmt       = pkgRfmt + ".fmt"
	tBuilder   = pkgBuilder + ".StringBuilder"
)

var modeNames = map[int64]string{0: "UnsafeEscaped", 1: "SafeEscaped", 2: "SafeRaw"}

func modeName(v engine.AbsVal) string {
	if n, ok := constInt(v); ok {
		if s, ok := modeNames[n]; ok {
			return s
		}
		return fmt.Sprint(n)
	}
	return v.Key()
}

func sortedKeys(m map[string]*engine.Event) []string {
	ks := make([]string, 0, len(m))
	for k := range m {
		ks = append(ks, k)
	}
	sort.Strings(ks)
	return ks
}
