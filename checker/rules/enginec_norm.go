package rules

import (
	"bytes"
	"crypto/sha1"
	"fmt"
	"go/ast"
	"go/parser"
	"go/printer"
	"go/token"
	"sort"
	"strconv"
	"strings"
)

// Canonical forms for Engine C.
//
// Engine C decides "the imported code is fmt's" by comparing texts. A text
// comparison reports every edit, including those that cannot change what
// the function computes. canonFunc rewrites a function, on BOTH sides of every
// comparison, into a form that a few such edits leave unchanged:
//
//	N1  a tagless switch without init, break or fallthrough is the if/else-if
//	    chain of its cases in order (default last);
//	N2  the clauses of a switch on a tag whose labels are all literals are
//	    ordered by label (they are disjoint, so order is immaterial), the
//	    labels within a clause too;
//	N3  a write of a string concatenation is the sequence of writes of its
//	    operands, and adjacent writes of literals through the same receiver
//	    are one write of their concatenation;
//	N4  local variables are named after how they are declared (the text of
//	    the declaring form), not after what the author called them;
//	N5  x = x + 1, x += 1 and x++ are x++ (likewise x--);
//	N6  parentheses are dropped and put back by the printer where precedence
//	    needs them;
//	N7  `if !c {A} else {B}` is `if c {B} else {A}`, and `if a != b {A} else {B}`
//	    is `if a == b {B} else {A}` (only with a plain else block, no init);
//	N8  `a = a op b` is `a op= b` for an identifier a;
//	N9  `else { if c {..} }` is `else if c {..}`;
//	N10 a comparison between two operands that are identifiers, selectors of
//	    identifiers or literals is written with `<`/`<=` (never `>`/`>=`) and,
//	    for `==`/`!=`, with the operands in text order;
//	N13 `if !c { return A }; return B` at the end of a block is
//	    `if c { return B }; return A`;
//	N14 labels are named by their order of appearance;
//	N15 `for c { body; x++ }` is `for ; c; x++ { body }` when the body has no
//	    continue (the last statement of the body becomes the post statement);
//	N12 `!(a < b)` is `a >= b` (and so on) when one operand is an integer
//	    literal or a len/cap call, i.e. the comparison is between integers;
//	N11 `if c { continue }` (or a bare `return` in a function without results)
//	    followed by the rest of the block is `if !c { rest }` — the guard form
//	    and the nested form of the same control flow.
//
// Each is an equivalence of Go programs, not a heuristic; what remains
// reported is every edit outside them (hoisting, reordering of statements,
// a different but equivalent expression ...), see DESIGN §5 C04.
func canonFunc(fd *ast.FuncDecl) *ast.FuncDecl {
	if fd.Body == nil {
		return fd
	}
	// the tree may have been operated on (closures inlined, statements
	// erased): print and parse it again so that every identifier is resolved
	// in the scopes it now stands in
	var b bytes.Buffer
	if err := printer.Fprint(&b, token.NewFileSet(), fd); err == nil {
		if f, err := parser.ParseFile(token.NewFileSet(), "canon.go", "package canon\n"+b.String(), 0); err == nil {
			for _, d := range f.Decls {
				if nd, ok := d.(*ast.FuncDecl); ok && nd.Body != nil {
					fd = nd
				}
			}
		}
	}
	stripParens(fd.Body)
	orientCompares(fd.Body)
	if fd.Type.Results == nil || len(fd.Type.Results.List) == 0 {
		fd.Body.List = unguard(fd.Body.List, token.RETURN)
	} else {
		fd.Body.List = unguardReturn(fd.Body.List)
	}
	fd.Body = canonBlock(fd.Body)
	pushNot(fd.Body)
	orientCompares(fd.Body)
	alphaLocals(fd)
	renameLabels(fd)
	return fd
}

// renameLabels: N14.
func renameLabels(fd *ast.FuncDecl) {
	names := map[string]string{}
	ast.Inspect(fd.Body, func(n ast.Node) bool {
		if ls, ok := n.(*ast.LabeledStmt); ok {
			if _, had := names[ls.Label.Name]; !had {
				names[ls.Label.Name] = fmt.Sprintf("label%d", len(names))
			}
		}
		return true
	})
	if len(names) == 0 {
		return
	}
	ast.Inspect(fd.Body, func(n ast.Node) bool {
		switch x := n.(type) {
		case *ast.LabeledStmt:
			x.Label.Name = names[x.Label.Name]
		case *ast.BranchStmt:
			if x.Label != nil {
				if nn, ok := names[x.Label.Name]; ok {
					x.Label.Name = nn
				}
			}
		}
		return true
	})
}

// stripParens removes every ParenExpr; go/printer parenthesises by precedence.
func stripParens(root ast.Node) {
	unp := func(e ast.Expr) ast.Expr {
		for {
			p, ok := e.(*ast.ParenExpr)
			if !ok {
				return e
			}
			e = p.X
		}
	}
	ast.Inspect(root, func(n ast.Node) bool {
		switch x := n.(type) {
		case *ast.BinaryExpr:
			x.X, x.Y = unp(x.X), unp(x.Y)
		case *ast.UnaryExpr:
			x.X = unp(x.X)
		case *ast.StarExpr:
			x.X = unp(x.X)
		case *ast.CallExpr:
			x.Fun = unp(x.Fun)
			for i := range x.Args {
				x.Args[i] = unp(x.Args[i])
			}
		case *ast.SelectorExpr:
			x.X = unp(x.X)
		case *ast.IndexExpr:
			x.X, x.Index = unp(x.X), unp(x.Index)
		case *ast.SliceExpr:
			x.X = unp(x.X)
			if x.Low != nil {
				x.Low = unp(x.Low)
			}
			if x.High != nil {
				x.High = unp(x.High)
			}
			if x.Max != nil {
				x.Max = unp(x.Max)
			}
		case *ast.TypeAssertExpr:
			x.X = unp(x.X)
		case *ast.KeyValueExpr:
			x.Key, x.Value = unp(x.Key), unp(x.Value)
		case *ast.CompositeLit:
			for i := range x.Elts {
				x.Elts[i] = unp(x.Elts[i])
			}
		case *ast.AssignStmt:
			for i := range x.Lhs {
				x.Lhs[i] = unp(x.Lhs[i])
			}
			for i := range x.Rhs {
				x.Rhs[i] = unp(x.Rhs[i])
			}
		case *ast.ReturnStmt:
			for i := range x.Results {
				x.Results[i] = unp(x.Results[i])
			}
		case *ast.IfStmt:
			x.Cond = unp(x.Cond)
		case *ast.ForStmt:
			if x.Cond != nil {
				x.Cond = unp(x.Cond)
			}
		case *ast.SwitchStmt:
			if x.Tag != nil {
				x.Tag = unp(x.Tag)
			}
		case *ast.CaseClause:
			for i := range x.List {
				x.List[i] = unp(x.List[i])
			}
		case *ast.ExprStmt:
			x.X = unp(x.X)
		case *ast.RangeStmt:
			x.X = unp(x.X)
		case *ast.IncDecStmt:
			x.X = unp(x.X)
		case *ast.ValueSpec:
			for i := range x.Values {
				x.Values[i] = unp(x.Values[i])
			}
		}
		return true
	})
}

func canonBlock(b *ast.BlockStmt) *ast.BlockStmt {
	if b == nil {
		return nil
	}
	b.List = canonList(b.List)
	return b
}

func canonList(list []ast.Stmt) []ast.Stmt {
	var out []ast.Stmt
	for _, s := range list {
		out = append(out, canonStmt(s)...)
	}
	out = mergeLiteralWrites(out)
	// N13: the positive form of `if c { return A }; return B`
	if n := len(out); n >= 2 {
		ifs, ok1 := out[n-2].(*ast.IfStmt)
		last, ok2 := out[n-1].(*ast.ReturnStmt)
		if ok1 && ok2 && ifs.Else == nil && ifs.Init == nil && len(ifs.Body.List) == 1 {
			if inner, ok := ifs.Body.List[0].(*ast.ReturnStmt); ok {
				swap := false
				switch c := ifs.Cond.(type) {
				case *ast.UnaryExpr:
					if c.Op == token.NOT {
						ifs.Cond = c.X
						swap = true
					}
				case *ast.BinaryExpr:
					if c.Op == token.NEQ {
						c.Op = token.EQL
						swap = true
					}
				}
				if swap {
					ifs.Body.List[0] = last
					out[n-1] = inner
				}
			}
		}
	}
	return out
}

// loopPost: N15.
func loopPost(x *ast.ForStmt) {
	if x.Post != nil || x.Init != nil || x.Cond == nil || len(x.Body.List) < 2 {
		return
	}
	last := x.Body.List[len(x.Body.List)-1]
	switch l := last.(type) {
	case *ast.IncDecStmt:
		if _, ok := l.X.(*ast.Ident); !ok {
			return
		}
	default:
		return
	}
	hasContinue := false
	ast.Inspect(x.Body, func(n ast.Node) bool {
		switch b := n.(type) {
		case *ast.BranchStmt:
			if b.Tok == token.CONTINUE {
				hasContinue = true
			}
		case *ast.FuncLit:
			return false
		}
		return true
	})
	if hasContinue {
		return
	}
	x.Post = last
	x.Body.List = x.Body.List[:len(x.Body.List)-1]
}

func canonStmt(s ast.Stmt) []ast.Stmt {
	switch x := s.(type) {
	case *ast.BlockStmt:
		canonBlock(x)
	case *ast.IfStmt:
		canonBlock(x.Body)
		if x.Else != nil {
			e := canonStmt(x.Else)
			if len(e) == 1 {
				x.Else = e[0]
			}
			// N9: else { if .. }  ->  else if ..
			if eb, ok := x.Else.(*ast.BlockStmt); ok && len(eb.List) == 1 {
				if inner, ok := eb.List[0].(*ast.IfStmt); ok {
					x.Else = inner
				}
			}
		}
		// N7: the positive form of a two-armed if
		if eb, ok := x.Else.(*ast.BlockStmt); ok && x.Init == nil {
			switch c := x.Cond.(type) {
			case *ast.UnaryExpr:
				if c.Op == token.NOT {
					x.Cond = c.X
					x.Body, x.Else = eb, x.Body
				}
			case *ast.BinaryExpr:
				if c.Op == token.NEQ {
					c.Op = token.EQL
					x.Body, x.Else = eb, x.Body
				}
			}
		}
	case *ast.AssignStmt:
		// N5: x = x + 1, x += 1  ->  x++
		if len(x.Lhs) == 1 && len(x.Rhs) == 1 {
			one := func(e ast.Expr) bool {
				l, ok := e.(*ast.BasicLit)
				return ok && l.Kind == token.INT && l.Value == "1"
			}
			lhs := exprString(x.Lhs[0])
			switch x.Tok {
			case token.ADD_ASSIGN, token.SUB_ASSIGN:
				if one(x.Rhs[0]) {
					tok := token.INC
					if x.Tok == token.SUB_ASSIGN {
						tok = token.DEC
					}
					return []ast.Stmt{&ast.IncDecStmt{X: x.Lhs[0], Tok: tok}}
				}
			case token.ASSIGN:
				if be, ok := x.Rhs[0].(*ast.BinaryExpr); ok && (be.Op == token.ADD || be.Op == token.SUB) && one(be.Y) && exprString(be.X) == lhs {
					if _, isId := x.Lhs[0].(*ast.Ident); isId {
						tok := token.INC
						if be.Op == token.SUB {
							tok = token.DEC
						}
						return []ast.Stmt{&ast.IncDecStmt{X: x.Lhs[0], Tok: tok}}
					}
				}
				// N8: a = a op b  ->  a op= b
				if be, ok := x.Rhs[0].(*ast.BinaryExpr); ok && exprString(be.X) == lhs {
					if _, isId := x.Lhs[0].(*ast.Ident); isId {
						if at, ok := map[token.Token]token.Token{token.ADD: token.ADD_ASSIGN, token.SUB: token.SUB_ASSIGN, token.MUL: token.MUL_ASSIGN, token.QUO: token.QUO_ASSIGN, token.REM: token.REM_ASSIGN, token.AND: token.AND_ASSIGN, token.OR: token.OR_ASSIGN, token.XOR: token.XOR_ASSIGN, token.SHL: token.SHL_ASSIGN, token.SHR: token.SHR_ASSIGN, token.AND_NOT: token.AND_NOT_ASSIGN}[be.Op]; ok {
							x.Tok = at
							x.Rhs[0] = be.Y
						}
					}
				}
			}
		}
	case *ast.ForStmt:
		x.Body.List = unguard(x.Body.List, token.CONTINUE)
		canonBlock(x.Body)
		loopPost(x)
	case *ast.RangeStmt:
		x.Body.List = unguard(x.Body.List, token.CONTINUE)
		canonBlock(x.Body)
	case *ast.LabeledStmt:
		in := canonStmt(x.Stmt)
		if len(in) == 1 {
			x.Stmt = in[0]
		}
	case *ast.CaseClause:
		x.Body = canonList(x.Body)
	case *ast.TypeSwitchStmt:
		for _, c := range x.Body.List {
			canonStmt(c)
		}
	case *ast.SelectStmt:
		for _, c := range x.Body.List {
			if cc, ok := c.(*ast.CommClause); ok {
				cc.Body = canonList(cc.Body)
			}
		}
	case *ast.SwitchStmt:
		for _, c := range x.Body.List {
			canonStmt(c)
		}
		if x.Tag == nil && x.Init == nil && !hasBreakOrFallthrough(x) {
			if r := switchToIf(x); r != nil {
				return []ast.Stmt{r}
			}
			return nil // a switch without clauses does nothing
		}
		if x.Tag != nil {
			sortLiteralClauses(x)
		}
	case *ast.ExprStmt:
		return splitConcatWrite(x)
	case *ast.DeferStmt, *ast.GoStmt:
	}
	// function literals inside expressions
	ast.Inspect(s, func(n ast.Node) bool {
		if fl, ok := n.(*ast.FuncLit); ok {
			canonBlock(fl.Body)
			return false
		}
		return true
	})
	return []ast.Stmt{s}
}

// hasBreakOrFallthrough: a break that targets (or may target) this switch, or
// a fallthrough between its clauses.
func hasBreakOrFallthrough(sw *ast.SwitchStmt) bool {
	found := false
	var walk func(n ast.Node, nested bool)
	walk = func(n ast.Node, nested bool) {
		ast.Inspect(n, func(x ast.Node) bool {
			if found || x == nil {
				return false
			}
			switch v := x.(type) {
			case *ast.BranchStmt:
				switch {
				case v.Tok == token.FALLTHROUGH && !nested:
					found = true
				case v.Tok == token.BREAK && v.Label != nil:
					found = true // may name this switch
				case v.Tok == token.BREAK && !nested:
					found = true
				}
			case *ast.ForStmt, *ast.RangeStmt, *ast.SelectStmt, *ast.SwitchStmt, *ast.TypeSwitchStmt:
				if !nested || x != n {
					if x != n {
						walk(x, true)
						return false
					}
				}
			case *ast.FuncLit:
				return false
			}
			return true
		})
	}
	for _, c := range sw.Body.List {
		walk(c, false)
	}
	return found
}

func switchToIf(sw *ast.SwitchStmt) ast.Stmt {
	var cases []*ast.CaseClause
	var def *ast.CaseClause
	for _, c := range sw.Body.List {
		cc := c.(*ast.CaseClause)
		if cc.List == nil {
			def = cc
		} else {
			cases = append(cases, cc)
		}
	}
	var tail ast.Stmt
	if def != nil {
		tail = &ast.BlockStmt{List: def.Body}
	}
	for i := len(cases) - 1; i >= 0; i-- {
		cc := cases[i]
		var cond ast.Expr
		for _, e := range cc.List {
			if cond == nil {
				cond = e
			} else {
				cond = &ast.BinaryExpr{X: cond, Op: token.LOR, Y: e}
			}
		}
		tail = &ast.IfStmt{Cond: cond, Body: &ast.BlockStmt{List: cc.Body}, Else: tail}
	}
	return tail
}

func sortLiteralClauses(sw *ast.SwitchStmt) {
	for _, c := range sw.Body.List {
		cc := c.(*ast.CaseClause)
		for _, e := range cc.List {
			if _, ok := e.(*ast.BasicLit); !ok {
				return
			}
		}
	}
	if hasBreakOrFallthroughOnlyFallthrough(sw) {
		return
	}
	for _, c := range sw.Body.List {
		cc := c.(*ast.CaseClause)
		sort.SliceStable(cc.List, func(i, j int) bool {
			return cc.List[i].(*ast.BasicLit).Value < cc.List[j].(*ast.BasicLit).Value
		})
	}
	key := func(c ast.Stmt) string {
		cc := c.(*ast.CaseClause)
		if cc.List == nil {
			return "\xff"
		}
		return cc.List[0].(*ast.BasicLit).Value
	}
	sort.SliceStable(sw.Body.List, func(i, j int) bool { return key(sw.Body.List[i]) < key(sw.Body.List[j]) })
}

func hasBreakOrFallthroughOnlyFallthrough(sw *ast.SwitchStmt) bool {
	found := false
	for _, c := range sw.Body.List {
		cc := c.(*ast.CaseClause)
		if n := len(cc.Body); n > 0 {
			if b, ok := cc.Body[n-1].(*ast.BranchStmt); ok && b.Tok == token.FALLTHROUGH {
				found = true
			}
		}
	}
	return found
}

// ---- N3: writes of constants

var writeMethods = map[string]bool{"writeString": true, "writeByte": true, "writeRune": true, "WriteString": true, "WriteByte": true, "WriteRune": true}

// litWrite: s is `R.writeX(<literal>)`; returns R's text and the literal's value.
func litWrite(s ast.Stmt) (recv, val string, ok bool) {
	es, isE := s.(*ast.ExprStmt)
	if !isE {
		return
	}
	call, isC := es.X.(*ast.CallExpr)
	if !isC || len(call.Args) != 1 {
		return
	}
	sel, isS := call.Fun.(*ast.SelectorExpr)
	if !isS || !writeMethods[sel.Sel.Name] {
		return
	}
	lit, isL := call.Args[0].(*ast.BasicLit)
	if !isL {
		return
	}
	switch lit.Kind {
	case token.STRING:
		v, err := strconv.Unquote(lit.Value)
		if err != nil {
			return
		}
		return exprString(sel.X), v, true
	case token.CHAR:
		v, _, _, err := strconv.UnquoteChar(strings.Trim(lit.Value, "'"), '\'')
		if err != nil {
			return
		}
		if strings.HasSuffix(strings.ToLower(sel.Sel.Name), "byte") && v > 0x7f {
			return // a byte above 0x7f is not the rune's encoding
		}
		return exprString(sel.X), string(v), true
	}
	return
}

// splitConcatWrite: R.writeString(a + b + c) is R.writeString(a); R.writeString(b); R.writeString(c).
func splitConcatWrite(es *ast.ExprStmt) []ast.Stmt {
	call, ok := es.X.(*ast.CallExpr)
	if !ok || len(call.Args) != 1 {
		return []ast.Stmt{es}
	}
	sel, ok := call.Fun.(*ast.SelectorExpr)
	if !ok || (sel.Sel.Name != "writeString" && sel.Sel.Name != "WriteString") {
		return []ast.Stmt{es}
	}
	var parts []ast.Expr
	var flat func(e ast.Expr)
	flat = func(e ast.Expr) {
		if be, ok := e.(*ast.BinaryExpr); ok && be.Op == token.ADD {
			flat(be.X)
			flat(be.Y)
			return
		}
		if pe, ok := e.(*ast.ParenExpr); ok {
			flat(pe.X)
			return
		}
		parts = append(parts, e)
	}
	flat(call.Args[0])
	if len(parts) < 2 {
		return []ast.Stmt{es}
	}
	// only when every operand is a literal or a plain identifier (a named
	// constant): evaluating them has no effect and cannot fail
	for _, p := range parts {
		switch p.(type) {
		case *ast.BasicLit, *ast.Ident:
		default:
			return []ast.Stmt{es}
		}
	}
	var out []ast.Stmt
	for _, p := range parts {
		out = append(out, &ast.ExprStmt{X: &ast.CallExpr{Fun: &ast.SelectorExpr{X: sel.X, Sel: ast.NewIdent(sel.Sel.Name)}, Args: []ast.Expr{p}}})
	}
	return out
}

func mergeLiteralWrites(list []ast.Stmt) []ast.Stmt {
	var out []ast.Stmt
	for i := 0; i < len(list); i++ {
		recv, val, ok := litWrite(list[i])
		if !ok {
			out = append(out, list[i])
			continue
		}
		j := i + 1
		n := 1
		for j < len(list) {
			r2, v2, ok2 := litWrite(list[j])
			if !ok2 || r2 != recv {
				break
			}
			val += v2
			n++
			j++
		}
		if n == 1 {
			out = append(out, list[i])
			continue
		}
		es := list[i].(*ast.ExprStmt)
		sel := es.X.(*ast.CallExpr).Fun.(*ast.SelectorExpr)
		name := "writeString"
		if sel.Sel.Name[0] == 'W' {
			name = "WriteString"
		}
		out = append(out, &ast.ExprStmt{X: &ast.CallExpr{Fun: &ast.SelectorExpr{X: sel.X, Sel: ast.NewIdent(name)}, Args: []ast.Expr{&ast.BasicLit{Kind: token.STRING, Value: strconv.Quote(val)}}}})
		i = j - 1
	}
	return out
}

// ---- N4: locals named after their declaration

// alphaLocals renames every variable declared inside the function body (:=,
// var, range, type-switch binding, parameters of function literals) to a name
// derived from the declaring form, processed in source order so that a form
// mentioning earlier locals mentions their canonical names.
func alphaLocals(fd *ast.FuncDecl) {
	renamed := map[*ast.Object]string{}
	used := map[string]int{}
	// uses are rewritten as soon as a name is chosen, so later forms print canonically
	rename := func(obj *ast.Object, form string) {
		if obj == nil || obj.Kind != ast.Var || renamed[obj] != "" || obj.Name == "_" {
			return
		}
		h := sha1.Sum([]byte(form))
		name := fmt.Sprintf("L%x", h[:4])
		used[name]++
		if used[name] > 1 {
			name = fmt.Sprintf("%s_%d", name, used[name])
		}
		renamed[obj] = name
		ast.Inspect(fd.Body, func(n ast.Node) bool {
			if id, ok := n.(*ast.Ident); ok && id.Obj == obj {
				id.Name = name
			}
			return true
		})
	}
	// parameters and results keep their (already canonical / signature) names
	isParamOrResult := map[*ast.Object]bool{}
	mark := func(fl *ast.FieldList) {
		if fl == nil {
			return
		}
		for _, f := range fl.List {
			for _, n := range f.Names {
				if n.Obj != nil {
					isParamOrResult[n.Obj] = true
				}
			}
		}
	}
	mark(fd.Type.Params)
	mark(fd.Type.Results)
	mark(fd.Recv)
	ast.Inspect(fd.Body, func(n ast.Node) bool {
		switch x := n.(type) {
		case *ast.AssignStmt:
			if x.Tok != token.DEFINE {
				return true
			}
			rhs := ""
			for _, r := range x.Rhs {
				rhs += exprString(r) + ";"
			}
			for i, l := range x.Lhs {
				if id, ok := l.(*ast.Ident); ok && id.Obj != nil && id.Obj.Decl == ast.Node(x) && !isParamOrResult[id.Obj] {
					rename(id.Obj, fmt.Sprintf(":=#%d/%d %s", i, len(x.Lhs), rhs))
				}
			}
		case *ast.ValueSpec:
			form := "var "
			if x.Type != nil {
				form += exprString(x.Type)
			}
			for _, v := range x.Values {
				form += " = " + exprString(v)
			}
			for i, id := range x.Names {
				if id.Obj != nil && !isParamOrResult[id.Obj] {
					rename(id.Obj, fmt.Sprintf("%s #%d", form, i))
				}
			}
		case *ast.RangeStmt:
			if x.Tok == token.DEFINE {
				if id, ok := x.Key.(*ast.Ident); ok && id.Obj != nil {
					rename(id.Obj, "range-key "+exprString(x.X))
				}
				if id, ok := x.Value.(*ast.Ident); ok && id.Obj != nil {
					rename(id.Obj, "range-value "+exprString(x.X))
				}
			}
		case *ast.FuncLit:
			k := 0
			if x.Type.Params != nil {
				for _, f := range x.Type.Params.List {
					for _, id := range f.Names {
						if id.Obj != nil {
							obj := id.Obj
							name := fmt.Sprintf("lp%d", k)
							renamed[obj] = name
							ast.Inspect(x, func(m ast.Node) bool {
								if u, ok := m.(*ast.Ident); ok && u.Obj == obj {
									u.Name = name
								}
								return true
							})
						}
						k++
					}
				}
			}
		}
		return true
	})
}

// orientCompares: N10.
func orientCompares(root ast.Node) {
	var simple func(e ast.Expr) bool
	simple = func(e ast.Expr) bool {
		switch x := e.(type) {
		case *ast.Ident, *ast.BasicLit:
			return true
		case *ast.SelectorExpr:
			_, ok := x.X.(*ast.Ident)
			return ok
		}
		return false
	}
	ast.Inspect(root, func(n ast.Node) bool {
		be, ok := n.(*ast.BinaryExpr)
		if !ok || !simple(be.X) || !simple(be.Y) {
			return true
		}
		switch be.Op {
		case token.GTR:
			be.Op, be.X, be.Y = token.LSS, be.Y, be.X
		case token.GEQ:
			be.Op, be.X, be.Y = token.LEQ, be.Y, be.X
		case token.EQL, token.NEQ:
			if exprString(be.X) > exprString(be.Y) {
				be.X, be.Y = be.Y, be.X
			}
		}
		return true
	})
}

// unguard: N11. In a loop body (exit = continue) or in the body of a function
// without results (exit = return): `if c { exit }` followed by the rest R of
// the block becomes `if !c { R }`. Applied from the last guard backwards, so a
// sequence of guards nests. The rest must not declare anything a later
// statement outside would need (it is the tail of the block, so nothing
// follows), and an unlabelled continue inside R still targets the same loop.
func unguard(list []ast.Stmt, exit token.Token) []ast.Stmt {
	for i := len(list) - 1; i >= 0; i-- {
		ifs, ok := list[i].(*ast.IfStmt)
		if !ok || ifs.Else != nil || ifs.Init != nil || len(ifs.Body.List) != 1 {
			continue
		}
		isExit := false
		switch b := ifs.Body.List[0].(type) {
		case *ast.BranchStmt:
			isExit = exit == token.CONTINUE && b.Tok == token.CONTINUE && b.Label == nil
		case *ast.ReturnStmt:
			isExit = exit == token.RETURN && len(b.Results) == 0
		}
		if !isExit || i == len(list)-1 {
			continue
		}
		rest := append([]ast.Stmt{}, list[i+1:]...)
		neg := &ast.UnaryExpr{Op: token.NOT, X: ifs.Cond}
		var cond ast.Expr = neg
		if u, ok := ifs.Cond.(*ast.UnaryExpr); ok && u.Op == token.NOT {
			cond = u.X
		} else if be, ok := ifs.Cond.(*ast.BinaryExpr); ok {
			if inv, ok := map[token.Token]token.Token{token.EQL: token.NEQ, token.NEQ: token.EQL}[be.Op]; ok {
				cond = &ast.BinaryExpr{X: be.X, Op: inv, Y: be.Y}
			}
		}
		list = append(append([]ast.Stmt{}, list[:i]...), &ast.IfStmt{Cond: cond, Body: &ast.BlockStmt{List: rest}})
	}
	return list
}

// unguardReturn: N11 for a function with results. `if c { return E }` followed
// by a rest R that ends in `return E` — the same E, a bare return (named
// results) or identifiers and literals only — is `if !c { R' }; return E` with
// R' = R without its final return: both forms reach the same return with the
// same values, having run R' exactly when c is false.
func unguardReturn(list []ast.Stmt) []ast.Stmt {
	if len(list) < 3 {
		return list
	}
	last, ok := list[len(list)-1].(*ast.ReturnStmt)
	if !ok {
		return list
	}
	simple := func(rs []ast.Expr) bool {
		for _, e := range rs {
			switch e.(type) {
			case *ast.Ident, *ast.BasicLit:
			default:
				return false
			}
		}
		return true
	}
	if !simple(last.Results) {
		return list
	}
	same := func(a, b []ast.Expr) bool {
		if len(a) != len(b) {
			return false
		}
		for i := range a {
			if exprString(a[i]) != exprString(b[i]) {
				return false
			}
		}
		return true
	}
	for i := len(list) - 3; i >= 0; i-- {
		ifs, ok := list[i].(*ast.IfStmt)
		if !ok || ifs.Else != nil || ifs.Init != nil || len(ifs.Body.List) != 1 {
			continue
		}
		ret, ok := ifs.Body.List[0].(*ast.ReturnStmt)
		if !ok || !same(ret.Results, last.Results) {
			continue
		}
		// the rest must not assign what E reads (then "the same E" would be another value)
		rest := append([]ast.Stmt{}, list[i+1:len(list)-1]...)
		names := map[string]bool{}
		for _, e := range last.Results {
			if id, ok := e.(*ast.Ident); ok {
				names[id.Name] = true
			}
		}
		assigns := false
		if len(last.Results) > 0 {
			for _, st := range rest {
				ast.Inspect(st, func(n ast.Node) bool {
					switch x := n.(type) {
					case *ast.AssignStmt:
						for _, l := range x.Lhs {
							if id, ok := l.(*ast.Ident); ok && names[id.Name] {
								assigns = true
							}
						}
					case *ast.IncDecStmt:
						if id, ok := x.X.(*ast.Ident); ok && names[id.Name] {
							assigns = true
						}
					case *ast.UnaryExpr:
						if x.Op == token.AND {
							if id, ok := x.X.(*ast.Ident); ok && names[id.Name] {
								assigns = true
							}
						}
					}
					return true
				})
			}
		}
		if assigns {
			continue
		}
		var cond ast.Expr = &ast.UnaryExpr{Op: token.NOT, X: ifs.Cond}
		if u, ok := ifs.Cond.(*ast.UnaryExpr); ok && u.Op == token.NOT {
			cond = u.X
		} else if be, ok := ifs.Cond.(*ast.BinaryExpr); ok {
			if inv, ok := map[token.Token]token.Token{token.EQL: token.NEQ, token.NEQ: token.EQL}[be.Op]; ok {
				cond = &ast.BinaryExpr{X: be.X, Op: inv, Y: be.Y}
			}
		}
		out := append([]ast.Stmt{}, list[:i]...)
		out = append(out, &ast.IfStmt{Cond: cond, Body: &ast.BlockStmt{List: rest}}, last)
		list = out
	}
	return list
}

// isIntish: e is certainly an integer: an INT literal or len(..)/cap(..).
func isIntish(e ast.Expr) bool {
	switch x := e.(type) {
	case *ast.BasicLit:
		return x.Kind == token.INT
	case *ast.CallExpr:
		if id, ok := x.Fun.(*ast.Ident); ok && (id.Name == "len" || id.Name == "cap") {
			return true
		}
	}
	return false
}

// pushNot: N12 — the negation of an integer comparison is the opposite comparison.
func pushNot(root ast.Node) {
	flip := map[token.Token]token.Token{token.LSS: token.GEQ, token.GEQ: token.LSS, token.GTR: token.LEQ, token.LEQ: token.GTR, token.EQL: token.NEQ, token.NEQ: token.EQL}
	rewrite := func(e ast.Expr) ast.Expr {
		u, ok := e.(*ast.UnaryExpr)
		if !ok || u.Op != token.NOT {
			return e
		}
		x := u.X
		if p, ok := x.(*ast.ParenExpr); ok {
			x = p.X
		}
		be, ok := x.(*ast.BinaryExpr)
		if !ok {
			return e
		}
		f, ok := flip[be.Op]
		if !ok || !(isIntish(be.X) || isIntish(be.Y)) {
			return e
		}
		return &ast.BinaryExpr{X: be.X, Op: f, Y: be.Y}
	}
	ast.Inspect(root, func(n ast.Node) bool {
		switch x := n.(type) {
		case *ast.IfStmt:
			x.Cond = rewrite(x.Cond)
		case *ast.ForStmt:
			if x.Cond != nil {
				x.Cond = rewrite(x.Cond)
			}
		case *ast.BinaryExpr:
			x.X, x.Y = rewrite(x.X), rewrite(x.Y)
		case *ast.AssignStmt:
			for i := range x.Rhs {
				x.Rhs[i] = rewrite(x.Rhs[i])
			}
		case *ast.ReturnStmt:
			for i := range x.Results {
				x.Results[i] = rewrite(x.Results[i])
			}
		}
		return true
	})
}
