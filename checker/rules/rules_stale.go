package rules

import (
	"fmt"
	"go/token"
	"go/types"
	"sort"
	"strings"

	"golang.org/x/tools/go/ssa"

	"redactverif/report"
)

func init() { register("C12.f", ruleC12f) }

// Rule C12.f — width and precision of an earlier call are never read.
//
// The formatter state (type fmt) lives in a pooled printer. clearflags zeroes
// the flag block, including widPresent and precPresent, but not wid and prec:
// those keep the value the previous directive — possibly of a previous call,
// of another goroutine's earlier call — left in them, and the fast path of
// doPrintf and doPrint never assign them. The discipline that makes this
// harmless is fmt's own: wid is read only where widPresent is known to be
// set, prec only where precPresent is. The rule checks that discipline on
// every load, with a forward must-analysis per function:
//
//	fact fresh(wid)  holds after a store to wid, and on the edge of a branch
//	                 on which a flag of G(wid) is known true;
//	fact fresh(prec) likewise with G(prec);
//	facts are killed by a call that can reach a writer of the flag block;
//	G(prec) = {precPresent}; G(wid) = {widPresent} plus precPresent when every
//	store of a possibly-true precPresent is preceded, on all paths since the
//	last clearflags, by a store to wid (the slow path of doPrintf assigns wid
//	for every directive it parses).
//
// Exempt by shape: the fmt.State accessors (the value is returned together
// with its presence flag), and a read that only sizes a scratch buffer.
func ruleC12f(c *Ctx) []*report.Result {
	r := report.NewResult("C12.f", "pooled formatter state: every load of fmt.wid (fmt.prec) is reached only with widPresent (precPresent) known true on that path, or after a store to it in the same function — clearflags resets the presence flags but not the numbers, so an unguarded load reads the width or precision of an earlier call", 14)
	var fns []*ssa.Function
	for _, fn := range c.P.ModuleFunctions() {
		if pkgPathOf(fn) == pkgRfmt && fn.Blocks != nil {
			fns = append(fns, fn)
		}
	}
	sort.Slice(fns, func(i, j int) bool { return fns[i].String() < fns[j].String() })
	isFmtField := func(fa *ssa.FieldAddr, name string) bool {
		pt, ok := fa.X.Type().Underlying().(*types.Pointer)
		if !ok {
			return false
		}
		st, ok := pt.Elem().Underlying().(*types.Struct)
		if !ok || st.Field(fa.Field).Name() != name {
			return false
		}
		n := namedOf(pt.Elem())
		return n == pkgRfmt+".fmt" || n == pkgRfmt+".fmtFlags"
	}
	loadOf := func(v ssa.Value, name string) bool {
		u, ok := v.(*ssa.UnOp)
		if !ok || u.Op != token.MUL {
			return false
		}
		fa, ok := u.X.(*ssa.FieldAddr)
		return ok && isFmtField(fa, name)
	}
	// writers of the flag block: stores to a presence flag, to the embedded
	// fmtFlags as a whole, or to the fmt struct as a whole
	writers := map[*ssa.Function]bool{}
	for _, fn := range fns {
		for _, b := range fn.Blocks {
			for _, ins := range b.Instrs {
				if st, ok := ins.(*ssa.Store); ok {
					if fa, ok := st.Addr.(*ssa.FieldAddr); ok {
						if isFmtField(fa, "widPresent") || isFmtField(fa, "precPresent") || isFmtField(fa, "fmtFlags") {
							writers[fn] = true
						}
					}
				}
			}
		}
	}
	reachesWriter := map[*ssa.Function]bool{}
	for _, fn := range fns {
		for g := range c.reach(fn, true) {
			if writers[g] {
				reachesWriter[fn] = true
			}
		}
	}
	kills := func(ins ssa.Instruction) bool {
		ci, ok := ins.(ssa.CallInstruction)
		if !ok {
			return false
		}
		if _, isDefer := ins.(*ssa.Defer); isDefer {
			return false
		}
		if _, isB := ci.Common().Value.(*ssa.Builtin); isB {
			return false
		}
		f := ci.Common().StaticCallee()
		if f == nil {
			return true // dynamic: user code may re-enter the printer
		}
		if !c.P.InModule(f) {
			// the standard library does not know the printer, unless it is
			// handed a callback into it (reflection and sorting take none here)
			return false
		}
		return reachesWriter[f]
	}
	type facts map[string]bool
	// flow computes, for every instruction index of every block, the facts
	// that hold before it. gen/edge are supplied by the caller.
	flow := func(fn *ssa.Function, all []string, gen func(ssa.Instruction) []string, edge func(from *ssa.BasicBlock, succIdx int) []string, killAll func(ssa.Instruction) bool) map[ssa.Instruction]facts {
		in := map[*ssa.BasicBlock]facts{}
		top := func() facts {
			f := facts{}
			for _, a := range all {
				f[a] = true
			}
			return f
		}
		for _, b := range fn.Blocks {
			in[b] = top()
		}
		in[fn.Blocks[0]] = facts{}
		before := map[ssa.Instruction]facts{}
		for changed := true; changed; {
			changed = false
			for _, b := range fn.Blocks {
				if b == fn.Recover {
					continue
				}
				cur := facts{}
				for k := range in[b] {
					cur[k] = true
				}
				for _, ins := range b.Instrs {
					snap := facts{}
					for k := range cur {
						snap[k] = true
					}
					before[ins] = snap
					if killAll(ins) {
						cur = facts{}
					}
					for _, g := range gen(ins) {
						cur[g] = true
					}
				}
				for si, s := range b.Succs {
					out := facts{}
					for k := range cur {
						out[k] = true
					}
					for _, g := range edge(b, si) {
						out[g] = true
					}
					// meet
					nw := facts{}
					for k := range in[s] {
						if out[k] {
							nw[k] = true
						}
					}
					if len(nw) != len(in[s]) {
						in[s] = nw
						changed = true
					}
				}
			}
		}
		return before
	}
	// implies: the boolean v being true implies that flag g is set. v is the
	// flag itself, or the value of `g && …` kept in a local: a phi whose every
	// edge is the constant false, or a value that implies g, or comes from a
	// block entered only through the true edge of a test that implies g.
	var implies func(v ssa.Value, g string, depth int) bool
	implies = func(v ssa.Value, g string, depth int) bool {
		if depth > 4 {
			return false
		}
		if loadOf(v, g) {
			return true
		}
		ph, ok := v.(*ssa.Phi)
		if !ok {
			return false
		}
		for i, e := range ph.Edges {
			if k, isC := e.(*ssa.Const); isC && k.Value != nil && k.Value.String() == "false" {
				continue
			}
			if implies(e, g, depth+1) {
				continue
			}
			pred := ph.Block().Preds[i]
			okEdge := false
			for _, gb := range ph.Block().Parent().Blocks {
				iff, isIf := gb.Instrs[len(gb.Instrs)-1].(*ssa.If)
				if !isIf || !implies(iff.Cond, g, depth+1) {
					continue
				}
				t := gb.Succs[0]
				if len(t.Preds) == 1 && (t == pred || t.Dominates(pred)) {
					okEdge = true
				}
			}
			if !okEdge {
				return false
			}
		}
		return true
	}
	// flagOnEdge: the flags known true when leaving b by successor si
	flagOnEdge := func(b *ssa.BasicBlock, si int) []string {
		iff, ok := b.Instrs[len(b.Instrs)-1].(*ssa.If)
		if !ok {
			return nil
		}
		cond := iff.Cond
		want := 0 // the true successor
		if u, ok := cond.(*ssa.UnOp); ok && u.Op == token.NOT {
			cond = u.X
			want = 1
		}
		if si != want {
			return nil
		}
		var out []string
		for _, g := range []string{"widPresent", "precPresent"} {
			if implies(cond, g, 0) {
				out = append(out, g)
			}
		}
		return out
	}
	// step 1: does precPresent imply a fresh wid?
	precImpliesWid := true
	precStores := 0
	for _, fn := range fns {
		var sites []*ssa.Store
		for _, b := range fn.Blocks {
			for _, ins := range b.Instrs {
				if st, ok := ins.(*ssa.Store); ok {
					if fa, ok := st.Addr.(*ssa.FieldAddr); ok && isFmtField(fa, "precPresent") {
						if cst, ok := st.Val.(*ssa.Const); ok && cst.Value != nil && cst.Value.String() == "false" {
							continue
						}
						sites = append(sites, st)
					}
				}
			}
		}
		if len(sites) == 0 {
			continue
		}
		before := flow(fn, []string{"widAssigned"},
			func(ins ssa.Instruction) []string {
				if st, ok := ins.(*ssa.Store); ok {
					if fa, ok := st.Addr.(*ssa.FieldAddr); ok && isFmtField(fa, "wid") {
						return []string{"widAssigned"}
					}
				}
				return nil
			},
			func(*ssa.BasicBlock, int) []string { return nil },
			func(ins ssa.Instruction) bool {
				// clearflags (or anything rewriting the flag block) ends a directive
				if ci, ok := ins.(ssa.CallInstruction); ok {
					if f := ci.Common().StaticCallee(); f != nil && c.P.InModule(f) && reachesWriter[f] {
						return true
					}
				}
				if st, ok := ins.(*ssa.Store); ok {
					if fa, ok := st.Addr.(*ssa.FieldAddr); ok && isFmtField(fa, "fmtFlags") {
						return true
					}
				}
				return false
			})
		for _, st := range sites {
			precStores++
			if !before[st]["widAssigned"] {
				precImpliesWid = false
			}
		}
	}
	if precStores == 0 {
		precImpliesWid = false
	}
	r.Note(fmt.Sprintf("precPresent implies an assigned width: %v (%d stores of a possibly-true precPresent examined)", precImpliesWid, precStores))
	G := map[string][]string{"wid": {"widPresent"}, "prec": {"precPresent"}}
	if precImpliesWid {
		G["wid"] = append(G["wid"], "precPresent")
	}
	// step 2: every load
	loads := 0
	for _, fn := range fns {
		has := false
		for _, b := range fn.Blocks {
			for _, ins := range b.Instrs {
				if u, ok := ins.(*ssa.UnOp); ok && (loadOf(u, "wid") || loadOf(u, "prec")) {
					has = true
				}
			}
		}
		if !has {
			continue
		}
		before := flow(fn, []string{"fresh:wid", "fresh:prec"},
			func(ins ssa.Instruction) []string {
				if st, ok := ins.(*ssa.Store); ok {
					if fa, ok := st.Addr.(*ssa.FieldAddr); ok {
						if isFmtField(fa, "wid") {
							return []string{"fresh:wid"}
						}
						if isFmtField(fa, "prec") {
							return []string{"fresh:prec"}
						}
					}
				}
				return nil
			},
			func(b *ssa.BasicBlock, si int) []string {
				var out []string
				for _, g := range flagOnEdge(b, si) {
					for _, fld := range []string{"wid", "prec"} {
						for _, ok := range G[fld] {
							if ok == g {
								out = append(out, "fresh:"+fld)
							}
						}
					}
				}
				return out
			}, kills)
		name := shortFn(fn.String())
		for _, b := range fn.Blocks {
			for _, ins := range b.Instrs {
				u, ok := ins.(*ssa.UnOp)
				if !ok {
					continue
				}
				fld := ""
				switch {
				case loadOf(u, "wid"):
					fld = "wid"
				case loadOf(u, "prec"):
					fld = "prec"
				default:
					continue
				}
				loads++
				pos := c.P.Pos(u.Pos())
				switch {
				case before[ins]["fresh:"+fld]:
					r.Ok(name + " reads " + fld + " under its presence flag @" + pos)
				case returnedWithFlag(u, fld+"Present", loadOf):
					r.Ok(name + " returns " + fld + " with its presence flag @" + pos)
				case sizesOnly(u, 0):
					r.Ok(name + " uses " + fld + " only to size a scratch buffer @" + pos)
				default:
					r.Fail(name+" / unguarded read of "+fld, pos, "fmt."+fld+" is read on a path where "+strings.Join(G[fld], "/")+" is not known to be set: the pooled formatter still holds the "+fld+" of an earlier directive or call, and the output of this call depends on it", nil, "")
				}
			}
		}
	}
	if loads == 0 {
		r.Undecide("no load of fmt.wid / fmt.prec found")
	}
	return []*report.Result{r}
}

// returnedWithFlag: the loaded value is used only by a return that also
// returns a load of the presence flag (the fmt.State accessors).
func returnedWithFlag(u *ssa.UnOp, flag string, loadOf func(ssa.Value, string) bool) bool {
	refs := u.Referrers()
	if refs == nil || len(*refs) == 0 {
		return false
	}
	for _, ref := range *refs {
		ret, ok := ref.(*ssa.Return)
		if !ok {
			return false
		}
		withFlag := false
		for _, res := range ret.Results {
			if loadOf(res, flag) {
				withFlag = true
			}
		}
		if !withFlag {
			return false
		}
	}
	return true
}

// sizesOnly: the value flows, through additions only, into comparisons with a
// length and into the size of a make: it sizes scratch storage, it is not
// part of the output.
func sizesOnly(v ssa.Value, depth int) bool {
	refs := v.Referrers()
	if refs == nil || len(*refs) == 0 || depth > 4 {
		return false
	}
	for _, ref := range *refs {
		switch x := ref.(type) {
		case *ssa.BinOp:
			switch x.Op {
			case token.ADD:
				if !sizesOnly(x, depth+1) {
					return false
				}
			case token.GTR, token.LSS, token.GEQ, token.LEQ:
				// compared with len(...) of a buffer: decides only whether to allocate
				other := x.Y
				if other == v {
					other = x.X
				}
				call, ok := other.(*ssa.Call)
				if !ok || !isBuiltin(call, "len") {
					return false
				}
				// the branch it controls must only allocate
				for _, br := range *x.Referrers() {
					iff, ok := br.(*ssa.If)
					if !ok {
						return false
					}
					allocOnly := false
					for _, ins := range iff.Block().Succs[0].Instrs {
						switch ins.(type) {
						case *ssa.MakeSlice:
							allocOnly = true
						case *ssa.Jump, *ssa.Slice, *ssa.Alloc, *ssa.DebugRef:
						default:
							if _, isStore := ins.(*ssa.Store); isStore {
								continue
							}
							return false
						}
					}
					if !allocOnly {
						return false
					}
				}
			default:
				return false
			}
		case *ssa.MakeSlice:
		case *ssa.DebugRef:
		default:
			return false
		}
	}
	return true
}
