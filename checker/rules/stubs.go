package rules

// AFmt and Labels are defined in afmt.go / labels.go.
type AFmt struct{}
type Labels struct{}
