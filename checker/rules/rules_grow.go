package rules

import (
	"fmt"
	"go/token"
	"strings"

	"golang.org/x/tools/go/ssa"

	"redactverif/report"
)

func init() { register("C09.g", ruleC09g) }

// isBufLoadOf: v is a load of the buf field of base.
func isBufLoadOf(v ssa.Value, base ssa.Value) bool {
	u, ok := v.(*ssa.UnOp)
	if !ok || u.Op != token.MUL {
		return false
	}
	fa, ok := u.X.(*ssa.FieldAddr)
	return ok && fieldName(fa) == "buf" && fa.X == base
}

func isLenOfBuf(v ssa.Value, base ssa.Value) bool {
	call, ok := v.(*ssa.Call)
	return ok && isBuiltin(call, "len") && isBufLoadOf(call.Common().Args[0], base)
}

// ruleC09g: growing the buffer keeps what was written and tells the writer
// where to write. Value-level code of package buffer, checked by shape.
func ruleC09g(c *Ctx) []*report.Result {
	r := report.NewResult("C09.g", "buffer growth in package buffer: (1) a fresh backing array is installed only for a nil buffer or after copy(fresh, old); (2) the buffer is re-sliced only to 0, to len-K (marker elision) or to L+n with L the length read at function entry and n the requested count, under the guard n <= cap-L where no allocation happens; (3) the index returned to the writer is L (0 for a fresh buffer); (4) every write method copies its payload exactly at the index returned by the growth helpers for a count equal to the payload length", 14)
	sp := c.P.SSAPkg("internal/buffer")
	if sp == nil {
		r.Undecide("package buffer not found")
		return []*report.Result{r}
	}
	gp := c.growthParams()
	for _, fn := range c.P.ModuleFunctions() {
		if pkgPathOf(fn) != pkgBuffer || fn.Signature.Recv() == nil || len(fn.Params) == 0 {
			continue
		}
		recv := ssa.Value(fn.Params[0])
		name := shortFn(fn.String())
		for _, b := range fn.Blocks {
			for _, ins := range b.Instrs {
				st, ok := ins.(*ssa.Store)
				if !ok {
					continue
				}
				fa, ok := st.Addr.(*ssa.FieldAddr)
				if !ok || fieldName(fa) != "buf" || fa.X != recv {
					continue
				}
				pos := c.P.Pos(st.Pos())
				if _, isConst := st.Val.(*ssa.Const); isConst {
					r.Ok(name + " drops the buffer @" + pos)
					continue
				}
				if v, isSlice := st.Val.(*ssa.Slice); isSlice && isBufLoadOf(v.X, recv) {
					{
						// (2) re-slice of the buffer itself
						okHigh, what := false, "unrecognised bound"
						switch h := v.High.(type) {
						case nil:
						case *ssa.Const:
							if k, ok := intConst(h); ok && k == 0 {
								okHigh, what = true, "[:0]"
							}
						case *ssa.BinOp:
							if h.Op == token.SUB && isLenOfBuf(h.X, recv) {
								if _, ok := intConst(h.Y); ok {
									okHigh, what = true, "[:len-K]"
								}
							}
							if h.Op == token.ADD {
								L, n := h.X, h.Y
								if _, isP := L.(*ssa.Parameter); isP {
									L, n = n, L
								}
								if p, isP := n.(*ssa.Parameter); isP && isLenOfBuf(L, recv) && L.(*ssa.Call).Block() == fn.Blocks[0] && containsInt(gp[fn], paramIndex(fn, p)) {
									okHigh, what = true, "[:L+n]"
								}
							}
						default:
							if p, isP := v.High.(*ssa.Parameter); isP {
								_ = p
							}
							// Grow: b.buf = b.buf[:m] with m the index returned by grow
							if call, ok := v.High.(*ssa.Call); ok {
								if f := call.Common().StaticCallee(); f != nil && len(gp[f]) > 0 {
									okHigh, what = true, "[:index returned by "+f.Name()+"]"
								}
							}
						}
						if v.Low != nil {
							okHigh, what = false, "re-slice with a lower bound drops leading bytes"
						}
						r.Check(okHigh, name+" / re-slice of the buffer", pos, "the buffer is re-sliced to an unrecognised length ("+what+"): bytes already written are cut off or garbage is exposed")
						continue
					}
				}
				{
					// (1) fresh storage
					if call, isCall := st.Val.(*ssa.Call); isCall {
						if f := call.Common().StaticCallee(); f != nil && f.String() == escapeFnName {
							r.Ok(name + " installs the escaped buffer @" + pos)
							continue
						}
					}
					fresh := st.Val
					if sl, ok := fresh.(*ssa.Slice); ok {
						fresh = sl.X
					}
					okNil := false
					for _, gb := range fn.Blocks {
						iff, ok := gb.Instrs[len(gb.Instrs)-1].(*ssa.If)
						if !ok {
							continue
						}
						bo, ok := iff.Cond.(*ssa.BinOp)
						if !ok || bo.Op != token.EQL || !isBufLoadOf(bo.X, recv) {
							continue
						}
						if cst, ok := bo.Y.(*ssa.Const); ok && cst.IsNil() {
							t := gb.Succs[0]
							if t == b || t.Dominates(b) {
								okNil = true
							}
						}
					}
					okCopy := false
					for _, cb := range fn.Blocks {
						if !(cb == b || cb.Dominates(b)) {
							continue
						}
						for _, ci := range cb.Instrs {
							if ci == ins {
								break
							}
							if call, ok := ci.(*ssa.Call); ok && isBuiltin(call, "copy") {
								a := call.Common().Args
								if (a[0] == st.Val || a[0] == fresh) && isBufLoadOf(a[1], recv) {
									okCopy = true
								}
							}
						}
					}
					r.Check(okNil || okCopy, name+" / fresh storage keeps the content", pos, "a new backing array is installed without the old content having been copied into it (and the buffer is not known to be nil): everything written so far is lost")
				}
			}
		}
		// (3) returned index
		if len(gp[fn]) > 0 && fn.Signature.Results().Len() >= 1 {
			for _, b := range fn.Blocks {
				ret, ok := b.Instrs[len(b.Instrs)-1].(*ssa.Return)
				if !ok || len(ret.Results) == 0 {
					continue
				}
				v := ret.Results[0]
				okRet := false
				if k, isC := intConst(v); isC && k == 0 {
					// "did not grow": together with the result false
					if len(ret.Results) == 2 {
						if cst, ok := ret.Results[1].(*ssa.Const); ok && cst.Value != nil && cst.Value.String() == "false" {
							okRet = true
						}
					}
					// fresh buffer: under buf == nil
					for _, gb := range fn.Blocks {
						if iff, ok := gb.Instrs[len(gb.Instrs)-1].(*ssa.If); ok {
							if bo, ok := iff.Cond.(*ssa.BinOp); ok && bo.Op == token.EQL && isBufLoadOf(bo.X, recv) {
								if t := gb.Succs[0]; t == b || t.Dominates(b) {
									okRet = true
								}
							}
						}
					}
				}
				if isLenOfBuf(v, recv) && v.(*ssa.Call).Block() == fn.Blocks[0] {
					okRet = true
				}
				// the index another growth helper returned for this function's
				// own count (directly, as first result, or as a merge of such)
				var fromHelper func(x ssa.Value, depth int) bool
				fromHelper = func(x ssa.Value, depth int) bool {
					if depth > 4 {
						return false
					}
					switch y := x.(type) {
					case *ssa.Extract:
						return y.Index == 0 && fromHelper(y.Tuple, depth+1)
					case *ssa.Call:
						f := y.Common().StaticCallee()
						if f == nil || len(gp[f]) == 0 || f.Signature.Results().Len() == 0 {
							return false
						}
						for _, gi := range gp[f] {
							if p, ok := y.Common().Args[gi].(*ssa.Parameter); !ok || !containsInt(gp[fn], paramIndex(fn, p)) {
								return false
							}
						}
						return true
					case *ssa.Phi:
						for _, e := range y.Edges {
							if !fromHelper(e, depth+1) {
								return false
							}
						}
						return len(y.Edges) > 0
					}
					return false
				}
				if fromHelper(v, 0) {
					okRet = true
				}
				r.Check(okRet, name+" / returned write index", c.P.Pos(ret.Pos()), "the growth helper must return the length the buffer had on entry (the place where the caller writes): "+v.String())
			}
		}
	}
	// (4) write position in the write methods and marker writers
	for _, fn := range c.P.ModuleFunctions() {
		if pkgPathOf(fn) != pkgBuffer || fn.Signature.Recv() == nil || len(gp[fn]) > 0 {
			continue
		}
		recv := ssa.Value(fn.Params[0])
		var growCalls []*ssa.Call
		for _, b := range fn.Blocks {
			for _, ins := range b.Instrs {
				if call, ok := ins.(*ssa.Call); ok {
					if f := call.Common().StaticCallee(); f != nil && len(gp[f]) > 0 && f.Signature.Results().Len() >= 1 && f.Name() != "Grow" {
						growCalls = append(growCalls, call)
					}
				}
			}
		}
		if len(growCalls) == 0 {
			continue
		}
		name := shortFn(fn.String())
		// all growth calls of one write use the same count
		var count ssa.Value
		same := true
		for _, g := range growCalls {
			a := g.Common().Args[1]
			if count == nil {
				count = a
			} else if a != count {
				ka, oka := intConst(a)
				kc, okc := intConst(count)
				if !(oka && okc && ka == kc) && a.String() != count.String() {
					same = false
				}
			}
		}
		r.Check(same, name+" / one count per write", c.P.Pos(fn.Pos()), "the reslice attempt and the fallback growth are asked for different counts")
		isIndex := func(v ssa.Value) bool {
			// phi of (extract #0 of tryGrow, result of grow), or one of them
			ok1 := func(x ssa.Value) bool {
				if ex, ok := x.(*ssa.Extract); ok && ex.Index == 0 {
					for _, g := range growCalls {
						if ex.Tuple == ssa.Value(g) {
							return true
						}
					}
				}
				for _, g := range growCalls {
					if x == ssa.Value(g) {
						return true
					}
				}
				return false
			}
			if ok1(v) {
				return true
			}
			if ph, ok := v.(*ssa.Phi); ok {
				for _, e := range ph.Edges {
					if !ok1(e) {
						return false
					}
				}
				return len(ph.Edges) > 0
			}
			return false
		}
		writes := 0
		for _, b := range fn.Blocks {
			for _, ins := range b.Instrs {
				var low ssa.Value
				var site ssa.Instruction
				switch x := ins.(type) {
				case *ssa.Call:
					f := x.Common().StaticCallee()
					if isBuiltin(x, "copy") || (f != nil && f.String() == "unicode/utf8.EncodeRune") {
						if sl, ok := x.Common().Args[0].(*ssa.Slice); ok && isBufLoadOf(sl.X, recv) {
							low, site = sl.Low, x
							r.Check(sl.High == nil, name+" / write window", c.P.Pos(x.Pos()), "the destination window must be buf[index:]")
						}
					}
				case *ssa.Store:
					if ia, ok := x.Addr.(*ssa.IndexAddr); ok && isBufLoadOf(ia.X, recv) {
						low, site = ia.Index, x
					}
				}
				if site == nil {
					continue
				}
				writes++
				r.Check(low != nil && isIndex(low), name+" / write position", c.P.Pos(site.Pos()), "the payload is not written at the index returned by the growth helpers: it overwrites earlier bytes or leaves a gap of uninitialised bytes")
			}
		}
		if writes == 0 && !strings.HasSuffix(fn.Name(), "Grow") {
			r.Note(name + " grows without writing")
		}
	}
	_ = fmt.Sprint
	return []*report.Result{r}
}
