package rules

import (
	"go/types"
	"strings"

	"golang.org/x/tools/go/ssa"

	"redactverif/engine"
)

// Roles. The rules speak of "the buffer's validUntil", "the printer's
// override", "the escape routine", "the restorer": these are roles, and the
// redact-specific declarations that play them are found by what they are
// (their type, their signature, who calls them), not by what they are called,
// so that renaming an unexported identifier changes nothing. The imported fmt
// code keeps fmt's names (Engine C holds it to them).

var (
	escapeFnName   = pkgEscape + ".InternalEscapeBytes" // String() of the escape routine
	restorerName   = pkgRfmt + ".restorer"              // named type returned by the start* helpers
	specialFnName  = "handleSpecialValues"              // the printer's wrapper/redactable recogniser
	rolesInitDone  bool
	rolesInitNotes []string
)

// InitRoles discovers the roles on the loaded program. Call once per Ctx,
// before any rule runs.
func InitRoles(c *Ctx) {
	if rolesInitDone {
		return
	}
	rolesInitDone = true
	// --- fields of buffer.Buffer by type
	if bp := c.P.Pkg("internal/buffer"); bp != nil {
		if o := bp.Types.Scope().Lookup("Buffer"); o != nil {
			if st, ok := o.Type().Underlying().(*types.Struct); ok {
				byRole := map[string][]*types.Var{}
				for i := 0; i < st.NumFields(); i++ {
					f := st.Field(i)
					switch t := f.Type().Underlying().(type) {
					case *types.Slice:
						if b, ok := t.Elem().Underlying().(*types.Basic); ok && b.Kind() == types.Uint8 {
							byRole["buf"] = append(byRole["buf"], f)
						}
					case *types.Basic:
						switch {
						case t.Kind() == types.Bool:
							byRole["markerOpen"] = append(byRole["markerOpen"], f)
						case t.Info()&types.IsInteger != 0 && f.Type() == types.Type(t):
							byRole["validUntil"] = append(byRole["validUntil"], f)
						case t.Info()&types.IsInteger != 0:
							byRole["mode"] = append(byRole["mode"], f) // a named integer type: the output mode
						}
					}
				}
				for role, fs := range byRole {
					if len(fs) == 1 && fs[0].Name() != role {
						engine.FieldAlias[fs[0]] = role
						rolesInitNotes = append(rolesInitNotes, "Buffer."+fs[0].Name()+" plays "+role)
					}
				}
			}
		}
	}
	// --- the printer's override: the field of pp whose type is a named
	// integer type declared in the package (fmt's pp has none)
	if rp := c.P.Pkg("internal/rfmt"); rp != nil {
		if o := rp.Types.Scope().Lookup("pp"); o != nil {
			if st, ok := o.Type().Underlying().(*types.Struct); ok {
				var cands []*types.Var
				for i := 0; i < st.NumFields(); i++ {
					f := st.Field(i)
					if n, ok := f.Type().(*types.Named); ok && n.Obj().Pkg() == rp.Types {
						if b, ok := n.Underlying().(*types.Basic); ok && b.Info()&types.IsInteger != 0 {
							cands = append(cands, f)
						}
					}
				}
				if len(cands) == 1 && cands[0].Name() != "override" {
					engine.FieldAlias[cands[0]] = "override"
					rolesInitNotes = append(rolesInitNotes, "pp."+cands[0].Name()+" plays override")
				}
			}
		}
		// --- the restorer: the named struct type of the package with a *pp
		// field that printer methods return
		ppT := rp.Types.Scope().Lookup("pp")
		for _, name := range rp.Types.Scope().Names() {
			tn, ok := rp.Types.Scope().Lookup(name).(*types.TypeName)
			if !ok || tn.IsAlias() {
				continue
			}
			st, ok := tn.Type().Underlying().(*types.Struct)
			if !ok || name == "pp" || name == "fmt" || ppT == nil {
				continue
			}
			holds := false
			for i := 0; i < st.NumFields(); i++ {
				if pt, ok := st.Field(i).Type().(*types.Pointer); ok && pt.Elem() == ppT.Type() {
					holds = true
				}
			}
			if !holds {
				continue
			}
			returned := false
			for _, fn := range c.P.ModuleFunctions() {
				if recvNamed(fn) == tPP && fn.Signature.Results().Len() == 1 && fn.Signature.Results().At(0).Type() == tn.Type() {
					returned = true
				}
			}
			if returned {
				restorerName = pkgRfmt + "." + name
				// its fields, by type: the printer, the saved mode, the saved override
				for i := 0; i < st.NumFields(); i++ {
					f := st.Field(i)
					role := ""
					if pt, ok := f.Type().(*types.Pointer); ok && pt.Elem() == ppT.Type() {
						role = "p"
					} else if n, ok := f.Type().(*types.Named); ok {
						if n.Obj().Pkg() == rp.Types {
							role = "prevOverride"
						} else if n.Obj().Pkg() != nil && n.Obj().Pkg().Path() == pkgBuffer {
							role = "prevMode"
						}
					}
					if role != "" && f.Name() != role {
						engine.FieldAlias[f] = role
					}
				}
			}
		}
	}
	// --- the escape routine: the function of package escape taking the
	// bytes and a start offset and returning bytes
	if ep := c.P.SSAPkg("internal/escape"); ep != nil {
		var cands []*ssa.Function
		for _, m := range ep.Members {
			fn, ok := m.(*ssa.Function)
			if !ok || fn.Blocks == nil || fn.Signature.Recv() != nil {
				continue
			}
			ps, rs := fn.Signature.Params(), fn.Signature.Results()
			if ps.Len() >= 2 && rs.Len() == 1 && isByteSlice(ps.At(0).Type()) && isByteSlice(rs.At(0).Type()) {
				if b, ok := ps.At(1).Type().Underlying().(*types.Basic); ok && b.Kind() == types.Int {
					cands = append(cands, fn)
				}
			}
		}
		if len(cands) == 1 {
			escapeFnName = cands[0].String()
		}
	}
	// --- the special-value recogniser: the printer method with a bool
	// result and (reflect.Value, reflect.Type, ...) parameters called from
	// both printArg and printValue
	pa, pv := c.P.Func("internal/rfmt", "(*pp).printArg"), c.P.Func("internal/rfmt", "(*pp).printValue")
	if pa != nil && pv != nil {
		inA := map[*ssa.Function]bool{}
		for _, g := range c.staticCallees(pa) {
			inA[g] = true
		}
		for _, g := range c.staticCallees(pv) {
			if !inA[g] || recvNamed(g) != tPP || g.Signature.Results().Len() != 1 || g.Name() == "handleMethods" {
				continue
			}
			if b, ok := g.Signature.Results().At(0).Type().Underlying().(*types.Basic); !ok || b.Kind() != types.Bool {
				continue
			}
			hasRV, hasRT := false, false
			for i := 0; i < g.Signature.Params().Len(); i++ {
				switch namedOf(g.Signature.Params().At(i).Type()) {
				case "reflect.Value":
					hasRV = true
				case "reflect.Type":
					hasRT = true
				}
			}
			if hasRV && hasRT {
				specialFnName = g.Name()
			}
		}
	}
}

func isByteSlice(t types.Type) bool {
	sl, ok := t.Underlying().(*types.Slice)
	if !ok {
		return false
	}
	b, ok := sl.Elem().Underlying().(*types.Basic)
	return ok && b.Kind() == types.Uint8
}

// escapeFn is the escape routine.
func (c *Ctx) escapeFn() *ssa.Function {
	for _, fn := range c.P.ModuleFunctions() {
		if fn.String() == escapeFnName {
			return fn
		}
	}
	return nil
}

// finalizeFn: the function every by-value accessor of Buffer runs on its copy
// before it hands bytes (or their count) out: the unexported pointer-receiver
// method of Buffer that all exported value-receiver methods returning the
// content call and that reaches the escape routine.
func (c *Ctx) finalizeFn() *ssa.Function {
	esc := c.escapeFn()
	if esc == nil {
		return nil
	}
	count := map[*ssa.Function]int{}
	accessors := 0
	for _, fn := range c.P.ModuleFunctions() {
		if recvNamed(fn) != tBuffer || fn.Object() == nil || !fn.Object().Exported() || fn.Signature.Recv() == nil {
			continue
		}
		if _, isPtr := fn.Signature.Recv().Type().(*types.Pointer); isPtr {
			continue
		}
		// a value-receiver accessor returning the content
		if fn.Signature.Results().Len() != 1 {
			continue
		}
		accessors++
		// pointer-receiver unexported methods of Buffer it reaches (directly
		// or through a shared helper) that reach the escape routine
		for g := range c.reach(fn, false) {
			if recvNamed(g) != tBuffer || (g.Object() != nil && g.Object().Exported()) || g.Signature.Recv() == nil {
				continue
			}
			if _, isPtr := g.Signature.Recv().Type().(*types.Pointer); !isPtr {
				continue
			}
			if c.reach(g, true)[esc] {
				count[g]++
			}
		}
	}
	var cands []*ssa.Function
	for g, n := range count {
		if n == accessors && accessors >= 2 {
			cands = append(cands, g)
		}
	}
	// the outermost one: not reached from another candidate
	var best *ssa.Function
	for _, g := range cands {
		inner := false
		for _, h := range cands {
			if h != g && c.reach(h, false)[g] {
				inner = true
			}
		}
		if !inner && (best == nil || g.String() < best.String()) {
			best = g
		}
	}
	return best
}

// internalTarget finds a function of an internal package that the rules know
// by the name the PUBLIC API gives it: by that name in the internal package,
// or — when the internal function was renamed — as the function of that
// package which the root package's exported function of that name calls
// (the public name is the contract; the internal one is not).
func (c *Ctx) internalTarget(pkgRel, name string) *ssa.Function {
	if fn := c.P.Func(pkgRel, name); fn != nil {
		return fn
	}
	root := c.P.SSAPkg("")
	if root == nil {
		return nil
	}
	pub := root.Func(name)
	if pub == nil || pub.Blocks == nil {
		return nil
	}
	var found *ssa.Function
	for _, b := range pub.Blocks {
		for _, ins := range b.Instrs {
			if ci, ok := ins.(ssa.CallInstruction); ok {
				if g := ci.Common().StaticCallee(); g != nil && strings.HasSuffix(pkgPathOf(g), "/"+pkgRel) && g.Signature.Recv() == nil {
					if found != nil && found != g {
						return nil
					}
					found = g
				}
			}
		}
	}
	return found
}

// reproduceFn: the forwarding function of package fmtforward — by its name,
// or the exported function there that takes (io.Writer, fmt.State, rune, any).
func (c *Ctx) reproduceFn() *ssa.Function {
	if fn := c.P.Func("internal/fmtforward", "ReproducePrintf"); fn != nil {
		return fn
	}
	sp := c.P.SSAPkg("internal/fmtforward")
	if sp == nil {
		return nil
	}
	var found *ssa.Function
	for _, mem := range sortedMembers(sp) {
		fn, ok := mem.(*ssa.Function)
		if !ok || fn.Blocks == nil || len(fn.Params) != 4 {
			continue
		}
		if namedOf(fn.Params[0].Type()) == "io.Writer" && namedOf(fn.Params[1].Type()) == "fmt.State" {
			if found != nil {
				return nil
			}
			found = fn
		}
	}
	return found
}
