package rules

import (
	"fmt"
	"go/token"
	"go/types"
	"sort"
	"strings"

	"golang.org/x/tools/go/ssa"

	"redactverif/engine"
	"redactverif/load"
	"redactverif/report"
)

func init() { register("C11.i", ruleC11i) }

// Rule C11.i — no run-time panic from comparing or hashing an interface.
//
// `a == b` on two interface values (or on structs/arrays that contain
// interface fields) panics when both hold the same uncomparable dynamic type
// — a slice-typed error, a struct error with a map field; a map indexed by an
// interface-typed key panics when the key's dynamic type is unhashable. Both
// are ordinary-looking operations with no index expression, assertion or nil
// dereference, and operands (errors, wrapped values) are user data. Every
// such operation in the module must have one side whose dynamic type is
// known comparable: the nil constant, a value just made from a comparable
// concrete type, a reflect.Type (its implementations are pointers), a
// package-level variable holding a reflect.Type. A switch on an interface
// value is a chain of such comparisons and is covered.
func ruleC11i(c *Ctx) []*report.Result {
	r := report.NewResult("C11.i", "no comparison (==, !=, switch) of interface values, or of structs and arrays containing interfaces, and no map access with an interface-typed key, can panic on an uncomparable dynamic type: at every such operation in the module one side is nil, is freshly made from a comparable concrete type, or is a reflect.Type", 3)
	hasIface := func(t types.Type) bool {
		var rec func(t types.Type, d int) bool
		rec = func(t types.Type, d int) bool {
			if d > 4 {
				return false
			}
			switch u := t.Underlying().(type) {
			case *types.Interface:
				return true
			case *types.Struct:
				for i := 0; i < u.NumFields(); i++ {
					if rec(u.Field(i).Type(), d+1) {
						return true
					}
				}
			case *types.Array:
				return rec(u.Elem(), d+1)
			}
			return false
		}
		return rec(t, 0)
	}
	isReflectType := func(t types.Type) bool { return namedOf(t) == "reflect.Type" }
	var safeSide func(v ssa.Value, d int) (bool, string)
	safeSide = func(v ssa.Value, d int) (bool, string) {
		if d > 4 {
			return false, ""
		}
		switch x := v.(type) {
		case *ssa.Const:
			if x.IsNil() {
				return true, "nil"
			}
		case *ssa.MakeInterface:
			if types.Comparable(x.X.Type()) && !hasIface(x.X.Type()) {
				return true, "made from comparable " + x.X.Type().String()
			}
		case *ssa.ChangeInterface:
			return safeSide(x.X, d+1)
		case *ssa.Phi:
			why := ""
			for _, e := range x.Edges {
				ok, w := safeSide(e, d+1)
				if !ok {
					return false, ""
				}
				why = w
			}
			return true, why
		}
		if isReflectType(v.Type()) {
			return true, "a reflect.Type"
		}
		return false, ""
	}
	var fns []*ssa.Function
	for _, fn := range c.P.ModuleFunctions() {
		if fn.Blocks != nil {
			fns = append(fns, fn)
		}
	}
	sort.Slice(fns, func(i, j int) bool { return fns[i].String() < fns[j].String() })
	sites := 0
	for _, fn := range fns {
		for _, b := range fn.Blocks {
			for _, ins := range b.Instrs {
				switch x := ins.(type) {
				case *ssa.BinOp:
					if x.Op != token.EQL && x.Op != token.NEQ {
						continue
					}
					if !hasIface(x.X.Type()) || !hasIface(x.Y.Type()) {
						continue
					}
					sites++
					construct := fmt.Sprintf("%s / %s on %s", shortFn(fn.String()), x.Op, x.X.Type())
					okx, wx := safeSide(x.X, 0)
					oky, wy := safeSide(x.Y, 0)
					switch {
					case okx:
						r.Ok(construct + ": one side is " + wx)
					case oky:
						r.Ok(construct + ": one side is " + wy)
					default:
						r.Fail(construct, c.P.Pos(x.Pos()), "both sides are interface values (or contain them) of unknown dynamic type: the comparison panics with 'comparing uncomparable type' when both hold the same slice-, map- or func-based type — an error type like `type Errors []error`, a struct error with a slice field — and nothing around it recovers", nil, "")
					}
				case *ssa.Lookup:
					mt, ok := x.X.Type().Underlying().(*types.Map)
					if !ok || !hasIface(mt.Key()) {
						continue
					}
					sites++
					construct := fmt.Sprintf("%s / map lookup with key %s", shortFn(fn.String()), mt.Key())
					if ok, w := safeSide(x.Index, 0); ok || isReflectType(mt.Key()) {
						if w == "" {
							w = "a reflect.Type"
						}
						r.Ok(construct + ": the key is " + w)
					} else {
						r.Fail(construct, c.P.Pos(x.Pos()), "the key is an interface value of unknown dynamic type: hashing it panics when the dynamic type is unhashable", nil, "")
					}
				case *ssa.MapUpdate:
					mt, ok := x.Map.Type().Underlying().(*types.Map)
					if !ok || !hasIface(mt.Key()) {
						continue
					}
					sites++
					construct := fmt.Sprintf("%s / map update with key %s", shortFn(fn.String()), mt.Key())
					if ok, w := safeSide(x.Key, 0); ok || isReflectType(mt.Key()) {
						if w == "" {
							w = "a reflect.Type"
						}
						r.Ok(construct + ": the key is " + w)
					} else {
						r.Fail(construct, c.P.Pos(x.Pos()), "the key is an interface value of unknown dynamic type: hashing it panics when the dynamic type is unhashable", nil, "")
					}
				}
			}
		}
	}
	r.Note(fmt.Sprintf("%d comparisons / keyed accesses on interface-bearing types examined", sites))
	return []*report.Result{r}
}

func init() { register("C09.s", ruleC09s) }

// Rule C09.s — the bit size handed to the float and complex formatters is
// that of the value's own type. fmtFloat(v float64, size, verb) and
// fmtComplex(v complex128, size, verb) take every value widened, and round
// to `size` bits when formatting: a float64 (or a SafeFloat, whose underlying
// type it is) announced as 32 bits prints 3.1415927 for math.Pi. At every
// call with a constant size the value's origin decides: a conversion from a
// type of S bits needs size S; (reflect.Value).Float()/Complex() under a
// Kind test needs the size of that kind.
func ruleC09s(c *Ctx) []*report.Result {
	r := report.NewResult("C09.s", "every call of the float/complex formatters with a constant bit size passes the size of the type the value was widened from (conversion from float32/float64/complex64/complex128 or a named type over them, or reflect's Float()/Complex() under the matching Kind test): a value is never rounded to fewer bits than it has, the printer's and the builder's emitters render the same digits", 4)
	bitsOfKind := map[int64]int64{13: 32, 14: 64, 15: 64, 16: 128} // reflect.Float32, Float64, Complex64, Complex128
	for _, fn := range c.P.ModuleFunctions() {
		if fn.Blocks == nil {
			continue
		}
		for _, b := range fn.Blocks {
			for _, ins := range b.Instrs {
				call, ok := ins.(ssa.CallInstruction)
				if !ok {
					continue
				}
				f := call.Common().StaticCallee()
				if f == nil || pkgPathOf(f) != pkgRfmt || (f.Name() != "fmtFloat" && f.Name() != "fmtComplex") {
					continue
				}
				args := call.Common().Args
				if len(args) < 3 {
					continue
				}
				k, isConst := intConst(args[2])
				if !isConst {
					continue // passed through from the caller, checked there
				}
				construct := fmt.Sprintf("%s / %s(…, %d, …)", shortFn(fn.String()), f.Name(), k)
				pos := c.P.Pos(call.Pos())
				v := args[1]
				var want int64 = -1
				how := ""
				sizes := types.SizesFor("gc", "amd64")
				if cv, ok := v.(*ssa.Convert); ok {
					if bt, ok := cv.X.Type().Underlying().(*types.Basic); ok && bt.Info()&(types.IsFloat|types.IsComplex) != 0 {
						want = sizes.Sizeof(bt) * 8
						how = "converted from " + cv.X.Type().String()
					}
				}
				if want < 0 {
					if vc, ok := v.(*ssa.Call); ok {
						if g := vc.Common().StaticCallee(); g != nil && (g.String() == "(reflect.Value).Float" || g.String() == "(reflect.Value).Complex") {
							// the Kind test that guards this arm
							for _, gb := range fn.Blocks {
								iff, ok := gb.Instrs[len(gb.Instrs)-1].(*ssa.If)
								if !ok {
									continue
								}
								bo, ok := iff.Cond.(*ssa.BinOp)
								if !ok || bo.Op != token.EQL {
									continue
								}
								kc, ok := intConst(bo.Y)
								if !ok {
									continue
								}
								kcall, ok := bo.X.(*ssa.Call)
								if !ok || kcall.Common().StaticCallee() == nil || kcall.Common().StaticCallee().String() != "(reflect.Value).Kind" {
									continue
								}
								tb := gb.Succs[0]
								if len(tb.Preds) == 1 && (tb == b || tb.Dominates(b)) {
									if bits, ok := bitsOfKind[kc]; ok {
										want = bits
										how = fmt.Sprintf("reflect value of kind %d", kc)
									}
								}
							}
						}
					}
				}
				if ct, ok := v.(*ssa.ChangeType); ok && want < 0 {
					if bt, ok := ct.X.Type().Underlying().(*types.Basic); ok && bt.Info()&(types.IsFloat|types.IsComplex) != 0 {
						want = sizes.Sizeof(bt) * 8
						how = "converted from " + ct.X.Type().String()
					}
				}
				if want < 0 {
					if _, isCall := v.(*ssa.Call); !isCall {
						if bt, ok := v.Type().Underlying().(*types.Basic); ok && bt.Info()&(types.IsFloat|types.IsComplex) != 0 {
							want = sizes.Sizeof(bt) * 8
							how = "a value of type " + v.Type().String()
						}
					}
				}
				if want < 0 {
					r.Fail(construct, pos, "cannot tell which type the value was widened from: the constant bit size is not justified", nil, "")
					continue
				}
				if want == k {
					r.Ok(construct + ": " + how)
				} else {
					r.Fail(construct, pos, fmt.Sprintf("the value is %s (%d bits) but is formatted as a %d-bit number: digits are lost (or invented) for values that need the full width", how, want, k), nil, "")
				}
			}
		}
	}
	return []*report.Result{r}
}

func init() {
	register("C07.g", ruleC07g)
	register("C13.e", ruleC13e)
}

// Rule C07.g — the marker byte slices are nobody's to write.
//
// The byte variants of Redact/StripMarkers/Escape and the buffer's marker
// tests read package-level []byte variables (start, end, escape, redacted).
// Deciding the patterns and the replacement constants says what these slices
// hold after initialisation; it holds for the life of the process only if no
// alias of them ever reaches code that may write: a function returning one
// (StartMarker() handing out the shared slice instead of a copy), a store
// into a structure, a call that may keep or modify its argument. Every use of
// every package-level slice variable of the module must be a read: len/cap,
// indexing, ranging, slicing (the result under the same rule), the source of
// append(dst, v...) or copy(dst, v), an argument of a read-only library
// function (bytes.Equal/HasPrefix/HasSuffix/Index/Contains/Compare, the
// replacement of (*regexp.Regexp).ReplaceAll, string(v)), or an argument of a
// module function whose parameter obeys the same rule.
func ruleC07g(c *Ctx) []*report.Result {
	r := report.NewResult("C07.g", "no alias of a package-level byte slice of the module (the marker, escape and replacement constants in []byte form) escapes to code that may write it: every use of a value loaded from such a variable is a read (len, index, range, slice, source of append/copy, read-only library call, conversion to string, or a module function whose parameter is used the same way); none is returned, stored or handed to unknown code", 1)
	readOnly := map[string][]int{ // callee -> argument positions that are only read (nil: all)
		"bytes.Equal": nil, "bytes.HasPrefix": nil, "bytes.HasSuffix": nil, "bytes.Index": nil, "bytes.Contains": nil, "bytes.Compare": nil,
		"bytes.LastIndex": nil, "bytes.IndexByte": nil, "bytes.Count": nil, "unicode/utf8.DecodeLastRune": nil, "unicode/utf8.DecodeRune": nil,
		"(*regexp.Regexp).ReplaceAll": {2}, "(*regexp.Regexp).Match": nil, "(*bytes.Buffer).Write": {1}, "(*strings.Builder).Write": {1},
	}
	var usesOK func(v ssa.Value, depth int) (bool, string, ssa.Instruction)
	usesOK = func(v ssa.Value, depth int) (bool, string, ssa.Instruction) {
		if depth > 6 || v.Referrers() == nil {
			return depth <= 6, "alias chain too deep", nil
		}
		for _, u := range *v.Referrers() {
			switch x := u.(type) {
			case *ssa.DebugRef, *ssa.Range, *ssa.Lookup:
			case *ssa.IndexAddr:
				// an element address: only loads of it
				if x.Referrers() != nil {
					for _, uu := range *x.Referrers() {
						switch y := uu.(type) {
						case *ssa.UnOp, *ssa.DebugRef:
						case *ssa.Store:
							if y.Addr == ssa.Value(x) {
								return false, "an element is assigned", uu
							}
						default:
							return false, "an element's address escapes", uu
						}
					}
				}
			case *ssa.Slice:
				if ok, why, at := usesOK(x, depth+1); !ok {
					return false, why, at
				}
			case *ssa.Phi:
				if ok, why, at := usesOK(x, depth+1); !ok {
					return false, why, at
				}
			case *ssa.Convert:
				if bt, ok := x.Type().Underlying().(*types.Basic); ok && bt.Info()&types.IsString != 0 {
					continue // string(v) copies
				}
				return false, "converted to " + x.Type().String(), u
			case *ssa.ChangeType:
				if ok, why, at := usesOK(x, depth+1); !ok {
					return false, why, at
				}
			case *ssa.Return:
				return false, "returned to the caller", u
			case *ssa.Store:
				if x.Val == v {
					return false, "stored", u
				}
			case *ssa.MakeInterface:
				return false, "boxed in an interface", u
			case ssa.CallInstruction:
				cm := x.Common()
				if bi, ok := cm.Value.(*ssa.Builtin); ok {
					switch bi.Name() {
					case "len", "cap":
						continue
					case "append", "copy":
						if len(cm.Args) == 2 && cm.Args[1] == v && cm.Args[0] != v {
							continue // the source
						}
						return false, "destination of " + bi.Name(), u
					}
					return false, "builtin " + bi.Name(), u
				}
				f := cm.StaticCallee()
				if f == nil {
					return false, "handed to a dynamic call", u
				}
				if pos, ok := readOnly[f.String()]; ok {
					okPos := pos == nil
					for i, a := range cm.Args {
						if a == v {
							for _, p := range pos {
								if p == i {
									okPos = true
								}
							}
						}
					}
					if okPos {
						continue
					}
					return false, "handed to " + f.String() + " in a position it may write", u
				}
				if c.P.InModule(f) && f.Blocks != nil {
					for i, a := range cm.Args {
						if a == v && i < len(f.Params) {
							if ok, why, at := usesOK(f.Params[i], depth+1); !ok {
								return false, "through " + shortFn(f.String()) + ": " + why, at
							}
						}
					}
					continue
				}
				return false, "handed to " + f.String(), u
			case *ssa.UnOp, *ssa.BinOp, *ssa.If:
			default:
				return false, fmt.Sprintf("used by %T", u), u
			}
		}
		return true, "", nil
	}
	n := 0
	for _, pk := range c.P.Prog.AllPackages() {
		if pk.Pkg == nil || !strings.HasPrefix(pk.Pkg.Path(), load.ModPath) {
			continue
		}
		var names []string
		for name := range pk.Members {
			names = append(names, name)
		}
		sort.Strings(names)
		for _, name := range names {
			g, ok := pk.Members[name].(*ssa.Global)
			if !ok {
				continue
			}
			if _, isSlice := g.Type().(*types.Pointer).Elem().Underlying().(*types.Slice); !isSlice {
				continue
			}
			n++
			construct := pk.Pkg.Path() + "." + name
			okAll := true
			for _, fn := range c.P.ModuleFunctions() {
				for _, b := range fn.Blocks {
					for _, ins := range b.Instrs {
						ld, ok := ins.(*ssa.UnOp)
						if !ok || ld.Op != token.MUL || ld.X != ssa.Value(g) {
							// the variable's address used otherwise than by a load or the initialiser's store
							for _, op := range ins.Operands(nil) {
								if *op == ssa.Value(g) {
									if st, isSt := ins.(*ssa.Store); isSt && st.Addr == ssa.Value(g) && fn.Name() == "init" {
										continue
									}
									if _, isLd := ins.(*ssa.UnOp); isLd {
										continue
									}
									okAll = false
									r.Fail(construct, c.P.Pos(ins.Pos()), "the address of the variable is taken or it is assigned outside the initialiser in "+shortFn(fn.String()), nil, "")
								}
							}
							continue
						}
						if ok, why, at := usesOK(ld, 0); !ok {
							okAll = false
							pos := c.P.Pos(ld.Pos())
							if at != nil && at.Pos().IsValid() {
								pos = c.P.Pos(at.Pos())
							}
							r.Fail(construct+" in "+shortFn(fn.String()), pos, "an alias of the shared slice leaves the reader's hands ("+why+"): whoever receives it can overwrite the constant every later call reads — the byte variants of Redact/StripMarkers and the buffer's marker tests stop agreeing with the string variants", nil, "")
						}
					}
				}
			}
			if okAll {
				r.Ok(construct + ": only read")
			}
		}
	}
	if n == 0 {
		r.Ok("module / no package-level slice variable: nothing shared to protect")
	}
	return []*report.Result{r}
}

// Rule C13.e — a string that shares the buffer's bytes owns them.
//
// Go strings are immutable by contract; a string obtained by reinterpreting
// the buffer's byte storage (unsafe.Pointer) stays valid only if the buffer
// gives the storage up in the same breath. Every such reinterpretation in the
// module must be an ownership transfer: the storage is a field of the object
// the method's POINTER receiver points to (not of a local copy, whose bytes
// are still the caller's live storage), and on every path from the
// reinterpretation to a return the field is assigned nil.
func ruleC13e(c *Ctx) []*report.Result {
	r := report.NewResult("C13.e", "every reinterpretation of byte storage as a string without copying (through unsafe.Pointer) is an ownership transfer: the storage is a field reached from the method's pointer receiver and on every path to a return that field is assigned nil; an accessor on a copy never hands out a string over the live bytes (later writes, Reset and reuse would change a string a caller holds)", 1)
	n := 0
	transfers := map[*ssa.Function]bool{} // functions that give their receiver's storage away
	for _, fn := range c.P.ModuleFunctions() {
		for _, b := range fn.Blocks {
			for _, ins := range b.Instrs {
				cv, ok := ins.(*ssa.Convert)
				if !ok {
					continue
				}
				if bt, ok := cv.X.Type().Underlying().(*types.Basic); !ok || bt.Kind() != types.UnsafePointer {
					continue
				}
				// unsafe.Pointer -> *T
				src, ok := cv.X.(*ssa.Convert)
				if !ok {
					r.Fail(shortFn(fn.String())+" / unsafe conversion", c.P.Pos(cv.Pos()), "an unsafe.Pointer of unknown origin is converted to "+cv.Type().String(), nil, "")
					continue
				}
				n++
				construct := shortFn(fn.String()) + " / " + src.X.Type().String() + " reinterpreted as " + cv.Type().String()
				pos := c.P.Pos(cv.Pos())
				fa, ok := src.X.(*ssa.FieldAddr)
				if !ok {
					// a local holding what a detaching helper of the same pointer
					// receiver returned: the helper loads the field and assigns nil
					// to it on every path before returning
					okLocal := false
					if al, isAl := src.X.(*ssa.Alloc); isAl && al.Referrers() != nil && fn.Signature.Recv() != nil && len(fn.Params) > 0 {
						var stores []*ssa.Store
						for _, rf := range *al.Referrers() {
							if st, ok := rf.(*ssa.Store); ok && st.Addr == ssa.Value(al) {
								stores = append(stores, st)
							}
						}
						if len(stores) == 1 {
							if call, ok := stores[0].Val.(*ssa.Call); ok {
								g := call.Common().StaticCallee()
								_, ptrRecv := fn.Params[0].Type().(*types.Pointer)
								if g != nil && g.Blocks != nil && ptrRecv && len(call.Common().Args) > 0 && call.Common().Args[0] == ssa.Value(fn.Params[0]) && detaches(g) {
									okLocal = true
								}
							}
						}
					}
					if okLocal {
						r.Ok(construct + ": the storage was detached from the receiver by a helper that assigns nil to the field on every path")
					} else {
						r.Fail(construct, pos, "the reinterpreted storage is not a field of the receiver, nor a local holding what a detaching helper of the same pointer receiver returned", nil, "")
					}
					continue
				}
				root := fa.X
				prm, isParam := root.(*ssa.Parameter)
				if !isParam || len(fn.Params) == 0 || prm != fn.Params[0] || fn.Signature.Recv() == nil {
					r.Fail(construct, pos, "the storage belongs to a copy (or to something other than the method's pointer receiver): the string shares the bytes of a buffer that stays in use, so later writes, or Reset and reuse, change a string a caller already holds", nil, "")
					continue
				}
				okPaths := nilStoreOnAllPaths(ins, root, fa.Field)
				if okPaths {
					transfers[fn] = true
				}
				if okPaths {
					r.Ok(construct + ": the receiver gives the storage up on every path")
				} else {
					r.Fail(construct, pos, "a path reaches a return without the field being assigned nil: the buffer keeps writing into bytes a returned string shares", nil, "")
				}
			}
		}
	}
	if n == 0 {
		r.Note("no unsafe reinterpretation in the module")
		r.Ok("module / no string shares byte storage")
	}
	// the transfer is from the object that owns the storage, not from a copy of
	// it: a method that gives its receiver's storage away must not be called
	// on a local that was filled by copying another buffer (a value receiver,
	// `c := *b`) — the copy's nil-ed field is not the original's, which goes on
	// writing into the bytes the string now shares
	for _, fn := range c.P.ModuleFunctions() {
		for _, b := range fn.Blocks {
			for _, ins := range b.Instrs {
				ci, ok := ins.(ssa.CallInstruction)
				if !ok {
					continue
				}
				g := ci.Common().StaticCallee()
				if g == nil || !transfers[g] || len(ci.Common().Args) == 0 {
					continue
				}
				root := ci.Common().Args[0]
				for {
					fa, ok := root.(*ssa.FieldAddr)
					if !ok {
						break
					}
					root = fa.X
				}
				al, isLocal := root.(*ssa.Alloc)
				if !isLocal || al.Referrers() == nil {
					continue
				}
				copied := false
				for _, rf := range *al.Referrers() {
					st, ok := rf.(*ssa.Store)
					if !ok || st.Addr != ssa.Value(al) {
						continue
					}
					if _, isStruct := st.Val.Type().Underlying().(*types.Struct); isStruct {
						if k, isConst := st.Val.(*ssa.Const); !isConst || k.Value != nil {
							copied = true
						}
					}
				}
				construct := shortFn(fn.String()) + " / " + g.Name() + " on a copy"
				if copied {
					r.Fail(construct, c.P.Pos(ins.Pos()), g.Name()+" gives away the storage of its receiver, and the receiver here is a local filled by copying another buffer (a value receiver): the original keeps the same backing array and goes on writing into bytes the returned string shares", nil, "")
				} else {
					r.Ok(construct + ": the local was not copied from another buffer")
				}
			}
		}
	}
	return []*report.Result{r}
}

// nilStoreOnAllPaths: every path from `after` to a return of its function
// assigns nil to field `field` of the object `root` points to.
func nilStoreOnAllPaths(after ssa.Instruction, root ssa.Value, field int) bool {
	gives := func(x ssa.Instruction) bool {
		st, ok := x.(*ssa.Store)
		if !ok {
			return false
		}
		fa2, ok := st.Addr.(*ssa.FieldAddr)
		if !ok || fa2.X != root || fa2.Field != field {
			return false
		}
		k, ok := st.Val.(*ssa.Const)
		return ok && k.IsNil()
	}
	okPaths := true
	seen := map[*ssa.BasicBlock]bool{}
	var walk func(bb *ssa.BasicBlock, from int)
	walk = func(bb *ssa.BasicBlock, from int) {
		for i := from; i < len(bb.Instrs); i++ {
			if gives(bb.Instrs[i]) {
				return
			}
			if _, isRet := bb.Instrs[i].(*ssa.Return); isRet {
				okPaths = false
				return
			}
		}
		for _, sb := range bb.Succs {
			if !seen[sb] {
				seen[sb] = true
				walk(sb, 0)
			}
		}
	}
	b := after.Block()
	idx := 0
	for i, x := range b.Instrs {
		if x == after {
			idx = i
		}
	}
	walk(b, idx+1)
	return okPaths
}

// detaches: g is a pointer-receiver method every result of which is (a change
// of type of) a load of a field of its receiver, that field being assigned nil
// on every path from the load to the return.
func detaches(g *ssa.Function) bool {
	if g.Signature.Recv() == nil || len(g.Params) == 0 {
		return false
	}
	if _, ok := g.Params[0].Type().(*types.Pointer); !ok {
		return false
	}
	n := 0
	for _, b := range g.Blocks {
		ret, ok := b.Instrs[len(b.Instrs)-1].(*ssa.Return)
		if !ok {
			continue
		}
		if len(ret.Results) != 1 {
			return false
		}
		v := ret.Results[0]
		for {
			if ct, ok := v.(*ssa.ChangeType); ok {
				v = ct.X
				continue
			}
			break
		}
		ld, ok := v.(*ssa.UnOp)
		if !ok || ld.Op != token.MUL {
			return false
		}
		fa, ok := ld.X.(*ssa.FieldAddr)
		if !ok || fa.X != ssa.Value(g.Params[0]) {
			return false
		}
		if !nilStoreOnAllPaths(ld, fa.X, fa.Field) {
			return false
		}
		n++
	}
	return n > 0
}

func init() { register("C05.h", ruleC05h) }

// Rule C05.h — which method renders a value is fmt's choice, made in one place.
//
// fmt decides between Formatter, error, Stringer, GoStringer and reflection
// by verb, flags and precedence (a Formatter wins over a Stringer, %#v asks
// GoStringer, a reflect.Value is unpacked first). The fork inherits that
// decision in handleMethods. Hand-written code that calls one of these
// methods on an interface value itself — a "fast path" that returns
// x.String() or err.Error() for a value it was handed — makes the decision a
// second time, differently: the text of a declared-safe value is then not what
// fmt prints. Every dynamic call of Error/String/GoString/Format/SafeFormat in
// the module must be in the imported dispatcher (print.go/format.go), or on a
// value of the module's own redact types, or listed here with its reason.
func ruleC05h(c *Ctx) []*report.Result {
	r := report.NewResult("C05.h", "the choice of the method that renders an operand (Format, Error, String, GoString) is made only by fmt's dispatcher: outside the imported print.go/format.go no code of the module calls one of these methods dynamically on an interface value it was handed (it prints the value through the printer or through fmt instead), except at the listed sites", 1)
	methods := map[string]bool{"Error": true, "String": true, "GoString": true, "Format": true}
	allowed := map[string]string{
		// function -> reason
	}
	n := 0
	for _, fn := range c.P.ModuleFunctions() {
		if fn.Blocks == nil {
			continue
		}
		imported := !handWritten(c, fn)
		for _, b := range fn.Blocks {
			for _, ins := range b.Instrs {
				ci, ok := ins.(ssa.CallInstruction)
				if !ok || !ci.Common().IsInvoke() {
					continue
				}
				m := ci.Common().Method
				if m == nil || !methods[m.Name()] {
					continue
				}
				n++
				construct := shortFn(fn.String()) + " / dynamic " + m.Name() + "() on " + ci.Common().Value.Type().String()
				switch {
				case imported:
					r.Ok(construct + ": fmt's dispatcher")
				case allowed[shortFn(fn.String())] != "":
					r.Ok(construct + ": " + allowed[shortFn(fn.String())])
				default:
					r.Fail(construct, c.P.Pos(ins.Pos()), "hand-written code picks the rendering method itself: fmt may choose another one for the same value (Formatter before Stringer, GoStringer under %#v, a reflect.Value unpacked first), so the text differs from what fmt prints", nil, "")
				}
			}
		}
	}
	r.Note(fmt.Sprintf("%d dynamic calls of a rendering method examined", n))
	return []*report.Result{r}
}

func init() { register("C12.g", ruleC12g) }

// Rule C12.g — every field of the pooled printer has someone answering for it.
//
// A printer goes back to the pool and serves another call, possibly of
// another goroutine. Whatever a field holds then must not depend on the call
// before. The rules that decide this are field by field: C12.b (override,
// the %w pair, the buffer, fmt.buf, panicking/erroring at Put and Get), C12.f
// (the formatter's width and precision), C02.f (its flags). A NEW field — a
// memo of the last registry lookup, a scratch slice — is covered by none of
// them. This rule is the exhaustiveness check: each field of the printer
// struct is (a) assigned on the pool boundary — in the function that hands the
// printer to the pool or in the one that takes it out, or a helper they call
// on it —, or (b) the override, whose value at Put is decided by C12.b, or
// (c) one of fmt's two per-directive scratch flags (`reordered`,
// `goodArgNum`: doPrintf assigns both at the head of every directive before
// anything reads them; fmt does not reset them either).
func ruleC12g(c *Ctx) []*report.Result {
	r := report.NewResult("C12.g", "every field of the pooled printer is assigned on the pool boundary (by the function that puts it into the pool, the one that takes it out, or a helper they call on it), or is the override (decided at Put by C12.b), or one of fmt's per-directive scratch flags assigned at the head of every directive: no field — in particular none added by the fork — carries a value from one call into the next", 8)
	rp := c.P.Pkg("internal/rfmt")
	if rp == nil {
		r.Undecide("package rfmt not loaded")
		return []*report.Result{r}
	}
	o := rp.Types.Scope().Lookup("pp")
	if o == nil {
		r.Undecide("printer type not found")
		return []*report.Result{r}
	}
	st, ok := o.Type().Underlying().(*types.Struct)
	if !ok {
		r.Undecide("printer type is not a struct")
		return []*report.Result{r}
	}
	// the pool boundary: functions of rfmt that call (*sync.Pool).Put / Get with a printer
	var boundary []*ssa.Function
	for _, fn := range c.P.ModuleFunctions() {
		if pkgPathOf(fn) != pkgRfmt || fn.Blocks == nil {
			continue
		}
		for _, b := range fn.Blocks {
			for _, ins := range b.Instrs {
				if ci, ok := ins.(ssa.CallInstruction); ok {
					if f := ci.Common().StaticCallee(); f != nil && (f.String() == "(*sync.Pool).Put" || f.String() == "(*sync.Pool).Get") {
						boundary = append(boundary, fn)
					}
				}
			}
		}
	}
	if len(boundary) < 2 {
		r.Undecide(fmt.Sprintf("found %d functions on the pool boundary (want the one that puts and the one that gets)", len(boundary)))
		return []*report.Result{r}
	}
	assigned := map[int]string{}
	var scan func(fn *ssa.Function, root ssa.Value, depth int)
	scan = func(fn *ssa.Function, root ssa.Value, depth int) {
		if depth > 3 {
			return
		}
		for _, b := range fn.Blocks {
			for _, ins := range b.Instrs {
				switch x := ins.(type) {
				case *ssa.Store:
					// p.F = ..., or a store below p.F (p.F.G = ...) does not count: only the whole field
					if fa, ok := x.Addr.(*ssa.FieldAddr); ok && isPP(fa.X.Type()) && (root == nil || derivesFrom(fa.X, root)) {
						if _, had := assigned[fa.Field]; !had {
							assigned[fa.Field] = shortFn(fn.String())
						}
					}
				case ssa.CallInstruction:
					g := x.Common().StaticCallee()
					if g == nil || len(x.Common().Args) == 0 {
						continue
					}
					// a method called on a field of the printer (p.buf.Reset(), p.fmt.init(...)) re-initialises that field
					recv := x.Common().Args[0]
					for {
						inner, ok := recv.(*ssa.FieldAddr)
						if !ok {
							break
						}
						if isPP(inner.X.Type()) {
							if g.Signature.Recv() != nil && (g.Name() == "Reset" || g.Name() == "init") {
								if _, had := assigned[inner.Field]; !had {
									assigned[inner.Field] = shortFn(fn.String()) + " via " + g.Name()
								}
							}
							break
						}
						recv = inner.X
					}
					// a helper of the printer called on it
					if c.P.InModule(g) && g.Blocks != nil && isPP(x.Common().Args[0].Type()) && g != fn {
						scan(g, g.Params[0], depth+1)
					}
				}
			}
		}
	}
	for _, fn := range boundary {
		scan(fn, nil, 0)
	}
	for i := 0; i < st.NumFields(); i++ {
		f := st.Field(i)
		construct := "rfmt.pp." + f.Name()
		switch {
		case assigned[i] != "":
			r.Ok(construct + ": assigned on the pool boundary in " + assigned[i])
		case engine.FieldName(f) == "override":
			r.Ok(construct + ": its value at Put is decided by C12.b")
		case f.Name() == "reordered" || f.Name() == "goodArgNum":
			r.Ok(construct + ": fmt's per-directive scratch flag, assigned at the head of every directive")
		default:
			r.Fail(construct, c.P.Pos(f.Pos()), "nothing on the pool boundary assigns this field of the printer: what one call leaves in it is what the next call — of any goroutine — finds (a cache that outlives the registration it memoised, a scratch value that steers a later rendering)", nil, "")
		}
	}
	return []*report.Result{r}
}

func isPP(t types.Type) bool {
	p, ok := t.Underlying().(*types.Pointer)
	return ok && namedOf(p.Elem()) == tPP
}

// derivesFrom: v is root, possibly through type assertions, conversions and phis.
func derivesFrom(v, root ssa.Value) bool {
	for i := 0; i < 6; i++ {
		if v == root {
			return true
		}
		switch x := v.(type) {
		case *ssa.TypeAssert:
			v = x.X
		case *ssa.ChangeType:
			v = x.X
		case *ssa.Extract:
			v = x.Tuple
		default:
			return false
		}
	}
	return false
}

func init() { register("C06.h", ruleC06h) }

// Rule C06.h — the wrapper constructors are total.
//
// Everything the printer does for Safe(x)/Unsafe(x) starts from a type test
// for the wrapper struct. A constructor that, for some operands, returns
// something else than the wrapper — the operand itself "because a plain
// string is unsafe anyway" — removes the declaration for exactly those
// operands: Unsafe("s") is then a plain string, which a registered safe type
// or a %T prints outside envelopes. Every exported function of the wrapper
// package that returns a wrapper struct on some path returns, on EVERY path,
// that wrapper struct built with the function's parameter in its one field;
// the accessor methods named GetValue return that field.
func ruleC06h(c *Ctx) []*report.Result {
	r := report.NewResult("C06.h", "the constructors of the Safe/Unsafe wrappers are total: every exported function of the wrapper package that returns the wrapper struct on some path returns it on every path, with the function's own parameter as its one field (no operand is handed back unwrapped, pre-rendered or re-wrapped); GetValue returns that field", 2)
	sp := c.P.SSAPkg("internal/redact")
	if sp == nil {
		r.Undecide("wrapper package not loaded")
		return []*report.Result{r}
	}
	isWrapper := func(t types.Type) bool {
		k := c.classifyType(t)
		return k == "safewrap" || k == "unsafewrap"
	}
	n := 0
	for _, mem := range sortedMembers(sp) {
		fn, ok := mem.(*ssa.Function)
		if !ok || fn.Blocks == nil || fn.Object() == nil || !fn.Object().Exported() || fn.Signature.Recv() != nil {
			continue
		}
		type retInfo struct {
			ret *ssa.Return
			mi  *ssa.MakeInterface
		}
		var rets []retInfo
		wraps := false
		for _, b := range fn.Blocks {
			ret, ok := b.Instrs[len(b.Instrs)-1].(*ssa.Return)
			if !ok || len(ret.Results) != 1 {
				continue
			}
			mi, _ := ret.Results[0].(*ssa.MakeInterface)
			if mi != nil && isWrapper(mi.X.Type()) {
				wraps = true
			}
			rets = append(rets, retInfo{ret, mi})
		}
		if !wraps || len(fn.Params) != 1 {
			continue
		}
		n++
		construct := "redact." + fn.Name()
		okAll := true
		for _, ri := range rets {
			pos := c.P.Pos(ri.ret.Pos())
			if ri.mi == nil || !isWrapper(ri.mi.X.Type()) {
				okAll = false
				r.Fail(construct+" / returns the wrapper on every path", pos, "a path returns something other than the wrapper struct: for those operands the declaration is lost — the printer's type tests do not see a wrapper, and a registered safe type, %T or a bad-verb report renders the operand outside envelopes (or, for Safe, inside)", nil, "")
				continue
			}
			// the struct value: field 0 is the parameter
			okField := false
			switch sv := ri.mi.X.(type) {
			case *ssa.UnOp: // load of a local composite
				if al, ok := sv.X.(*ssa.Alloc); ok && al.Referrers() != nil {
					for _, rf := range *al.Referrers() {
						if fa, ok := rf.(*ssa.FieldAddr); ok && fa.Field == 0 && fa.Referrers() != nil {
							for _, rr := range *fa.Referrers() {
								if st, ok := rr.(*ssa.Store); ok && st.Val == ssa.Value(fn.Params[0]) {
									okField = true
								}
							}
						}
					}
				}
			}
			if !okField {
				okAll = false
				r.Fail(construct+" / wraps its parameter", pos, "the wrapper returned does not hold the function's parameter as it was passed", nil, "")
			}
		}
		if okAll {
			r.Ok(construct + ": every path returns the wrapper around the parameter")
		}
		// which wrapper: the constructor whose result type is the SafeValue
		// interface makes the safe wrapper, the other one the unsafe wrapper
		for _, ri := range rets {
			if ri.mi == nil {
				continue
			}
			k := c.classifyType(ri.mi.X.Type())
			wantSafe := c.classifyType(fn.Signature.Results().At(0).Type()) == "safevalue"
			if (k == "safewrap") != wantSafe {
				r.Fail(construct+" / wrapper of its side", c.P.Pos(ri.ret.Pos()), "the constructor returns the wrapper of the other side: the declaration is inverted", nil, "")
			} else {
				r.Ok(construct + ": the wrapper of its side")
			}
		}
	}
	if n < 2 {
		r.Undecide(fmt.Sprintf("found %d wrapper constructors (want Safe and Unsafe)", n))
	}
	return []*report.Result{r}
}

func init() { register("C16.f", ruleC16f) }

// Rule C16.f — a nested printer inherits the buffer and the unsafe override,
// nothing else. A SafeFormatter that calls Print/Printf on the printer it was
// handed gets a fresh printer that borrows the caller's buffer. What that
// printer starts with, besides what newPrinter gives every printer, is the
// sanctioned inheritance: the buffer (copied in, copied back) and the override
// when it is "unsafe". Anything else copied from the caller — the armed state
// of %w capture, a flag — makes the nested call behave differently from the
// same call at top level. In every function that copies another printer's
// buffer into a printer obtained in that function, the only fields of the
// fresh printer that are assigned are the buffer and the override.
func ruleC16f(c *Ctx) []*report.Result {
	r := report.NewResult("C16.f", "in every function that sets up a nested printer (a printer obtained there into which another printer's buffer is copied) the only fields of the fresh printer assigned, by that function or the helpers it calls on it before printing, are the buffer and the override: a nested Print/Printf differs from a top-level one by nothing else (in particular it is not armed for %w by its caller)", 1)
	n := 0
	for _, fn := range c.P.ModuleFunctions() {
		if pkgPathOf(fn) != pkgRfmt || fn.Blocks == nil {
			continue
		}
		// fresh printers of this function
		fresh := map[ssa.Value]bool{}
		for _, b := range fn.Blocks {
			for _, ins := range b.Instrs {
				if call, ok := ins.(*ssa.Call); ok {
					if g := call.Common().StaticCallee(); g != nil && g.Name() == "newPrinter" && pkgPathOf(g) == pkgRfmt {
						fresh[call] = true
					}
				}
			}
		}
		if len(fresh) == 0 {
			continue
		}
		type st struct {
			field string
			pos   token.Pos
		}
		var stores []st
		copiesBuf := false
		for _, b := range fn.Blocks {
			for _, ins := range b.Instrs {
				s, ok := ins.(*ssa.Store)
				if !ok {
					continue
				}
				fa, ok := s.Addr.(*ssa.FieldAddr)
				if !ok || !fresh[fa.X] {
					continue
				}
				name := fieldName(fa)
				stores = append(stores, st{name, s.Pos()})
				if name == "buf" {
					if loadedField(s.Val) == "buf" {
						copiesBuf = true
					}
				}
			}
		}
		if !copiesBuf {
			continue // a top-level entry point: arming %w there is HelperForErrorf's job
		}
		n++
		construct := shortFn(fn.String()) + " / nested printer inherits buffer and override only"
		okAll := true
		for _, s := range stores {
			if s.field != "buf" && s.field != "override" {
				okAll = false
				r.Fail(construct, c.P.Pos(s.pos), "the nested printer's field "+s.field+" is assigned from outside newPrinter: the nested call no longer starts like a top-level one (a %w inside a nested Printf would be captured into a slot nobody reads and rendered like %v, where Sprintf reports a bad verb)", nil, "")
			}
		}
		if okAll {
			r.Ok(construct)
		}
	}
	if n == 0 {
		r.Undecide("no function sets up a nested printer (Print/Printf of the SafePrinter were expected)")
	}
	return []*report.Result{r}
}

func init() { register("C10.h", ruleC10h) }

// Rule C10.h — who may call the byte scanner. The scanner is the buffer's and
// the printer's tool: it appends a guard after a dangling tail and splits at
// line feeds, which is right for text that continues in a buffer and wrong
// for the public "replace every marker and nothing else" functions, which go
// through the regular expressions. Its callers are in the buffer and the
// formatting core only.
func ruleC10h(c *Ctx) []*report.Result {
	r := report.NewResult("C10.h", "the escaper's byte scanner is called only from the buffer package and the formatting core: the public functions that promise to replace markers and nothing else (EscapeMarkers and the methods on redactable strings) do not go through it (it guards dangling tails and splits lines, which they must not)", 2)
	esc := c.escapeFn()
	if esc == nil {
		r.Undecide("escape routine not found")
		return []*report.Result{r}
	}
	for _, fn := range c.P.ModuleFunctions() {
		for _, b := range fn.Blocks {
			for _, ins := range b.Instrs {
				ci, ok := ins.(ssa.CallInstruction)
				if !ok || ci.Common().StaticCallee() != esc {
					continue
				}
				construct := shortFn(fn.String()) + " / calls the scanner"
				pk := pkgPathOf(fn)
				if pk == pkgBuffer || pk == pkgRfmt || pk == pkgEscape {
					r.Ok(construct)
				} else {
					r.Fail(construct, c.P.Pos(ins.Pos()), "the byte scanner is called from "+pk+": what it returns is not \"the input with each marker replaced\" (a guard is appended after a dangling tail, line feeds may split envelopes)", nil, "")
				}
			}
		}
	}
	return []*report.Result{r}
}
