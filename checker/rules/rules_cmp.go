package rules

import (
	"fmt"
	"go/token"
	"go/types"
	"sort"

	"golang.org/x/tools/go/ssa"

	"redactverif/report"
)

func init() { register("C11.i", ruleC11i) }

// Rule C11.i — no run-time panic from comparing or hashing an interface.
//
// `a == b` on two interface values (or on structs/arrays that contain
// interface fields) panics when both hold the same uncomparable dynamic type
// — a slice-typed error, a struct error with a map field; a map indexed by an
// interface-typed key panics when the key's dynamic type is unhashable. Both
// are ordinary-looking operations with no index expression, assertion or nil
// dereference, and operands (errors, wrapped values) are user data. Every
// such operation in the module must have one side whose dynamic type is
// known comparable: the nil constant, a value just made from a comparable
// concrete type, a reflect.Type (its implementations are pointers), a
// package-level variable holding a reflect.Type. A switch on an interface
// value is a chain of such comparisons and is covered.
func ruleC11i(c *Ctx) []*report.Result {
	r := report.NewResult("C11.i", "no comparison (==, !=, switch) of interface values, or of structs and arrays containing interfaces, and no map access with an interface-typed key, can panic on an uncomparable dynamic type: at every such operation in the module one side is nil, is freshly made from a comparable concrete type, or is a reflect.Type", 3)
	hasIface := func(t types.Type) bool {
		var rec func(t types.Type, d int) bool
		rec = func(t types.Type, d int) bool {
			if d > 4 {
				return false
			}
			switch u := t.Underlying().(type) {
			case *types.Interface:
				return true
			case *types.Struct:
				for i := 0; i < u.NumFields(); i++ {
					if rec(u.Field(i).Type(), d+1) {
						return true
					}
				}
			case *types.Array:
				return rec(u.Elem(), d+1)
			}
			return false
		}
		return rec(t, 0)
	}
	isReflectType := func(t types.Type) bool { return namedOf(t) == "reflect.Type" }
	var safeSide func(v ssa.Value, d int) (bool, string)
	safeSide = func(v ssa.Value, d int) (bool, string) {
		if d > 4 {
			return false, ""
		}
		switch x := v.(type) {
		case *ssa.Const:
			if x.IsNil() {
				return true, "nil"
			}
		case *ssa.MakeInterface:
			if types.Comparable(x.X.Type()) && !hasIface(x.X.Type()) {
				return true, "made from comparable " + x.X.Type().String()
			}
		case *ssa.ChangeInterface:
			return safeSide(x.X, d+1)
		case *ssa.Phi:
			why := ""
			for _, e := range x.Edges {
				ok, w := safeSide(e, d+1)
				if !ok {
					return false, ""
				}
				why = w
			}
			return true, why
		}
		if isReflectType(v.Type()) {
			return true, "a reflect.Type"
		}
		return false, ""
	}
	var fns []*ssa.Function
	for _, fn := range c.P.ModuleFunctions() {
		if fn.Blocks != nil {
			fns = append(fns, fn)
		}
	}
	sort.Slice(fns, func(i, j int) bool { return fns[i].String() < fns[j].String() })
	sites := 0
	for _, fn := range fns {
		for _, b := range fn.Blocks {
			for _, ins := range b.Instrs {
				switch x := ins.(type) {
				case *ssa.BinOp:
					if x.Op != token.EQL && x.Op != token.NEQ {
						continue
					}
					if !hasIface(x.X.Type()) || !hasIface(x.Y.Type()) {
						continue
					}
					sites++
					construct := fmt.Sprintf("%s / %s on %s", shortFn(fn.String()), x.Op, x.X.Type())
					okx, wx := safeSide(x.X, 0)
					oky, wy := safeSide(x.Y, 0)
					switch {
					case okx:
						r.Ok(construct + ": one side is " + wx)
					case oky:
						r.Ok(construct + ": one side is " + wy)
					default:
						r.Fail(construct, c.P.Pos(x.Pos()), "both sides are interface values (or contain them) of unknown dynamic type: the comparison panics with 'comparing uncomparable type' when both hold the same slice-, map- or func-based type — an error type like `type Errors []error`, a struct error with a slice field — and nothing around it recovers", nil, "")
					}
				case *ssa.Lookup:
					mt, ok := x.X.Type().Underlying().(*types.Map)
					if !ok || !hasIface(mt.Key()) {
						continue
					}
					sites++
					construct := fmt.Sprintf("%s / map lookup with key %s", shortFn(fn.String()), mt.Key())
					if ok, w := safeSide(x.Index, 0); ok || isReflectType(mt.Key()) {
						if w == "" {
							w = "a reflect.Type"
						}
						r.Ok(construct + ": the key is " + w)
					} else {
						r.Fail(construct, c.P.Pos(x.Pos()), "the key is an interface value of unknown dynamic type: hashing it panics when the dynamic type is unhashable", nil, "")
					}
				case *ssa.MapUpdate:
					mt, ok := x.Map.Type().Underlying().(*types.Map)
					if !ok || !hasIface(mt.Key()) {
						continue
					}
					sites++
					construct := fmt.Sprintf("%s / map update with key %s", shortFn(fn.String()), mt.Key())
					if ok, w := safeSide(x.Key, 0); ok || isReflectType(mt.Key()) {
						if w == "" {
							w = "a reflect.Type"
						}
						r.Ok(construct + ": the key is " + w)
					} else {
						r.Fail(construct, c.P.Pos(x.Pos()), "the key is an interface value of unknown dynamic type: hashing it panics when the dynamic type is unhashable", nil, "")
					}
				}
			}
		}
	}
	r.Note(fmt.Sprintf("%d comparisons / keyed accesses on interface-bearing types examined", sites))
	return []*report.Result{r}
}

func init() { register("C09.s", ruleC09s) }

// Rule C09.s — the bit size handed to the float and complex formatters is
// that of the value's own type. fmtFloat(v float64, size, verb) and
// fmtComplex(v complex128, size, verb) take every value widened, and round
// to `size` bits when formatting: a float64 (or a SafeFloat, whose underlying
// type it is) announced as 32 bits prints 3.1415927 for math.Pi. At every
// call with a constant size the value's origin decides: a conversion from a
// type of S bits needs size S; (reflect.Value).Float()/Complex() under a
// Kind test needs the size of that kind.
func ruleC09s(c *Ctx) []*report.Result {
	r := report.NewResult("C09.s", "every call of the float/complex formatters with a constant bit size passes the size of the type the value was widened from (conversion from float32/float64/complex64/complex128 or a named type over them, or reflect's Float()/Complex() under the matching Kind test): a value is never rounded to fewer bits than it has, the printer's and the builder's emitters render the same digits", 4)
	bitsOfKind := map[int64]int64{13: 32, 14: 64, 15: 64, 16: 128} // reflect.Float32, Float64, Complex64, Complex128
	for _, fn := range c.P.ModuleFunctions() {
		if fn.Blocks == nil {
			continue
		}
		for _, b := range fn.Blocks {
			for _, ins := range b.Instrs {
				call, ok := ins.(ssa.CallInstruction)
				if !ok {
					continue
				}
				f := call.Common().StaticCallee()
				if f == nil || pkgPathOf(f) != pkgRfmt || (f.Name() != "fmtFloat" && f.Name() != "fmtComplex") {
					continue
				}
				args := call.Common().Args
				if len(args) < 3 {
					continue
				}
				k, isConst := intConst(args[2])
				if !isConst {
					continue // passed through from the caller, checked there
				}
				construct := fmt.Sprintf("%s / %s(…, %d, …)", shortFn(fn.String()), f.Name(), k)
				pos := c.P.Pos(call.Pos())
				v := args[1]
				var want int64 = -1
				how := ""
				sizes := types.SizesFor("gc", "amd64")
				if cv, ok := v.(*ssa.Convert); ok {
					if bt, ok := cv.X.Type().Underlying().(*types.Basic); ok && bt.Info()&(types.IsFloat|types.IsComplex) != 0 {
						want = sizes.Sizeof(bt) * 8
						how = "converted from " + cv.X.Type().String()
					}
				}
				if want < 0 {
					if vc, ok := v.(*ssa.Call); ok {
						if g := vc.Common().StaticCallee(); g != nil && (g.String() == "(reflect.Value).Float" || g.String() == "(reflect.Value).Complex") {
							// the Kind test that guards this arm
							for _, gb := range fn.Blocks {
								iff, ok := gb.Instrs[len(gb.Instrs)-1].(*ssa.If)
								if !ok {
									continue
								}
								bo, ok := iff.Cond.(*ssa.BinOp)
								if !ok || bo.Op != token.EQL {
									continue
								}
								kc, ok := intConst(bo.Y)
								if !ok {
									continue
								}
								kcall, ok := bo.X.(*ssa.Call)
								if !ok || kcall.Common().StaticCallee() == nil || kcall.Common().StaticCallee().String() != "(reflect.Value).Kind" {
									continue
								}
								tb := gb.Succs[0]
								if len(tb.Preds) == 1 && (tb == b || tb.Dominates(b)) {
									if bits, ok := bitsOfKind[kc]; ok {
										want = bits
										how = fmt.Sprintf("reflect value of kind %d", kc)
									}
								}
							}
						}
					}
				}
				if ct, ok := v.(*ssa.ChangeType); ok && want < 0 {
					if bt, ok := ct.X.Type().Underlying().(*types.Basic); ok && bt.Info()&(types.IsFloat|types.IsComplex) != 0 {
						want = sizes.Sizeof(bt) * 8
						how = "converted from " + ct.X.Type().String()
					}
				}
				if want < 0 {
					if _, isCall := v.(*ssa.Call); !isCall {
						if bt, ok := v.Type().Underlying().(*types.Basic); ok && bt.Info()&(types.IsFloat|types.IsComplex) != 0 {
							want = sizes.Sizeof(bt) * 8
							how = "a value of type " + v.Type().String()
						}
					}
				}
				if want < 0 {
					r.Fail(construct, pos, "cannot tell which type the value was widened from: the constant bit size is not justified", nil, "")
					continue
				}
				if want == k {
					r.Ok(construct + ": " + how)
				} else {
					r.Fail(construct, pos, fmt.Sprintf("the value is %s (%d bits) but is formatted as a %d-bit number: digits are lost (or invented) for values that need the full width", how, want, k), nil, "")
				}
			}
		}
	}
	return []*report.Result{r}
}
