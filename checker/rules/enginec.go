package rules

import (
	"bytes"
	"encoding/json"
	"fmt"
	"go/ast"
	"go/parser"
	"go/printer"
	"go/token"
	"os"
	"path/filepath"
	"regexp"
	"sort"
	"strconv"
	"strings"

	"golang.org/x/tools/go/ssa"

	"redactverif/report"
)

// Engine C: fork conformance. internal/rfmt/print.go and format.go are a
// copy of the standard library's fmt plus a recorded patch (the .diff files).
//
//   C04.a1  the files are exactly "import base + recorded patch": reverse
//           applying the shipped diff succeeds and yields the import base R;
//   C04.a2  R is the standard library's fmt: function by function the
//           normalised source of R equals the reference (the fmt of a Go
//           toolchain kept under checker/oracle), or differs from it exactly
//           by the recorded upstream evolution of that function;
//   C04.a3  the recorded patch itself only instruments: after erasing the
//           instrumentation forms, each function of the fork equals R's;
//   C04.b   writePadding (rewritten, not patched) emits exactly n pad bytes.

func init() {
	register("C04.a", ruleC04a)
	register("C04.b", ruleC04b)
	register("C06.p", ruleC06p)
	register("C14.p", ruleC14p)
	register("C11.p", ruleC11p)
}

type hunk struct {
	oldStart, oldLen, newStart, newLen int
	lines                              []string // with their +,-,space prefix
}

func parseUnifiedDiff(text string) ([]hunk, error) {
	var hs []hunk
	re := regexp.MustCompile(`^@@ -(\d+)(?:,(\d+))? \+(\d+)(?:,(\d+))? @@`)
	lines := strings.Split(text, "\n")
	var cur *hunk
	for _, l := range lines {
		if m := re.FindStringSubmatch(l); m != nil {
			hs = append(hs, hunk{})
			cur = &hs[len(hs)-1]
			cur.oldStart, _ = strconv.Atoi(m[1])
			cur.oldLen = 1
			if m[2] != "" {
				cur.oldLen, _ = strconv.Atoi(m[2])
			}
			cur.newStart, _ = strconv.Atoi(m[3])
			cur.newLen = 1
			if m[4] != "" {
				cur.newLen, _ = strconv.Atoi(m[4])
			}
			continue
		}
		if cur == nil {
			continue // header
		}
		if l == "" {
			// trailing empty element of Split or an empty context line without prefix
			continue
		}
		switch l[0] {
		case '+', '-', ' ':
			cur.lines = append(cur.lines, l)
		case '\\':
			// "\ No newline at end of file"
		default:
			return nil, fmt.Errorf("unexpected diff line %q", l)
		}
	}
	for i, h := range hs {
		o, n := 0, 0
		for _, l := range h.lines {
			switch l[0] {
			case ' ':
				o++
				n++
			case '-':
				o++
			case '+':
				n++
			}
		}
		if o != h.oldLen || n != h.newLen {
			return nil, fmt.Errorf("hunk %d: line counts (%d,%d) do not match its header (%d,%d)", i+1, o, n, h.oldLen, h.newLen)
		}
	}
	if len(hs) == 0 {
		return nil, fmt.Errorf("no hunks")
	}
	return hs, nil
}

// reverseApply undoes the hunks on the patched text. A hunk is first looked
// for exactly, at its recorded position or shifted (lines were added or
// removed above it). When the lines the patch added are no longer those of
// the file — the redact-specific code was edited and the .diff not
// regenerated — the hunk is located by its leading and trailing context and
// the whole region between them is replaced by the old side of the hunk.
// That is sound for what the result is used for: an edit of imported code
// inside such a region shows up when the fork is compared with the base
// function by function (C04.a3), an edit outside when the base is compared
// with the reference (C04.a). The second result lists the stale hunks.
func reverseApply(patched string, hs []hunk) (string, []string, error) {
	src := strings.Split(patched, "\n")
	var out []string
	var stale []string
	pos := 0 // index in src (0-based)
	delta := 0
	const window = 400
	matchAt := func(h hunk, start int) bool {
		p := start
		if start < pos {
			return false
		}
		for _, l := range h.lines {
			if l[0] == '-' {
				continue
			}
			if p >= len(src) || src[p] != l[1:] {
				return false
			}
			p++
		}
		return true
	}
	linesAt := func(ls []string, at int) bool {
		if at < 0 || at+len(ls) > len(src) {
			return false
		}
		for i, l := range ls {
			if src[at+i] != l {
				return false
			}
		}
		return true
	}
	offsets := func() []int {
		o := []int{0}
		for d := 1; d <= window; d++ {
			o = append(o, d, -d)
		}
		return o
	}()
	for i, h := range hs {
		start := h.newStart - 1
		if h.newLen == 0 {
			start = h.newStart
		}
		start += delta
		var old []string
		for _, l := range h.lines {
			if l[0] != '+' {
				old = append(old, l[1:])
			}
		}
		found := false
		for _, d := range offsets {
			if matchAt(h, start+d) {
				s0 := start + d
				out = append(out, src[pos:s0]...)
				out = append(out, old...)
				pos = s0 + h.newLen
				delta += d
				found = true
				break
			}
		}
		if found {
			continue
		}
		// context anchoring
		var lead, trail []string
		for _, l := range h.lines {
			if l[0] != ' ' {
				break
			}
			lead = append(lead, l[1:])
		}
		for j := len(h.lines) - 1; j >= 0 && h.lines[j][0] == ' '; j-- {
			trail = append([]string{h.lines[j][1:]}, trail...)
		}
		if len(lead) == 0 || len(trail) == 0 || len(lead)+len(trail) > len(h.lines) {
			return "", stale, fmt.Errorf("hunk %d (@@ +%d) does not match the file and has no context on both sides to locate it by", i+1, h.newStart)
		}
		for _, d := range offsets {
			s0 := start + d
			if s0 < pos || !linesAt(lead, s0) {
				continue
			}
			for j := s0 + len(lead); j <= s0+h.newLen+window && j+len(trail) <= len(src); j++ {
				if linesAt(trail, j) {
					end := j + len(trail)
					out = append(out, src[pos:s0]...)
					out = append(out, old...)
					delta += (end - s0) - h.newLen + d
					pos = end
					found = true
					stale = append(stale, fmt.Sprintf("hunk %d (@@ +%d): the lines the recorded patch adds are not those of the file; located by context at line %d", i+1, h.newStart, s0+1))
					break
				}
			}
			if found {
				break
			}
		}
		if !found {
			return "", stale, fmt.Errorf("hunk %d (@@ +%d): neither the hunk nor its context was found in the file — the imported code around it was rewritten", i+1, h.newStart)
		}
	}
	out = append(out, src[pos:]...)
	return strings.Join(out, "\n"), stale, nil
}

var (
	reIface = regexp.MustCompile(`interface\{\}`)
	rePtr   = regexp.MustCompile(`reflect\.Ptr\b`)
)

// funcTexts parses src and returns the normalised text of every function
// declaration keyed by "recv.name".
func funcTexts(name, src string) (map[string][]string, error) {
	fset := token.NewFileSet()
	f, err := parser.ParseFile(fset, name, src, 0) // comments dropped
	if err != nil {
		return nil, err
	}
	out := map[string][]string{}
	for _, d := range f.Decls {
		fd, ok := d.(*ast.FuncDecl)
		if !ok {
			continue
		}
		key := fd.Name.Name
		if fd.Recv != nil && len(fd.Recv.List) == 1 {
			var tb bytes.Buffer
			printer.Fprint(&tb, fset, fd.Recv.List[0].Type)
			key = tb.String() + "." + key
		}
		fd.Doc = nil
		fd = canonFunc(fd)
		var b bytes.Buffer
		if err := printer.Fprint(&b, token.NewFileSet(), fd); err != nil {
			return nil, err
		}
		txt := reIface.ReplaceAllString(b.String(), "any")
		txt = rePtr.ReplaceAllString(txt, "reflect.Pointer")
		var lines []string
		for _, l := range strings.Split(txt, "\n") {
			l = strings.TrimSpace(l)
			if l != "" {
				lines = append(lines, l)
			}
		}
		out[key] = lines
	}
	return out, nil
}

// lineDiff returns the lines to delete (-) and insert (+) to turn a into b.
func lineDiff(a, b []string) []string {
	n, m := len(a), len(b)
	lcs := make([][]int, n+1)
	for i := range lcs {
		lcs[i] = make([]int, m+1)
	}
	for i := n - 1; i >= 0; i-- {
		for j := m - 1; j >= 0; j-- {
			if a[i] == b[j] {
				lcs[i][j] = lcs[i+1][j+1] + 1
			} else if lcs[i+1][j] >= lcs[i][j+1] {
				lcs[i][j] = lcs[i+1][j]
			} else {
				lcs[i][j] = lcs[i][j+1]
			}
		}
	}
	var out []string
	i, j := 0, 0
	for i < n && j < m {
		switch {
		case a[i] == b[j]:
			i++
			j++
		case lcs[i+1][j] >= lcs[i][j+1]:
			out = append(out, "-"+a[i])
			i++
		default:
			out = append(out, "+"+b[j])
			j++
		}
	}
	for ; i < n; i++ {
		out = append(out, "-"+a[i])
	}
	for ; j < m; j++ {
		out = append(out, "+"+b[j])
	}
	return out
}

// oracleDir is where the reference fmt sources and evolution tables live.
func (c *Ctx) oracleDir() string {
	if c.Oracle != "" {
		return c.Oracle
	}
	return "/verif/checker/oracle"
}

type evolution map[string]map[string][]string // file -> function -> diff lines

// reconstructBase reverse-applies the shipped diffs.
func (c *Ctx) reconstructBase(r *report.Result) map[string]string {
	b, _ := c.reconstructBaseStale(r)
	return b
}

// reconstructBaseStale also reports for which files the recorded patch is
// not current (some hunk had to be located by context, or could not be).
func (c *Ctx) reconstructBaseStale(r *report.Result) (map[string]string, map[string]bool) {
	staleFiles := map[string]bool{}
	base := map[string]string{}
	for _, f := range []string{"print.go", "format.go"} {
		path := filepath.Join(c.P.Dir, "internal/rfmt", f)
		cur, err1 := os.ReadFile(path)
		df, err2 := os.ReadFile(path + ".diff")
		construct := "internal/rfmt/" + f + " / import base + recorded patch"
		if err1 != nil || err2 != nil {
			r.Fail(construct, "internal/rfmt/"+f, "cannot read the file or its recorded patch", nil, "")
			continue
		}
		hs, err := parseUnifiedDiff(string(df))
		if err != nil {
			r.Fail(construct, "internal/rfmt/"+f+".diff", "recorded patch is not a well-formed unified diff: "+err.Error(), nil, "")
			continue
		}
		orig, stale, err := reverseApply(string(cur), hs)
		if err != nil {
			// The recorded patch is documentation (refresh.sh writes it); a
			// stale one is not a violation of C04. Whether the fork still is
			// fmt plus instrumentation is decided by C04.a3 (ii), which does
			// not use the patch.
			staleFiles[f] = true
			r.Note(f + ".diff is stale and the import base cannot be reconstructed from it (" + err.Error() + "); this file is decided by the direct comparison of C04.a3 with the reference fmt")
			r.Ok(f + ": recorded patch stale, import base not reconstructed")
			continue
		}
		for _, st := range stale {
			staleFiles[f] = true
			r.Note(f + ".diff is stale, " + st + " (documentation only)")
		}
		r.Ok(fmt.Sprintf("%s: %d hunks undone (%d located by context)", f, len(hs), len(stale)))
		base[f] = orig
	}
	// fmtsort is imported verbatim (a header is prepended, nothing patched)
	if b, err := os.ReadFile(filepath.Join(c.P.Dir, "internal/rfmt/fmtsort/sort.go")); err == nil {
		base["sort.go"] = string(b)
	} else {
		r.Fail("internal/rfmt/fmtsort/sort.go / import base", "internal/rfmt/fmtsort/sort.go", "cannot read the file", nil, "")
	}
	return base, staleFiles
}

// only, when non-nil, restricts the comparison to the functions it accepts.
func (c *Ctx) compareWithReference(r *report.Result, base map[string]string, gen evolution, only ...func(string) bool) {
	refs, _ := filepath.Glob(filepath.Join(c.oracleDir(), "go*"))
	sort.Strings(refs)
	if len(refs) == 0 {
		r.Undecide("no reference fmt sources under " + c.oracleDir())
		return
	}
	for _, f := range []string{"print.go", "format.go", "sort.go"} {
		src, ok := base[f]
		if !ok {
			continue
		}
		bt, err := funcTexts(f, src)
		if err != nil {
			r.Fail("internal/rfmt/"+f+" / import base parses", "internal/rfmt/"+f, "reconstructed import base does not parse: "+err.Error(), nil, "")
			continue
		}
		type refData struct {
			name  string
			funcs map[string][]string
			evo   map[string][]string
		}
		var rds []refData
		for _, rd := range refs {
			b, err := os.ReadFile(filepath.Join(rd, f+".txt"))
			if err != nil {
				continue
			}
			ft, err := funcTexts(f, string(b))
			if err != nil {
				r.Undecide("reference " + rd + "/" + f + " does not parse")
				continue
			}
			var evo evolution
			if eb, err := os.ReadFile(filepath.Join(rd, "evolution.json")); err == nil {
				json.Unmarshal(eb, &evo)
			}
			rds = append(rds, refData{filepath.Base(rd), ft, evo[f]})
		}
		keys := make([]string, 0, len(bt))
		for k := range bt {
			keys = append(keys, k)
		}
		sort.Strings(keys)
		for _, k := range keys {
			if len(only) > 0 && only[0] != nil && !only[0](k) {
				continue
			}
			construct := "fmt " + f + " / " + k
			okAny := false
			why := ""
			for _, rd := range rds {
				up, exists := rd.funcs[k]
				if !exists {
					// removed upstream since the import: admissible only as a
					// recorded evolution (the whole body is the difference)
					up = nil
					why = "function does not exist in the reference fmt (" + rd.name + ") and its removal is not recorded"
				}
				d := lineDiff(bt[k], up)
				if gen != nil && rd.name == "go1.23.5" || gen != nil && len(rds) == 1 {
					if len(d) > 0 {
						if gen[f] == nil {
							gen[f] = map[string][]string{}
						}
						gen[f][k] = d
					}
				}
				if len(d) == 0 {
					okAny = true
					break
				}
				if want, ok := rd.evo[k]; ok && equalStrings(want, d) {
					okAny = true
					break
				}
				if why == "" || len(d) < 6 {
					// show what is beyond the recorded evolution
					rec := map[string]int{}
					for _, l := range rd.evo[k] {
						rec[l]++
					}
					var beyond []string
					for _, l := range d {
						if rec[l] > 0 {
							rec[l]--
						} else {
							beyond = append(beyond, l)
						}
					}
					for l, n := range rec {
						if n > 0 {
							beyond = append(beyond, "(recorded evolution line no longer present: "+l+")")
						}
					}
					sort.Strings(beyond)
					why = fmt.Sprintf("differs from %s's fmt beyond the recorded upstream evolution ('-' import base, '+' reference): %s", rd.name, strings.Join(firstN(beyond, 4), " | "))
				}
			}
			path := "internal/rfmt/" + f
			if f == "sort.go" {
				path = "internal/rfmt/fmtsort/sort.go"
			}
			if okAny {
				r.Ok(construct + " = standard library")
			} else {
				r.Fail(construct, path, "the import base of "+k+" "+why, nil, "")
			}
		}
	}
}

func firstN(s []string, n int) []string {
	if len(s) > n {
		return s[:n]
	}
	return s
}

func equalStrings(a, b []string) bool {
	if len(a) != len(b) {
		return false
	}
	for i := range a {
		if a[i] != b[i] {
			return false
		}
	}
	return true
}

func ruleC04a(c *Ctx) []*report.Result {
	r := report.NewResult("C04.a", "print.go and format.go are exactly the import base plus the recorded patch (reverse-applying the shipped .diff succeeds with no fuzz), fmtsort/sort.go is imported verbatim, and every function of the (reconstructed) import base equals the function of the same name in the standard library's fmt (reference sources under checker/oracle), textually after dropping comments and trivial renamings, or differs from it exactly by the recorded upstream evolution of that function", 60)
	base, stale := c.reconstructBaseStale(r)
	for f := range stale {
		delete(base, f) // decided by C04.a3 (ii), which does not use the recorded patch
		r.Floor -= map[string]int{"print.go": 40, "format.go": 22}[f]
	}
	c.compareWithReference(r, base, nil)
	r.Analysed = fmt.Sprintf("references: %s", c.oracleDir())
	return []*report.Result{r}
}

// directiveParser: the functions of fmt that turn a format string into the
// flag/width/precision state a Formatter sees, and the accessors of that state.
var directiveParser = map[string]bool{
	"*pp.doPrintf": true, "parsenum": true, "intFromArg": true, "*pp.argNumber": true, "parseArgNumber": true,
	"tooLarge": true, "*pp.Flag": true, "*pp.Width": true, "*pp.Precision": true, "*fmt.clearflags": true, "*fmt.init": true,
}

// ruleC14p: what MakeFormat reproduces is the state left by fmt's directive
// parser; the round trip closes only if the fork's parser is that parser.
func ruleC14p(c *Ctx) []*report.Result {
	return c.engineCRestricted("C14.p", "the directive parser of the fork (doPrintf's flag/width/precision scanning, parsenum, intFromArg, argNumber, parseArgNumber, tooLarge, clearflags, init and the Flag/Width/Precision accessors) is the standard library's (Engine C restricted to these functions): a directive rebuilt by MakeFormat is parsed back into the state it was built from, by the library's own printer as by fmt's", 9, directiveParser)
}

// panicContainment: fmt's recovery routine. Which panics it contains (all,
// a nil receiver included) and which it lets through (a panic raised while a
// panic value is being printed) is fmt's decision, statement by statement.
var panicContainment = map[string]bool{"*pp.catchPanic": true}

func ruleC11p(c *Ctx) []*report.Result {
	return c.engineCRestricted("C11.p", "the recovery routine deferred around every user method (catchPanic) is, instrumentation erased, the standard library's statement by statement (Engine C restricted to it): the nil-receiver shortcut comes before the re-raise of a nested panic, the panic report is bracketed as fmt does", 1, panicContainment)
}

// methodDispatch: the functions of fmt that decide WHICH code renders an
// operand: a Formatter, error, Stringer or GoStringer method, or reflection,
// at the top level and at depth. "The characters are those fmt prints for x"
// (C06), "the text fmt would print" (C05) hold only if that decision is fmt's.
var methodDispatch = map[string]bool{"*pp.printArg": true, "*pp.printValue": true, "*pp.handleMethods": true}

func ruleC06p(c *Ctx) []*report.Result {
	return c.engineCRestricted("C06.p", "which code renders an operand — its Formatter, error, Stringer or GoStringer method or reflection, at top level and at depth, with the value or with what an interface slot holds — is decided by printArg, printValue and handleMethods exactly as in the standard library (Engine C restricted to them, instrumentation erased): the wrappers and classifications of the fork change where the text goes, not which text it is", 3, methodDispatch)
}

// engineCRestricted is Engine C (a2, or a3(ii) when the recorded patch is
// not current) for a named set of imported functions.
func (c *Ctx) engineCRestricted(id, text string, floor int, set map[string]bool) []*report.Result {
	r := report.NewResult(id, text, floor)
	tmp := report.NewResult("x", "", 0)
	base, stale := c.reconstructBaseStale(tmp)
	for _, f := range tmp.Findings {
		r.Fail(f.Construct, f.Pos, f.Msg, nil, "")
	}
	only := func(k string) bool { return set[k] }
	if stale["print.go"] {
		cur, err := os.ReadFile(filepath.Join(c.P.Dir, "internal/rfmt/print.go"))
		a := &auditor{own: ownNames(filepath.Join(c.P.Dir, "internal/rfmt")), ownFuncs: ownMethods(filepath.Join(c.P.Dir, "internal/rfmt"))}
		fork, err2 := a.auditFuncs("print.go", string(cur), "fork")
		if err != nil || err2 != nil {
			r.Undecide("cannot parse print.go")
			return []*report.Result{r}
		}
		c.auditAgainstReference(r, a, "print.go", fork, nil, only)
		delete(base, "print.go")
	}
	if stale["format.go"] {
		cur, err := os.ReadFile(filepath.Join(c.P.Dir, "internal/rfmt/format.go"))
		a := &auditor{own: ownNames(filepath.Join(c.P.Dir, "internal/rfmt")), ownFuncs: ownMethods(filepath.Join(c.P.Dir, "internal/rfmt"))}
		fork, err2 := a.auditFuncs("format.go", string(cur), "fork")
		if err != nil || err2 != nil {
			r.Undecide("cannot parse format.go")
			return []*report.Result{r}
		}
		c.auditAgainstReference(r, a, "format.go", fork, nil, only)
		delete(base, "format.go")
	}
	c.compareWithReference(r, base, nil, only)
	r.Analysed = fmt.Sprintf("references: %s", c.oracleDir())
	return []*report.Result{r}
}

// GenEvolution writes the evolution table for the current tree (developer
// command; the table is reviewed and committed, never written by a check).
func GenEvolution(c *Ctx) error {
	r := report.NewResult("gen", "", 0)
	base := c.reconstructBase(r)
	if len(r.Findings) > 0 {
		return fmt.Errorf("cannot reconstruct the import base: %v", r.Findings[0].Msg)
	}
	refs, _ := filepath.Glob(filepath.Join(c.oracleDir(), "go*"))
	for _, rd := range refs {
		gen := evolution{}
		// compare against this reference only
		tmp := *c
		one := filepath.Join(os.TempDir(), "oracle-one")
		os.RemoveAll(one)
		os.MkdirAll(filepath.Join(one, filepath.Base(rd)), 0o755)
		for _, f := range []string{"print.go.txt", "format.go.txt", "sort.go.txt"} {
			b, _ := os.ReadFile(filepath.Join(rd, f))
			os.WriteFile(filepath.Join(one, filepath.Base(rd), f), b, 0o644)
		}
		tmp.Oracle = one
		rr := report.NewResult("gen", "", 0)
		tmp.compareWithReference(rr, base, gen)
		os.RemoveAll(one)
		b, _ := json.MarshalIndent(gen, "", " ")
		if err := os.WriteFile(filepath.Join(rd, "evolution.json"), b, 0o644); err != nil {
			return err
		}
		n := 0
		for _, m := range gen {
			n += len(m)
		}
		fmt.Printf("%s: %d functions differ from the import base\n", filepath.Base(rd), n)
	}
	// the same table in the audit's normal form (erased, primitives mapped),
	// from the reconstructed import base: what the fork must reduce to
	genM := map[string]mappedEvolution{}
	for _, f := range []string{"print.go", "format.go"} {
		a := &auditor{}
		orig, err := a.auditFuncs(f, base[f], "base")
		if err != nil {
			return err
		}
		c.auditAgainstReference(nil, a, f, orig, genM, nil)
	}
	for name, m := range genM {
		b, _ := json.MarshalIndent(m, "", " ")
		if err := os.WriteFile(filepath.Join(c.oracleDir(), name, "evolution_mapped.json"), b, 0o644); err != nil {
			return err
		}
		n := 0
		for _, x := range m {
			n += len(x)
		}
		fmt.Printf("%s: %d functions differ in the audit normal form\n", name, n)
	}
	return nil
}

// ruleC04b: writePadding emits exactly n copies of the pad byte.
//
// The rule computes, it does not match a shape: the pad byte is resolved
// through the branch on f.zero (either polarity, if/else or overwrite form),
// and the number of iterations of the loop around the one byte write is
// derived from its induction variable (initial value, step +1 or -1, exit
// comparison in either orientation, all linear in n) and must be n for every
// n >= 1; for n <= 0 the function must have returned before anything else.
func ruleC04b(c *Ctx) []*report.Result {
	r := report.NewResult("C04.b", "(*fmt).writePadding: returns at once for n <= 0; the pad byte is '0' iff f.zero, else ' '; the only writes are one writeByte(padByte) per iteration of a counting loop whose number of iterations, computed from its induction variable, initial value, step and exit test, is exactly n", 4)
	fn := c.P.Func("internal/rfmt", "(*fmt).writePadding")
	if fn == nil {
		r.Undecide("(*fmt).writePadding not found")
		return []*report.Result{r}
	}
	pos := c.P.Pos(fn.Pos())
	n := fn.Params[1]
	// linear term a*n+b
	type lin struct{ a, b int64 }
	var linOf func(v ssa.Value, depth int) (lin, bool)
	linOf = func(v ssa.Value, depth int) (lin, bool) {
		if depth > 6 {
			return lin{}, false
		}
		if v == ssa.Value(n) {
			return lin{1, 0}, true
		}
		if k, ok := intConst(v); ok {
			return lin{0, k}, true
		}
		if bo, ok := v.(*ssa.BinOp); ok && (bo.Op == token.ADD || bo.Op == token.SUB) {
			x, ok1 := linOf(bo.X, depth+1)
			y, ok2 := linOf(bo.Y, depth+1)
			if ok1 && ok2 {
				if bo.Op == token.ADD {
					return lin{x.a + y.a, x.b + y.b}, true
				}
				return lin{x.a - y.a, x.b - y.b}, true
			}
		}
		return lin{}, false
	}
	// ray of a comparison between n and a constant: the set where it is true, as "n <= c" (le) or "n >= c"
	rayOf := func(v ssa.Value) (le bool, cst int64, ok bool) {
		neg := false
		for {
			u, isU := v.(*ssa.UnOp)
			if !isU || u.Op != token.NOT {
				break
			}
			neg = !neg
			v = u.X
		}
		bo, isB := v.(*ssa.BinOp)
		if !isB {
			return
		}
		op := bo.Op
		var k int64
		if bo.X == ssa.Value(n) {
			kk, isK := intConst(bo.Y)
			if !isK {
				return
			}
			k = kk
		} else if bo.Y == ssa.Value(n) {
			kk, isK := intConst(bo.X)
			if !isK {
				return
			}
			k = kk
			op = map[token.Token]token.Token{token.LSS: token.GTR, token.LEQ: token.GEQ, token.GTR: token.LSS, token.GEQ: token.LEQ}[op]
		} else {
			return
		}
		switch op {
		case token.LEQ:
			le, cst = true, k
		case token.LSS:
			le, cst = true, k-1
		case token.GEQ:
			le, cst = false, k
		case token.GTR:
			le, cst = false, k+1
		default:
			return
		}
		if neg {
			if le {
				le, cst = false, cst+1
			} else {
				le, cst = true, cst-1
			}
		}
		return le, cst, true
	}
	// entry: n <= 0 returns, in any spelling
	okGuard := false
	if iff, ok := fn.Blocks[0].Instrs[len(fn.Blocks[0].Instrs)-1].(*ssa.If); ok {
		pure := true
		for _, ins := range fn.Blocks[0].Instrs {
			switch ins.(type) {
			case *ssa.BinOp, *ssa.UnOp, *ssa.If, *ssa.DebugRef:
			default:
				pure = false
			}
		}
		if le, cst, ok := rayOf(iff.Cond); ok && pure {
			retSucc := -1
			if le && cst == 0 {
				retSucc = 0
			} else if !le && cst == 1 {
				retSucc = 1
			}
			if retSucc >= 0 {
				sb := fn.Blocks[0].Succs[retSucc]
				if _, isRet := sb.Instrs[len(sb.Instrs)-1].(*ssa.Return); isRet && len(sb.Instrs) == 1 {
					okGuard = true
				}
			}
		}
	}
	r.Check(okGuard, "(*internal/rfmt.fmt).writePadding / no padding for n <= 0", pos, "the function must return immediately exactly when n <= 0")
	// writes: calls into the writer layer
	var writes []*ssa.Call
	var other []string
	for _, b := range fn.Blocks {
		for _, ins := range b.Instrs {
			switch x := ins.(type) {
			case *ssa.Store, *ssa.MapUpdate, *ssa.Defer, *ssa.Go, *ssa.Send, *ssa.Panic:
				other = append(other, x.String())
			}
			call, ok := ins.(*ssa.Call)
			if !ok {
				continue
			}
			f := call.Common().StaticCallee()
			if f == nil {
				if _, isB := call.Common().Value.(*ssa.Builtin); !isB {
					other = append(other, call.String())
				}
				continue
			}
			switch {
			case strings.HasSuffix(f.String(), ".writeByte") || (recvNamed(f) == tBuffer && f.Name() == "WriteByte"):
				writes = append(writes, call)
			case recvNamed(f) == tBuffer && f.Name() == "Grow":
			default:
				other = append(other, f.String())
			}
		}
	}
	r.Check(len(other) == 0, "(*internal/rfmt.fmt).writePadding / only byte writes", pos, fmt.Sprintf("unexpected calls or effects %v", other))
	if len(writes) != 1 {
		r.Fail("(*internal/rfmt.fmt).writePadding / one write per iteration", pos, fmt.Sprintf("%d byte-write sites, want exactly one inside the counting loop", len(writes)), nil, "")
		return []*report.Result{r}
	}
	w := writes[0]
	// pad byte: ' ' or '0' selected by f.zero, '0' exactly on the side where f.zero is true
	okPad := false
	why := "the pad byte must be '0' when f.zero is set and ' ' otherwise"
	if ph, ok := w.Common().Args[len(w.Common().Args)-1].(*ssa.Phi); ok {
		var zeroPreds, spacePreds []*ssa.BasicBlock
		bad := false
		for i, e := range ph.Edges {
			if e == ssa.Value(ph) {
				continue // carried around the loop
			}
			k, isK := intConst(e)
			switch {
			case isK && k == '0':
				zeroPreds = append(zeroPreds, ph.Block().Preds[i])
			case isK && k == ' ':
				spacePreds = append(spacePreds, ph.Block().Preds[i])
			default:
				bad = true
			}
		}
		// the deciding branch
		var zb *ssa.BasicBlock
		zTrue := -1
		for _, b := range fn.Blocks {
			iff, isIf := b.Instrs[len(b.Instrs)-1].(*ssa.If)
			if !isIf {
				continue
			}
			cond, neg := iff.Cond, false
			for {
				u, isU := cond.(*ssa.UnOp)
				if !isU || u.Op != token.NOT {
					break
				}
				neg = !neg
				cond = u.X
			}
			if loadedField(cond) == "zero" {
				if zb != nil {
					bad = true
				}
				zb = b
				zTrue = 0
				if neg {
					zTrue = 1
				}
			}
		}
		if !bad && zb != nil && len(zeroPreds) > 0 && len(spacePreds) > 0 {
			// which way out of the deciding branch an edge into the phi comes from
			sideOf := func(p *ssa.BasicBlock) int {
				if p == zb {
					if zb.Succs[0] == ph.Block() && zb.Succs[1] != ph.Block() {
						return 0
					}
					if zb.Succs[1] == ph.Block() && zb.Succs[0] != ph.Block() {
						return 1
					}
					return -1
				}
				for i, sb := range zb.Succs {
					if sb != ph.Block() && len(sb.Preds) == 1 && sb.Dominates(p) {
						return i
					}
				}
				return -1
			}
			okPad = true
			for _, p := range zeroPreds {
				if sideOf(p) != zTrue {
					okPad = false
				}
			}
			for _, p := range spacePreds {
				if sideOf(p) != 1-zTrue {
					okPad = false
				}
			}
		}
	}
	r.Check(okPad, "(*internal/rfmt.fmt).writePadding / pad byte", pos, why)
	// the loop around the write and its trip count
	okLoop, lwhy := func() (bool, string) {
		lb := w.Block()
		// the header: a block ending in a comparison, from which lb is reached and which lb reaches again
		reach := func(from, to *ssa.BasicBlock, avoid *ssa.BasicBlock) bool {
			seen := map[*ssa.BasicBlock]bool{}
			var dfs func(b *ssa.BasicBlock) bool
			dfs = func(b *ssa.BasicBlock) bool {
				if b == to {
					return true
				}
				if seen[b] || b == avoid {
					return false
				}
				seen[b] = true
				for _, s := range b.Succs {
					if dfs(s) {
						return true
					}
				}
				return false
			}
			for _, s := range from.Succs {
				if dfs(s) {
					return true
				}
			}
			return false
		}
		var hdr *ssa.BasicBlock
		for _, b := range fn.Blocks {
			if _, isIf := b.Instrs[len(b.Instrs)-1].(*ssa.If); isIf && b.Dominates(lb) && b != lb && reach(lb, b, nil) {
				if hdr == nil || hdr.Dominates(b) {
					hdr = b
				}
			}
		}
		if hdr == nil {
			return false, "the byte write is not inside a loop with a tested bound"
		}
		iff := hdr.Instrs[len(hdr.Instrs)-1].(*ssa.If)
		// body side of the test
		bodySucc := -1
		for i, s := range hdr.Succs {
			if s == lb || (s.Dominates(lb) && reach(s, hdr, nil)) {
				bodySucc = i
			}
		}
		if bodySucc < 0 {
			return false, "cannot tell which side of the loop test is the body"
		}
		// the body is a straight chain from the test back to it, with the write on it
		cur := hdr.Succs[bodySucc]
		onChain := false
		for steps := 0; ; steps++ {
			if cur == lb {
				onChain = true
			}
			if steps > 8 || len(cur.Succs) != 1 {
				return false, "the loop body branches: the number of writes per iteration is not evidently one"
			}
			if cur.Succs[0] == hdr {
				break
			}
			cur = cur.Succs[0]
		}
		if !onChain {
			return false, "the byte write is not on the loop's body chain"
		}
		cond, neg := iff.Cond, bodySucc == 1
		for {
			u, isU := cond.(*ssa.UnOp)
			if !isU || u.Op != token.NOT {
				break
			}
			neg = !neg
			cond = u.X
		}
		bo, isB := cond.(*ssa.BinOp)
		if !isB {
			return false, "the loop test is not a comparison"
		}
		op := bo.Op
		ph, isPh := bo.X.(*ssa.Phi)
		bound := bo.Y
		if !isPh || ph.Block() != hdr {
			ph, isPh = bo.Y.(*ssa.Phi)
			bound = bo.X
			op = map[token.Token]token.Token{token.LSS: token.GTR, token.LEQ: token.GEQ, token.GTR: token.LSS, token.GEQ: token.LEQ, token.NEQ: token.NEQ, token.EQL: token.EQL}[op]
			if !isPh || ph.Block() != hdr {
				return false, "the loop test does not compare the loop's induction variable"
			}
		}
		if neg {
			op = map[token.Token]token.Token{token.LSS: token.GEQ, token.LEQ: token.GTR, token.GTR: token.LEQ, token.GEQ: token.LSS, token.NEQ: token.EQL, token.EQL: token.NEQ}[op]
		}
		bl, okb := linOf(bound, 0)
		if !okb {
			return false, "the loop bound is not linear in n"
		}
		var init lin
		haveInit, step := false, int64(0)
		for i, e := range ph.Edges {
			p := hdr.Preds[i]
			if hdr.Dominates(p) { // back edge
				d, okd := plusConst(e, ph)
				if !okd || (d != 1 && d != -1) || (step != 0 && step != d) {
					return false, "the induction variable does not move in steps of one"
				}
				step = d
			} else {
				l, okl := linOf(e, 0)
				if !okl || (haveInit && l != init) {
					return false, "the induction variable's initial value is not linear in n"
				}
				init, haveInit = l, true
			}
		}
		if !haveInit || step == 0 {
			return false, "no induction variable"
		}
		// trip count for n >= 1 (the guard has dealt with n <= 0)
		var cnt lin
		switch {
		case step == 1 && op == token.LSS:
			cnt = lin{bl.a - init.a, bl.b - init.b}
		case step == 1 && op == token.LEQ:
			cnt = lin{bl.a - init.a, bl.b - init.b + 1}
		case step == 1 && op == token.NEQ:
			cnt = lin{bl.a - init.a, bl.b - init.b}
		case step == -1 && op == token.GTR:
			cnt = lin{init.a - bl.a, init.b - bl.b}
		case step == -1 && op == token.GEQ:
			cnt = lin{init.a - bl.a, init.b - bl.b + 1}
		case step == -1 && op == token.NEQ:
			cnt = lin{init.a - bl.a, init.b - bl.b}
		default:
			return false, fmt.Sprintf("loop test %s with step %+d does not terminate after a computable number of iterations", op, step)
		}
		if cnt != (lin{1, 0}) {
			return false, fmt.Sprintf("the loop runs %d*n%+d times, want n: the number of pad bytes is wrong for some n", cnt.a, cnt.b)
		}
		return true, ""
	}()
	if lwhy == "" {
		lwhy = "the write must be the body of a loop that runs exactly n times"
	}
	r.Check(okLoop, "(*internal/rfmt.fmt).writePadding / counting loop", pos, lwhy)
	return []*report.Result{r}
}
