package rules

import (
	"fmt"
	"go/constant"
	"go/token"
	"go/types"
	"sort"
	"strings"

	"golang.org/x/tools/go/ssa"

	"redactverif/engine"
	"redactverif/report"
)

func init() {
	register("C14.abc", ruleC14abc)
	register("C14.d", ruleC14d)
	register("C14.e", ruleC14e)
}

// fwdHooks answers the fmt.State queries of MakeFormat from a ghost
// configuration object and records what is written into the builder.
type fwdHooks struct {
	engine.BaseHooks
}

func (h *fwdHooks) cfgBool(c *engine.Ctx, name string) engine.AbsVal {
	return c.Heap.Get("cfg", name)
}

func (h *fwdHooks) DynamicResult(c *engine.Ctx, instr ssa.Instruction, args []engine.AbsVal) (engine.AbsVal, bool) {
	ci, ok := instr.(ssa.CallInstruction)
	if !ok || !ci.Common().IsInvoke() {
		return nil, false
	}
	switch ci.Common().Method.Name() {
	case "Flag":
		if len(args) == 2 {
			if n, ok := constInt(args[1]); ok {
				v := c.Heap.Get("cfg", "flag"+string(rune(n)))
				if _, isTop := v.(engine.Top); !isTop {
					return v, true
				}
				return boolv(false), true // a flag character fmt does not know
			}
		}
	case "Width":
		return engine.TupleV{Elems: []engine.AbsVal{engine.Sym{Name: "wid"}, c.Heap.Get("cfg", "widPresent")}}, true
	case "Precision":
		return engine.TupleV{Elems: []engine.AbsVal{engine.Sym{Name: "prec"}, c.Heap.Get("cfg", "precPresent")}}, true
	}
	return nil, false
}

func (h *fwdHooks) appendTrace(c *engine.Ctx, tok string) {
	o := c.Heap["trace"]
	if o == nil {
		return
	}
	cur, _ := constStr(o.Fields[""])
	o.Fields[""] = str(cur + tok)
}

func (h *fwdHooks) OnCall(c *engine.Ctx, instr ssa.Instruction, callee *ssa.Function, args []engine.AbsVal) (bool, engine.AbsVal) {
	switch callee.String() {
	case "(*strings.Builder).WriteByte":
		if n, ok := constInt(args[1]); ok {
			h.appendTrace(c, string(rune(n)))
		} else {
			h.appendTrace(c, "<?byte>")
		}
		return true, engine.NilV{}
	case "(*strings.Builder).WriteRune":
		switch v := args[1].(type) {
		case engine.Const:
			n, _ := constInt(v)
			h.appendTrace(c, string(rune(n)))
		case engine.Other:
			h.appendTrace(c, "<verb>")
		default:
			h.appendTrace(c, "<?rune>")
		}
		return true, engine.TupleV{Elems: []engine.AbsVal{engine.Top{}, engine.NilV{}}}
	case "(*strings.Builder).Write":
		if s, ok := constStr(args[1]); ok {
			h.appendTrace(c, s)
		} else {
			h.appendTrace(c, "<?bytes>")
		}
		return true, engine.TupleV{Elems: []engine.AbsVal{engine.Top{}, engine.NilV{}}}
	case "(*strings.Builder).WriteString":
		if s, ok := constStr(args[1]); ok {
			h.appendTrace(c, s)
		} else {
			h.appendTrace(c, "<?string>")
		}
		return true, engine.TupleV{Elems: []engine.AbsVal{engine.Top{}, engine.NilV{}}}
	case "strconv.Itoa", "strconv.FormatInt":
		if s, ok := args[0].(engine.Sym); ok {
			return true, str("<" + s.Name + ">")
		}
		return true, str("<?int>")
	case "strconv.AppendInt":
		cur, ok := constStr(args[0])
		if !ok {
			return true, engine.Top{}
		}
		if s, ok := args[1].(engine.Sym); ok {
			return true, str(cur + "<" + s.Name + ">")
		}
		return true, str(cur + "<?int>")
	case "unicode/utf8.AppendRune":
		cur, ok := constStr(args[0])
		if !ok {
			return true, engine.Top{}
		}
		return true, str(cur + runeTok(args[1]))
	case "(*strings.Builder).String":
		cur, _ := constStr(c.Heap.Get("trace", ""))
		return true, str(cur)
	}
	return false, nil
}

func runeTok(v engine.AbsVal) string {
	switch x := v.(type) {
	case engine.Const:
		if n, ok := constInt(x); ok {
			return string(rune(n))
		}
	case engine.Other:
		return "<verb>"
	}
	return "<?rune>"
}

// EvalValue models a format under construction in a byte slice or by string
// concatenation: the value is the text built so far (same tokens as the
// strings.Builder trace).
func (h *fwdHooks) EvalValue(c *engine.Ctx, v ssa.Value, ops []engine.AbsVal) (engine.AbsVal, bool) {
	isBytes := func(t types.Type) bool {
		sl, ok := t.Underlying().(*types.Slice)
		if !ok {
			return false
		}
		b, ok := sl.Elem().Underlying().(*types.Basic)
		return ok && b.Kind() == types.Uint8
	}
	isString := func(t types.Type) bool {
		b, ok := t.Underlying().(*types.Basic)
		return ok && b.Info()&types.IsString != 0
	}
	switch x := v.(type) {
	case *ssa.MakeSlice:
		if n, ok := constInt(ops[0]); ok && n == 0 && isBytes(x.Type()) {
			return str(""), true
		}
	case *ssa.Slice:
		// make([]byte, 0, K) with constant K: a fresh array sliced to [:0]
		if al, ok := x.X.(*ssa.Alloc); ok && isBytes(x.Type()) && x.Low == nil {
			if n, ok := intConst(x.High); ok && n == 0 {
				_ = al
				return str(""), true
			}
		}
		// enc[:utf8.EncodeRune(enc[:], r)]: the encoding of r
		if hc, ok := x.High.(*ssa.Call); ok && isBytes(x.Type()) {
			if g := hc.Common().StaticCallee(); g != nil && g.String() == "unicode/utf8.EncodeRune" {
				if dst, ok := hc.Common().Args[0].(*ssa.Slice); ok && dst.X == x.X {
					return str(runeTok(c.Eval(hc.Common().Args[1]))), true
				}
			}
		}
		// text[:] / text[0:] keep the text
		if s, ok := constStr(ops[0]); ok && x.Low == nil && x.High == nil {
			return str(s), true
		}
	case *ssa.Convert:
		from, to := x.X.Type(), x.Type()
		switch {
		case isString(to) && !isString(from) && !isBytes(from):
			// string(rune)
			if b, ok := from.Underlying().(*types.Basic); ok && b.Info()&types.IsInteger != 0 {
				return str(runeTok(ops[0])), true
			}
		case (isString(to) && isBytes(from)) || (isBytes(to) && isString(from)):
			if s, ok := constStr(ops[0]); ok {
				return str(s), true
			}
		}
	case *ssa.BinOp:
		if x.Op == token.ADD && isString(x.Type()) {
			a, ok1 := constStr(ops[0])
			b, ok2 := constStr(ops[1])
			if !ok1 {
				a = "<?string>"
			}
			if !ok2 {
				b = "<?string>"
			}
			return str(a + b), true
		}
	case *ssa.Call:
		// append(text, more...)
		cur, ok := constStr(ops[0])
		if !ok || len(ops) < 2 {
			return nil, false
		}
		if s, ok := constStr(ops[1]); ok {
			return str(cur + s), true
		}
		// append(text, b1, b2): the operands sit in a fresh array
		if sl, ok := x.Common().Args[1].(*ssa.Slice); ok {
			if al, ok := sl.X.(*ssa.Alloc); ok && al.Referrers() != nil {
				toks := map[int64]string{}
				for _, ref := range *al.Referrers() {
					ia, ok := ref.(*ssa.IndexAddr)
					if !ok || ia.Referrers() == nil {
						continue
					}
					idx, ok := intConst(ia.Index)
					if !ok {
						return str(cur + "<?bytes>"), true
					}
					for _, u := range *ia.Referrers() {
						if st, ok := u.(*ssa.Store); ok && st.Addr == ia {
							if n, ok := constInt(c.Eval(st.Val)); ok {
								toks[idx] = string(rune(n))
							} else {
								toks[idx] = "<?byte>"
							}
						}
					}
				}
				for i := int64(0); i < int64(len(toks)); i++ {
					cur += toks[i]
				}
				return str(cur), true
			}
		}
		return str(cur + "<?bytes>"), true
	}
	return nil, false
}

var fwdFlags = []rune{'+', '-', '#', ' ', '0'}

// ruleC14abc enumerates all 2^7 states of a fmt.State and four verb classes
// abstractly and compares what MakeFormat returns with the directive.
func ruleC14abc(c *Ctx) []*report.Result {
	r := report.NewResult("C14.abc", "MakeFormat, interpreted abstractly for every combination of the five flags, width present/absent, precision present/absent (2^7) and verb in {v, s, d, any other}: on its single path it returns '%' + exactly the set flags (each once) + the width iff present + '.'precision iff present + the verb, and justV is true exactly for bare %v", 512)
	fn := c.internalTarget("internal/fmtforward", "MakeFormat")
	if fn == nil {
		r.Undecide("fmtforward.MakeFormat not found")
		return []*report.Result{r}
	}
	it := engine.New(engine.Config{Prog: c.P.Prog, InModule: c.P.InModule, Hooks: &fwdHooks{}, NoMerge: true, MaxStates: 5000, Ambient: []string{"cfg", "trace"}})
	type verbCase struct {
		name string
		val  engine.AbsVal
		tok  string
	}
	verbs := []verbCase{{"v", num('v'), "v"}, {"s", num('s'), "s"}, {"d", num('d'), "d"}, {"other", engine.Other{}, "<verb>"}}
	type rootInfo struct {
		root  engine.Root
		want  string
		justV bool
		desc  string
	}
	var infos []rootInfo
	var roots []engine.Root
	for mask := 0; mask < 128; mask++ {
		for _, vc := range verbs {
			cfg := &engine.Object{Type: types.Typ[types.Int], TrackAll: true, Fields: map[string]engine.AbsVal{}}
			var flagSet []string
			for i, f := range fwdFlags {
				on := mask&(1<<i) != 0
				cfg.Fields["flag"+string(f)] = boolv(on)
				if on {
					flagSet = append(flagSet, string(f))
				}
			}
			wp, pp := mask&32 != 0, mask&64 != 0
			cfg.Fields["widPresent"] = boolv(wp)
			cfg.Fields["precPresent"] = boolv(pp)
			h := engine.Heap{"cfg": cfg, "trace": &engine.Object{Type: types.Typ[types.String], TrackAll: true, Fields: map[string]engine.AbsVal{"": str("")}}}
			sort.Strings(flagSet)
			want := strings.Join(flagSet, "")
			if wp {
				want += "|<wid>"
			}
			if pp {
				want += "|.<prec>"
			}
			want += "|" + vc.tok
			root := engine.Root{Fn: fn, Args: []engine.AbsVal{engine.Top{}, vc.val}, Heap: h}
			roots = append(roots, root)
			infos = append(infos, rootInfo{root, want, mask == 0 && vc.name == "v", fmt.Sprintf("flags=%q width=%v prec=%v verb=%s", strings.Join(flagSet, ""), wp, pp, vc.name)})
		}
	}
	it.Run(roots)
	for _, u := range it.Undecided {
		r.Undecide(u)
	}
	pos := c.P.Pos(fn.Pos())
	for _, inf := range infos {
		sum := it.SummaryFor(inf.root.Fn, inf.root.Args, inf.root.Heap, false)
		construct := "fmtforward.MakeFormat / " + inf.desc
		if sum == nil || len(sum.Outcomes) != 1 {
			n := 0
			if sum != nil {
				n = len(sum.Outcomes)
			}
			r.Fail("fmtforward.MakeFormat / single path", pos, fmt.Sprintf("%d outcomes for %s (the result must be determined by the state)", n, inf.desc), nil, inf.desc)
			continue
		}
		o := sum.SortedOutcomes()[0]
		tv, ok := o.Ret.(engine.TupleV)
		if !ok || len(tv.Elems) != 2 {
			r.Fail(construct, pos, "result is not a (bool, string) pair of known values", nil, inf.desc)
			continue
		}
		justV, ok1 := constBool(tv.Elems[0])
		format, ok2 := constStr(tv.Elems[1])
		if !ok1 || !ok2 {
			r.Fail("fmtforward.MakeFormat / result", pos, "result is not a compile-time-determined (bool, string) for "+inf.desc+": "+o.Ret.Key(), nil, inf.desc)
			continue
		}
		got, err := canonFormat(format)
		if err != "" {
			r.Fail("fmtforward.MakeFormat / "+err, pos, fmt.Sprintf("for %s the format is %q: %s", inf.desc, format, err), nil, inf.desc)
			continue
		}
		if got != inf.want {
			r.Fail("fmtforward.MakeFormat / reproduces directive", pos, fmt.Sprintf("for %s the format %q does not reproduce the directive (canonical %q, want %q)", inf.desc, format, got, inf.want), nil, inf.desc)
			continue
		}
		if justV != inf.justV {
			r.Fail("fmtforward.MakeFormat / justV", pos, fmt.Sprintf("for %s justV=%v, want %v", inf.desc, justV, inf.justV), nil, inf.desc)
			continue
		}
		r.Ok(fmt.Sprintf("%s -> (%v, %q)", inf.desc, justV, format))
	}
	r.Analysed = fmt.Sprintf("%d abstract configurations, %d states", len(infos), it.States)
	return []*report.Result{r}
}

// canonFormat parses the symbolic format produced by the abstract run into
// "sortedflags|<wid>|.<prec>|verb".
func canonFormat(f string) (string, string) {
	if !strings.HasPrefix(f, "%") {
		return "", "format does not start with '%'"
	}
	rest := f[1:]
	var flags []string
	seen := map[byte]bool{}
	for len(rest) > 0 && strings.IndexByte("+-# 0", rest[0]) >= 0 {
		if seen[rest[0]] {
			return "", "flag emitted twice"
		}
		seen[rest[0]] = true
		flags = append(flags, string(rest[0]))
		rest = rest[1:]
	}
	sort.Strings(flags)
	out := strings.Join(flags, "")
	if strings.HasPrefix(rest, "<wid>") {
		out += "|<wid>"
		rest = rest[len("<wid>"):]
	}
	if strings.HasPrefix(rest, ".") {
		if !strings.HasPrefix(rest, ".<prec>") {
			return "", "'.' not followed by the precision"
		}
		out += "|.<prec>"
		rest = rest[len(".<prec>"):]
	}
	if rest == "" {
		return "", "verb missing"
	}
	if strings.ContainsAny(rest, "+-# 0.") && rest != "<verb>" {
		return "", "flags, width or precision out of order"
	}
	if strings.Contains(rest, "<prec>") || strings.Contains(rest, "<wid>") || strings.Contains(rest, "<?") {
		return "", "width/precision out of order or from an unrecognised source"
	}
	return out + "|" + rest, ""
}

// ruleC14d: the wrappers forward through ReproducePrintf, which chooses
// Fprint for bare %v and Fprintf with the reproduced format otherwise.
func ruleC14d(c *Ctx) []*report.Result {
	r := report.NewResult("C14.d", "Safe/Unsafe wrappers' Format call ReproducePrintf(s, s, verb, inner value); ReproducePrintf prints with fmt.Fprint iff MakeFormat reported bare %v, otherwise with fmt.Fprintf and the reproduced format, the operand being the single argument in both", 8)
	reproduce := c.reproduceFn()
	makeFormat := c.internalTarget("internal/fmtforward", "MakeFormat")
	for _, name := range []string{"(unsafeWrap).Format", "(safeWrapper).Format"} {
		fn := c.P.Func("internal/redact", name)
		construct := "internal/redact." + name
		if fn == nil {
			r.Fail(construct, "internal/redact/wrappers.go", "wrapper Format method not found", nil, "")
			continue
		}
		// helpers of the wrapper package are read in place
		fl := flatten(fn, func(g *ssa.Function) bool {
			// helpers of the wrapper package, and of the forwarding package other than the forwarder itself
			return g.Pkg == fn.Pkg || (pkgPathOf(g) == pkgFwd && g != reproduce)
		})
		calls := fl.calls
		pos := c.P.Pos(fn.Pos())
		if !fl.straight || len(calls) != 1 || calls[0].Common().StaticCallee() == nil || calls[0].Common().StaticCallee() != reproduce || reproduce == nil {
			r.Fail(construct+" / single forward", pos, "body must be exactly one call of fmtforward.ReproducePrintf", nil, "")
			continue
		}
		if _, isCall := calls[0].(*ssa.Call); !isCall {
			r.Fail(construct+" / single forward", pos, "the forward must be a plain call", nil, "")
			continue
		}
		a := fl.args(calls[0])
		sParam, verbParam := fn.Params[1], fn.Params[2]
		okW := fl.deep(a[0]) == sParam
		okS := fl.deep(a[1]) == sParam
		okV := a[2] == verbParam
		okA := false
		if fld, ok := a[3].(*ssa.Field); ok && fld.X == fn.Params[0] {
			okA = true
		} else if u, ok := a[3].(*ssa.UnOp); ok {
			if fa, ok := u.X.(*ssa.FieldAddr); ok {
				_ = fa
				okA = true
			}
		}
		r.Check(okW && okS, construct+" / writer and state", pos, "ReproducePrintf must receive the fmt.State both as writer and as state")
		r.Check(okV, construct+" / verb", pos, "ReproducePrintf must receive the active verb")
		r.Check(okA, construct+" / operand", pos, "ReproducePrintf must receive the wrapped value")
	}
	fn := reproduce
	if fn == nil {
		r.Fail("fmtforward.ReproducePrintf", "internal/fmtforward/make_format.go", "function not found", nil, "")
		return []*report.Result{r}
	}
	pos := c.P.Pos(fn.Pos())
	var mk *ssa.Call
	var fprint, fprintf *ssa.Call
	for _, b := range fn.Blocks {
		for _, ins := range b.Instrs {
			call, ok := ins.(*ssa.Call)
			if !ok {
				continue
			}
			f := call.Common().StaticCallee()
			if f == nil {
				continue
			}
			if makeFormat != nil && f == makeFormat {
				mk = call
			}
			switch f.String() {
			case "fmt.Fprint":
				fprint = call
			case "fmt.Fprintf":
				fprintf = call
			}
		}
	}
	if mk == nil || fprint == nil || fprintf == nil {
		r.Fail("fmtforward.ReproducePrintf / shape", pos, "expected one call each of MakeFormat, fmt.Fprint, fmt.Fprintf", nil, "")
		return []*report.Result{r}
	}
	r.Check(stripIface(mk.Common().Args[0]) == fn.Params[1] && mk.Common().Args[1] == fn.Params[2], "fmtforward.ReproducePrintf / MakeFormat(s, verb)", pos, "MakeFormat must be applied to the state and verb parameters")
	// branch: If on extract #0 of mk
	var iff *ssa.If
	for _, ins := range mk.Block().Instrs {
		if i, ok := ins.(*ssa.If); ok {
			iff = i
		}
	}
	okBranch := false
	var fmtVal ssa.Value
	if iff != nil {
		if ex, ok := iff.Cond.(*ssa.Extract); ok && ex.Tuple == mk && ex.Index == 0 {
			tb, fb := iff.Block().Succs[0], iff.Block().Succs[1]
			okBranch = fprint.Block() == tb && fprintf.Block() == fb
		}
	}
	r.Check(okBranch, "fmtforward.ReproducePrintf / branch on justV", pos, "fmt.Fprint must be used exactly when justV is true, fmt.Fprintf otherwise")
	fmtVal = fprintf.Common().Args[1]
	ex, ok := fmtVal.(*ssa.Extract)
	r.Check(ok && ex.Tuple == mk && ex.Index == 1, "fmtforward.ReproducePrintf / format forwarded", pos, "fmt.Fprintf must receive the format returned by MakeFormat")
	r.Check(fprint.Common().Args[0] == fn.Params[0] && fprintf.Common().Args[0] == fn.Params[0], "fmtforward.ReproducePrintf / writer", pos, "both print calls must write to the writer parameter")
	r.Check(variadicIsSingle(fprint.Common().Args[1], fn.Params[3]) && variadicIsSingle(fprintf.Common().Args[2], fn.Params[3]), "fmtforward.ReproducePrintf / single operand", pos, "the operand must be the only variadic argument of both print calls")
	return []*report.Result{r}
}

func stripIface(v ssa.Value) ssa.Value {
	for {
		switch x := v.(type) {
		case *ssa.ChangeInterface:
			v = x.X
		case *ssa.MakeInterface:
			v = x.X
		default:
			return v
		}
	}
}

// variadicIsSingle: v is a fresh one-element slice holding exactly elem.
func variadicIsSingle(v ssa.Value, elem ssa.Value) bool {
	sl, ok := v.(*ssa.Slice)
	if !ok {
		return false
	}
	al, ok := sl.X.(*ssa.Alloc)
	if !ok {
		return false
	}
	arr, ok := al.Type().Underlying().(*types.Pointer).Elem().Underlying().(*types.Array)
	if !ok || arr.Len() != 1 {
		return false
	}
	stores := 0
	okElem := false
	for _, ref := range *al.Referrers() {
		if ia, ok := ref.(*ssa.IndexAddr); ok {
			for _, r2 := range *ia.Referrers() {
				if st, ok := r2.(*ssa.Store); ok {
					stores++
					okElem = st.Val == elem
				}
			}
		}
	}
	return stores == 1 && okElem
}

// ruleC14e: pp.Flag reports the flags the parser recorded, including the
// plusV/sharpV forms, for every state of the flag struct.
func ruleC14e(c *Ctx) []*report.Result {
	r := report.NewResult("C14.e", "(*pp).Flag interpreted abstractly for every state of the seven boolean flags and every flag character: '+' reports plus||plusV, '#' sharp||sharpV, '-' minus, ' ' space, '0' zero, any other character false; Width/Precision return the stored value with its present bit", 700)
	fn := c.P.Func("internal/rfmt", "(*pp).Flag")
	if fn == nil {
		r.Undecide("(*pp).Flag not found")
		return []*report.Result{r}
	}
	tFlags := pkgRfmt + ".fmtFlags"
	names := []string{"minus", "plus", "sharp", "space", "zero", "plusV", "sharpV"}
	track := map[engine.TrackSpec]bool{}
	for _, n := range names {
		track[engine.TrackSpec{Type: tFlags, Field: n}] = true
	}
	it := engine.New(engine.Config{Prog: c.P.Prog, InModule: c.P.InModule, Track: track, NoMerge: true})
	ppT := c.P.SSAPkg("internal/rfmt").Type("pp").Type()
	type info struct {
		root engine.Root
		want bool
		desc string
	}
	var infos []info
	var roots []engine.Root
	chars := []struct {
		name string
		v    engine.AbsVal
	}{{"+", num('+')}, {"-", num('-')}, {"#", num('#')}, {" ", num(' ')}, {"0", num('0')}, {"other", engine.Other{}}}
	for mask := 0; mask < 128; mask++ {
		st := map[string]bool{}
		fields := map[string]engine.AbsVal{}
		for i, n := range names {
			st[n] = mask&(1<<i) != 0
			fields["fmt.fmtFlags."+n] = boolv(st[n])
		}
		for _, ch := range chars {
			want := false
			switch ch.name {
			case "+":
				want = st["plus"] || st["plusV"]
			case "-":
				want = st["minus"]
			case "#":
				want = st["sharp"] || st["sharpV"]
			case " ":
				want = st["space"]
			case "0":
				want = st["zero"]
			}
			f2 := map[string]engine.AbsVal{}
			for k, v := range fields {
				f2[k] = v
			}
			h := engine.Heap{"in0": &engine.Object{Type: ppT, Fields: f2}}
			root := engine.Root{Fn: fn, Args: []engine.AbsVal{engine.Ptr{Obj: "in0"}, ch.v}, Heap: h}
			roots = append(roots, root)
			infos = append(infos, info{root, want, fmt.Sprintf("flag %q with state %07b", ch.name, mask)})
		}
	}
	it.Run(roots)
	for _, u := range it.Undecided {
		r.Undecide(u)
	}
	pos := c.P.Pos(fn.Pos())
	for _, inf := range infos {
		sum := it.SummaryFor(inf.root.Fn, inf.root.Args, inf.root.Heap, false)
		if sum == nil || len(sum.Outcomes) != 1 {
			r.Fail("(*internal/rfmt.pp).Flag / single path", pos, "result not determined by the flag state for "+inf.desc, nil, inf.desc)
			continue
		}
		got, ok := constBool(sum.SortedOutcomes()[0].Ret)
		if ok && got == inf.want {
			r.Ok(inf.desc + " -> " + fmt.Sprint(got))
		} else {
			r.Fail("(*internal/rfmt.pp).Flag / answer", pos, fmt.Sprintf("%s: Flag returns %s, the parser's state says %v (a forwarded directive loses or gains a flag)", inf.desc, sum.SortedOutcomes()[0].Ret.Key(), inf.want), nil, inf.desc)
		}
	}
	// Width / Precision: return (field, presentField)
	for _, wp := range []struct{ m, val, present string }{{"Width", "wid", "widPresent"}, {"Precision", "prec", "precPresent"}} {
		f := c.P.Func("internal/rfmt", "(*pp)."+wp.m)
		construct := "(*internal/rfmt.pp)." + wp.m
		if f == nil {
			r.Fail(construct, "internal/rfmt/print.go", "method not found", nil, "")
			continue
		}
		okShape := false
		if len(f.Blocks) == 1 {
			if ret, ok := f.Blocks[0].Instrs[len(f.Blocks[0].Instrs)-1].(*ssa.Return); ok && len(ret.Results) == 2 {
				okShape = loadedField(ret.Results[0]) == wp.val && loadedField(ret.Results[1]) == wp.present
			}
		}
		r.Check(okShape, construct+" / returns stored value and present bit", c.P.Pos(f.Pos()), wp.m+" must return (fmt."+wp.val+", fmt."+wp.present+")")
	}
	r.Analysed = fmt.Sprintf("%d abstract configurations", len(infos))
	return []*report.Result{r}
}

func loadedField(v ssa.Value) string {
	u, ok := v.(*ssa.UnOp)
	if !ok {
		return ""
	}
	fa, ok := u.X.(*ssa.FieldAddr)
	if !ok {
		return ""
	}
	return fieldName(fa)
}

var _ = constant.MakeBool
