package rules

import (
	"fmt"
	"go/constant"
	"go/token"
	"go/types"
	"sort"
	"strings"

	"golang.org/x/tools/go/ssa"

	"redactverif/report"
)

func init() { register("C02.f", ruleC02f) }

// Rule C02.f — the formatting flags are a frame.
//
// The flags, width and precision of the formatter are set by the directive
// parser and stay in force for the whole operand of the directive: every
// element of a slice, every field of a struct, including the declared-safe
// ones whose padding and sign are written outside the markers. A rendering
// routine that changes a flag for a sub-rendering (fmtInteger clears zero
// around the padding of a precision-0 zero, fmtComplex sets plus around the
// imaginary part, catchPanic clears everything around the panic message) has
// to put the old value back on every path; if a path forgets, whether the
// later elements are padded with zeros or blanks depends on the CONTENT of an
// earlier, unsafe, element (was it NaN? did its method panic?) — an implicit
// flow that no write-classification rule sees, because every byte is written
// in the right mode.
//
// Forward analysis per function over the abstract value of every flag path
// (fmtFlags, fmtFlags.<flag>, wid, prec; per root object):
//
//	Entry(p)     the value p had when the function was entered
//	NotEntry(p)  its negation (the toggle idiom x = !x ... x = !x)
//	Unknown
//
// A load yields the current abstract value of its path, `!` flips it, a phi of
// equal values keeps it; a store sets the path (a whole-struct store covers the
// fields); clearflags and the other flag writers called on the same object
// make the block Unknown. Every other module function is assumed to satisfy
// this rule (it is checked to), so calls change nothing. At every normal
// return every path must be Entry. Exempt: clearflags, (*fmt).init and the
// directive parser doPrintf (they are the writers of the frame; their names are
// fmt's, held by Engine C) and helpers only they call; the parser may only be
// entered on a printer fresh from newPrinter.
func ruleC02f(c *Ctx) []*report.Result {
	r := report.NewResult("C02.f", "the formatting flags are a frame: outside the directive parser, the formatter initialiser and clearflags, every function of the printer returns normally with every formatting flag, the width and the precision holding the value it had on entry — a flag changed for a sub-rendering is put back, on every path, from a value saved before the change — and the parser runs only on a printer fresh from the pool; otherwise how the later elements of an operand (declared-safe ones included) are padded depends on the content of the earlier ones", 5)
	var fns []*ssa.Function
	for _, fn := range c.P.ModuleFunctions() {
		if pkgPathOf(fn) == pkgRfmt && fn.Blocks != nil {
			fns = append(fns, fn)
		}
	}
	sort.Slice(fns, func(i, j int) bool { return fns[i].String() < fns[j].String() })

	// flagPath resolves an address to (root, sub-path) when it lies in the
	// formatter's flag state.
	var rootOfRecv func(v ssa.Value) ssa.Value
	flagPath := func(addr ssa.Value) (root ssa.Value, sub string, ok bool) {
		var names []string
		v := addr
		inFmt := false
		for {
			fa, isFA := v.(*ssa.FieldAddr)
			if !isFA {
				break
			}
			pt, isP := fa.X.Type().Underlying().(*types.Pointer)
			if !isP {
				break
			}
			st, isS := pt.Elem().Underlying().(*types.Struct)
			if !isS {
				break
			}
			owner := namedOf(pt.Elem())
			fname := st.Field(fa.Field).Name()
			if owner == pkgRfmt+".fmt" {
				if fname != "fmtFlags" && fname != "wid" && fname != "prec" {
					return nil, "", false
				}
				names = append([]string{fname}, names...)
				inFmt = true
				v = fa.X
				// continue to the object holding the formatter
				for {
					fa2, isFA2 := v.(*ssa.FieldAddr)
					if !isFA2 {
						break
					}
					v = fa2.X
				}
				break
			}
			if owner == pkgRfmt+".fmtFlags" {
				names = append([]string{fname}, names...)
				v = fa.X
				continue
			}
			return nil, "", false
		}
		if !inFmt {
			return nil, "", false
		}
		return rootOfRecv(v), strings.Join(names, "."), true
	}
	// formatter object behind a receiver argument (a *fmt or a *pp); a
	// parameter spilled to a cell because a closure captures it is read
	// through the cell
	rootOfRecv = func(v ssa.Value) ssa.Value {
		for {
			switch x := v.(type) {
			case *ssa.FieldAddr:
				v = x.X
				continue
			case *ssa.UnOp:
				if al, ok := x.X.(*ssa.Alloc); ok && x.Op == token.MUL && al.Referrers() != nil {
					var only *ssa.Store
					n := 0
					for _, rf := range *al.Referrers() {
						if st, ok := rf.(*ssa.Store); ok && st.Addr == ssa.Value(al) {
							only = st
							n++
						}
					}
					if n == 1 {
						v = only.Val
						continue
					}
				}
			}
			return v
		}
	}

	// the writers of the frame
	exempt := map[*ssa.Function]bool{}
	for _, fn := range fns {
		switch fn.String() {
		case "(*" + pkgRfmt + ".fmt).clearflags", "(*" + pkgRfmt + ".fmt).init", "(*" + pkgRfmt + ".pp).doPrintf":
			exempt[fn] = true
		}
	}
	if len(exempt) != 3 {
		r.Undecide(fmt.Sprintf("expected clearflags, (*fmt).init and (*pp).doPrintf as the writers of the flag frame, found %d of them", len(exempt)))
		return []*report.Result{r}
	}
	// helpers only exempt functions call (hand-extracted pieces of the parser)
	callersOf := map[*ssa.Function][]*ssa.Function{}
	for _, fn := range fns {
		for _, b := range fn.Blocks {
			for _, ins := range b.Instrs {
				if ci, ok := ins.(ssa.CallInstruction); ok {
					if f := ci.Common().StaticCallee(); f != nil {
						callersOf[f] = append(callersOf[f], fn)
					}
				}
				// a function value taken is a caller we cannot see
				for _, op := range ins.Operands(nil) {
					if f, ok := (*op).(*ssa.Function); ok {
						if ci, isCall := ins.(ssa.CallInstruction); !isCall || ci.Common().Value != *op {
							callersOf[f] = append(callersOf[f], nil)
						}
					}
				}
			}
		}
	}
	for changed := true; changed; {
		changed = false
		for _, fn := range fns {
			if exempt[fn] || fn.Object() != nil && fn.Object().Exported() || len(callersOf[fn]) == 0 {
				continue
			}
			all := true
			for _, cl := range callersOf[fn] {
				if cl == nil || !exempt[cl] {
					all = false
				}
			}
			if all && fn.Name() != "init" {
				exempt[fn] = true
				changed = true
			}
		}
	}
	var exNames []string
	for fn := range exempt {
		exNames = append(exNames, shortFn(fn.String()))
	}
	sort.Strings(exNames)
	r.Note("writers of the flag frame (exempt): " + strings.Join(exNames, ", "))

	type aval struct {
		kind int // 0 entry, 1 not-entry, 2 unknown
		path string
	}
	unknown := aval{kind: 2}
	type state map[string]aval // key root|sub -> value; absent = Entry
	keyOf := func(root ssa.Value, sub string) string { return root.Name() + "|" + sub }
	// an object made in the function itself (a nested printer from the pool, a
	// local) is not part of the caller's frame
	// fresh: the value is a printer taken from the pool in this activation and
	// not yet used by anyone else — the result of newPrinter, of a module
	// function that returns only such values, a parameter that every caller
	// binds to such a value, or the parameter of a function literal that is
	// only ever called (by the function it is handed to) with such a value.
	allFns := c.P.ModuleFunctions()
	var fresh func(v ssa.Value, depth int) bool
	fresh = func(v ssa.Value, depth int) bool {
		if depth > 5 {
			return false
		}
		switch x := v.(type) {
		case *ssa.Call:
			g := x.Common().StaticCallee()
			if g == nil {
				return false
			}
			if g.Name() == "newPrinter" && pkgPathOf(g) == pkgRfmt {
				return true
			}
			if !c.P.InModule(g) || g.Blocks == nil {
				return false
			}
			n := 0
			for _, b := range g.Blocks {
				if ret, ok := b.Instrs[len(b.Instrs)-1].(*ssa.Return); ok {
					if len(ret.Results) != 1 || !fresh(ret.Results[0], depth+1) {
						return false
					}
					n++
				}
			}
			return n > 0
		case *ssa.Phi:
			for _, e := range x.Edges {
				if !fresh(e, depth+1) {
					return false
				}
			}
			return true
		case *ssa.TypeAssert:
			return fresh(x.X, depth+1)
		case *ssa.ChangeType:
			return fresh(x.X, depth+1)
		case *ssa.Parameter:
			fn := x.Parent()
			k := -1
			for i, p := range fn.Params {
				if p == x {
					k = i
				}
			}
			if k < 0 {
				return false
			}
			sites := 0
			for _, caller := range allFns {
				for _, b := range caller.Blocks {
					for _, ins := range b.Instrs {
						// direct calls of fn
						if ci, ok := ins.(ssa.CallInstruction); ok && ci.Common().StaticCallee() == fn && ci.Common().Value == ssa.Value(fn) || ok && fn.Signature.Recv() != nil && ci.Common().StaticCallee() == fn {
							if _, isCall := ins.(*ssa.Call); !isCall || k >= len(ci.Common().Args) || !fresh(ci.Common().Args[k], depth+1) {
								return false
							}
							sites++
							continue
						}
						// fn as a value: a function literal handed to a module function that only calls it
						for ai, op := range ins.Operands(nil) {
							_ = ai
							var fv ssa.Value
							switch y := (*op).(type) {
							case *ssa.Function:
								if y == fn {
									fv = y
								}
							case *ssa.MakeClosure:
								if y.Fn == ssa.Value(fn) {
									fv = y
								}
							}
							if fv == nil {
								continue
							}
							if _, isMC := ins.(*ssa.MakeClosure); isMC {
								continue // the closure's own construction; its uses are visited as MakeClosure operands
							}
							ci, ok := ins.(*ssa.Call)
							if !ok {
								return false
							}
							g := ci.Common().StaticCallee()
							if g == nil || !c.P.InModule(g) || g.Blocks == nil {
								return false
							}
							pi := -1
							for i, a := range ci.Common().Args {
								if a == fv {
									pi = i
								}
							}
							if pi < 0 || pi >= len(g.Params) || g.Params[pi].Referrers() == nil {
								return false
							}
							for _, rf := range *g.Params[pi].Referrers() {
								switch u := rf.(type) {
								case *ssa.DebugRef:
								case *ssa.Call:
									if u.Common().Value != ssa.Value(g.Params[pi]) || k >= len(u.Common().Args) || !fresh(u.Common().Args[k], depth+1) {
										return false
									}
									sites++
								default:
									return false
								}
							}
						}
					}
				}
			}
			return sites > 0
		}
		return false
	}
	var local func(root ssa.Value) bool
	local = func(root ssa.Value) bool {
		if _, ok := root.(*ssa.Alloc); ok {
			return true
		}
		if call, ok := root.(*ssa.Call); ok {
			if g := call.Common().StaticCallee(); g != nil && !c.P.InModule(g) {
				return true // from the pool
			}
		}
		switch x := root.(type) {
		case *ssa.TypeAssert:
			return local(x.X)
		case *ssa.ChangeType:
			return local(x.X)
		case *ssa.Extract:
			return local(x.Tuple)
		}
		return fresh(root, 0)
	}
	subOf := func(key string) (string, string) {
		i := strings.Index(key, "|")
		return key[:i], key[i+1:]
	}
	related := func(a, b string) (parentOfB, childOfB bool) { // a relative to b (same root assumed)
		if strings.HasPrefix(b, a+".") {
			return true, false
		}
		if strings.HasPrefix(a, b+".") {
			return false, true
		}
		return false, false
	}
	load := func(st state, key string) aval {
		if v, ok := st[key]; ok {
			return v
		}
		rt, sub := subOf(key)
		for k := range st {
			r2, s2 := subOf(k)
			if r2 != rt {
				continue
			}
			if p, ch := related(s2, sub); p || ch {
				return unknown
			}
		}
		return aval{0, key}
	}
	store := func(st state, key string, v aval) {
		rt, sub := subOf(key)
		for k := range st {
			r2, s2 := subOf(k)
			if r2 == rt {
				if _, ch := related(s2, sub); ch {
					delete(st, k)
				}
			}
		}
		if v.kind == 0 && v.path == key {
			delete(st, key)
			return
		}
		st[key] = v
	}
	// writtenBy: the flag paths a writer of the frame assigns through its
	// receiver, itself or through the writers it calls on the same object
	var writtenBy func(g *ssa.Function, depth int) []string
	writtenBy = func(g *ssa.Function, depth int) []string {
		set := map[string]bool{}
		if depth > 4 || len(g.Params) == 0 {
			return []string{"fmtFlags", "wid", "prec"}
		}
		for _, b := range g.Blocks {
			for _, ins := range b.Instrs {
				switch x := ins.(type) {
				case *ssa.Store:
					if root, sub, ok := flagPath(x.Addr); ok && root == ssa.Value(g.Params[0]) {
						set[sub] = true
					}
				case ssa.CallInstruction:
					if h := x.Common().StaticCallee(); h != nil && exempt[h] && len(x.Common().Args) > 0 && rootOfRecv(x.Common().Args[0]) == ssa.Value(g.Params[0]) {
						for _, sub := range writtenBy(h, depth+1) {
							set[sub] = true
						}
					}
				}
			}
		}
		var out []string
		for k := range set {
			out = append(out, k)
		}
		sort.Strings(out)
		return out
	}

	instances := 0
	for _, fn := range fns {
		// parser entered only on a fresh printer
		for _, b := range fn.Blocks {
			for _, ins := range b.Instrs {
				ci, ok := ins.(ssa.CallInstruction)
				if !ok {
					continue
				}
				f := ci.Common().StaticCallee()
				if f == nil || f.String() != "(*"+pkgRfmt+".pp).doPrintf" || exempt[fn] {
					continue
				}
				recv := ci.Common().Args[0]
				isFresh := fresh(rootOfRecv(recv), 0)
				construct := shortFn(fn.String()) + " / doPrintf on a fresh printer"
				if isFresh {
					r.Ok(construct)
				} else {
					r.Fail(construct, c.P.Pos(ins.Pos()), "the directive parser is entered on a printer that does not come straight from newPrinter: it overwrites the flags of a rendering in progress", nil, "")
				}
			}
		}
		if exempt[fn] {
			continue
		}
		touches := false
		for _, b := range fn.Blocks {
			for _, ins := range b.Instrs {
				switch x := ins.(type) {
				case *ssa.Store:
					if _, _, ok := flagPath(x.Addr); ok {
						touches = true
					}
				case ssa.CallInstruction:
					if f := x.Common().StaticCallee(); f != nil && exempt[f] {
						touches = true
					}
				}
			}
		}
		if !touches {
			continue
		}
		instances++
		in := map[*ssa.BasicBlock]state{}
		seen := map[*ssa.BasicBlock]bool{fn.Blocks[0]: true}
		in[fn.Blocks[0]] = state{}
		vals := map[ssa.Value]aval{}
		lastStore := map[string]token.Pos{}
		type exitInfo struct {
			ret *ssa.Return
			st  state
		}
		var exits []exitInfo
		absOf := func(v ssa.Value) aval {
			if a, ok := vals[v]; ok {
				return a
			}
			return unknown
		}
		for iter, changed := 0, true; changed && iter < 50; iter++ {
			changed = false
			exits = exits[:0]
			for _, b := range fn.Blocks {
				if !seen[b] || b == fn.Recover {
					continue
				}
				cur := state{}
				for k, v := range in[b] {
					cur[k] = v
				}
				for _, ins := range b.Instrs {
					switch x := ins.(type) {
					case *ssa.Phi:
						var a *aval
						same := true
						for i, e := range x.Edges {
							if !seen[b.Preds[i]] {
								continue
							}
							ea, ok := vals[e]
							if !ok {
								ea = unknown
							}
							if a == nil {
								t := ea
								a = &t
							} else if *a != ea {
								same = false
							}
						}
						if a != nil && same {
							vals[x] = *a
						} else {
							vals[x] = unknown
						}
					case *ssa.UnOp:
						switch x.Op {
						case token.MUL:
							if root, sub, ok := flagPath(x.X); ok {
								nv := load(cur, keyOf(root, sub))
								if old, had := vals[x]; had && old != nv {
									nv = unknown
								}
								vals[x] = nv
							}
						case token.NOT:
							a := absOf(x.X)
							switch a.kind {
							case 0:
								vals[x] = aval{1, a.path}
							case 1:
								vals[x] = aval{0, a.path}
							default:
								vals[x] = unknown
							}
						}
					case *ssa.ChangeType:
						vals[x] = absOf(x.X)
					case *ssa.Store:
						if root, sub, ok := flagPath(x.Addr); ok && !local(root) {
							k := keyOf(root, sub)
							store(cur, k, absOf(x.Val))
							lastStore[k] = x.Pos()
						}
					case ssa.CallInstruction:
						if _, isDefer := ins.(*ssa.Defer); isDefer {
							break
						}
						f := x.Common().StaticCallee()
						if f == nil || !exempt[f] || len(x.Common().Args) == 0 {
							break
						}
						root := rootOfRecv(x.Common().Args[0])
						if local(root) {
							break
						}
						for _, sub := range writtenBy(f, 0) {
							store(cur, keyOf(root, sub), unknown)
							lastStore[keyOf(root, sub)] = ins.Pos()
						}
					case *ssa.Return:
						snap := state{}
						for k, v := range cur {
							snap[k] = v
						}
						exits = append(exits, exitInfo{x, snap})
					}
				}
				for _, s := range b.Succs {
					if !seen[s] {
						seen[s] = true
						ns := state{}
						for k, v := range cur {
							ns[k] = v
						}
						in[s] = ns
						changed = true
						continue
					}
					// join: differing values become unknown; a key on one side only is Entry vs that value
					js := in[s]
					for k, v := range cur {
						if ov, ok := js[k]; !ok || ov != v {
							if !ok || ov != unknown {
								js[k] = unknown
								changed = true
							}
						}
					}
					for k, ov := range js {
						if _, ok := cur[k]; !ok && ov != unknown {
							js[k] = unknown
							changed = true
						}
					}
				}
			}
		}
		okFn := true
		for _, ex := range exits {
			var ks []string
			for k := range ex.st {
				ks = append(ks, k)
			}
			sort.Strings(ks)
			for _, k := range ks {
				okFn = false
				_, sub := subOf(k)
				what := "an unknown value"
				if ex.st[k].kind == 1 {
					what = "the negation of its value on entry"
				}
				rpos := c.P.Pos(ex.ret.Pos())
				if rpos == "" || rpos == "?" || strings.HasSuffix(rpos, ":0") {
					rpos = c.P.Pos(fn.Pos()) // the implicit return at the end of the body
				}
				r.Fail(shortFn(fn.String())+" / "+sub+" restored on every return", rpos,
					fmt.Sprintf("this return leaves %s holding %s (last written at %s): the flag is changed for a sub-rendering and not put back on this path, so the rest of the operand — later elements, declared-safe ones included — is formatted differently depending on the value that took this path", sub, what, c.P.Pos(lastStore[k])), nil, "")
			}
		}
		if okFn {
			r.Ok(shortFn(fn.String()) + " / flags restored on every return")
		}
	}
	if instances == 0 {
		r.Undecide("no function changes a formatting flag for a sub-rendering: the rule found nothing to check")
	}
	return []*report.Result{r}
}

func init() { register("C17.g", ruleC17g) }

// Rule C17.g — transient printer states are left on every path.
//
// While the printer reports a bad verb it sets `erroring`, while it reports a
// panic it sets `panicking`; the method dispatcher returns at once when
// `erroring` is set ("don't call methods while reporting an error"), which
// also skips the error hook, SafeFormatter and every Formatter/Stringer. The
// states are meant to last for the report only. A path that sets one and
// returns without clearing it leaves the rest of the call — every later
// operand — without method dispatch. The fields are fmt's `erroring` and
// `panicking`, confirmed to be boolean fields of the printer that one
// function both sets and clears. For every function storing true into such a field: on every
// path from that store to a normal return the field is stored false.
func ruleC17g(c *Ctx) []*report.Result {
	r := report.NewResult("C17.g", "transient states of the printer (boolean fields that one function sets and clears: erroring, panicking) are cleared on every path to a normal return of the function that sets them: no report of a bad verb or of a panic leaves the printer in a state in which the dispatcher skips methods, the error hook included, for the rest of the call", 2)
	type key struct {
		owner string
		field int
	}
	boolField := func(addr ssa.Value) (key, ssa.Value, string, bool) {
		fa, ok := addr.(*ssa.FieldAddr)
		if !ok {
			return key{}, nil, "", false
		}
		pt, ok := fa.X.Type().Underlying().(*types.Pointer)
		if !ok || namedOf(pt.Elem()) != tPP {
			return key{}, nil, "", false
		}
		st := pt.Elem().Underlying().(*types.Struct)
		f := st.Field(fa.Field)
		if b, ok := f.Type().Underlying().(*types.Basic); !ok || b.Kind() != types.Bool {
			return key{}, nil, "", false
		}
		return key{tPP, fa.Field}, fa.X, f.Name(), true
	}
	constBoolOf := func(v ssa.Value) (bool, bool) {
		k, ok := v.(*ssa.Const)
		if !ok || k.Value == nil || k.Value.Kind() != constant.Bool {
			return false, false
		}
		return constant.BoolVal(k.Value), true
	}
	type site struct {
		fn    *ssa.Function
		st    *ssa.Store
		root  ssa.Value
		name  string
		value bool
	}
	byField := map[key][]site{}
	for _, fn := range c.P.ModuleFunctions() {
		if pkgPathOf(fn) != pkgRfmt {
			continue
		}
		for _, b := range fn.Blocks {
			for _, ins := range b.Instrs {
				st, ok := ins.(*ssa.Store)
				if !ok {
					continue
				}
				k, root, name, ok := boolField(st.Addr)
				if !ok {
					continue
				}
				if v, isC := constBoolOf(st.Val); isC {
					byField[k] = append(byField[k], site{fn, st, root, name, v})
				}
			}
		}
	}
	n := 0
	for k, sites := range byField {
		// transient: some function stores both true and false
		both := map[*ssa.Function][2]bool{}
		for _, s := range sites {
			x := both[s.fn]
			if s.value {
				x[0] = true
			} else {
				x[1] = true
			}
			both[s.fn] = x
		}
		transient := false
		for _, x := range both {
			if x[0] && x[1] {
				transient = true
			}
		}
		// of these, the states that gate dispatch or re-raising: fmt's names
		// (the imported code keeps them, Engine C holds it to them); a flag like
		// goodArgNum is set and cleared per directive and gates nothing later
		if !transient || (sites[0].name != "erroring" && sites[0].name != "panicking") {
			continue
		}
		for _, s := range sites {
			if !s.value {
				continue
			}
			n++
			construct := shortFn(s.fn.String()) + " / " + s.name + " cleared on every path"
			// forward walk from the store
			okAll := true
			var badRet token.Pos
			seen := map[*ssa.BasicBlock]bool{}
			clears := func(x ssa.Instruction) bool {
				st, ok := x.(*ssa.Store)
				if !ok {
					return false
				}
				k2, root2, _, ok := boolField(st.Addr)
				if !ok || k2 != k || root2 != s.root {
					return false
				}
				v, isC := constBoolOf(st.Val)
				return isC && !v
			}
			var walk func(bb *ssa.BasicBlock, from int)
			walk = func(bb *ssa.BasicBlock, from int) {
				for i := from; i < len(bb.Instrs); i++ {
					if clears(bb.Instrs[i]) {
						return
					}
					if ret, isRet := bb.Instrs[i].(*ssa.Return); isRet {
						okAll = false
						badRet = ret.Pos()
						return
					}
				}
				for _, sb := range bb.Succs {
					if !seen[sb] && sb != s.fn.Recover {
						seen[sb] = true
						walk(sb, 0)
					}
				}
			}
			blk := s.st.Block()
			idx := 0
			for i, x := range blk.Instrs {
				if x == ssa.Instruction(s.st) {
					idx = i
				}
			}
			walk(blk, idx+1)
			if okAll {
				r.Ok(construct)
			} else {
				pos := c.P.Pos(badRet)
				if pos == "" || pos == "?" {
					pos = c.P.Pos(s.st.Pos())
				}
				r.Fail(construct, pos, "a path from the store of true at "+c.P.Pos(s.st.Pos())+" reaches a return without the state being cleared: for the rest of the call the dispatcher skips every method — SafeFormatter, the error hook, Formatter, Stringer — and later operands are printed by reflection", nil, "")
			}
		}
	}
	if n == 0 {
		r.Undecide("no transient boolean state of the printer found (erroring / panicking were expected)")
	}
	return []*report.Result{r}
}
