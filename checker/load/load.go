// Package load loads /repo (type-checked syntax + SSA) for the rule sets.
package load

import (
	"fmt"
	"go/token"
	"go/types"
	"os"
	"sort"
	"strings"

	"golang.org/x/tools/go/packages"
	"golang.org/x/tools/go/ssa"
	"golang.org/x/tools/go/ssa/ssautil"
)

const ModPath = "github.com/cockroachdb/redact"

// Program is the loaded repository.
type Program struct {
	Dir   string
	Fset  *token.FileSet
	Pkgs  map[string]*packages.Package // by import path (module packages only)
	All   []*packages.Package
	Prog  *ssa.Program
	SSA   map[string]*ssa.Package
	GOARCH string
}

// Load loads dir (default /repo). It fails on any type error and when the
// number of module packages differs from want (0 = do not check).
func Load(dir string, goarch string, want int) (*Program, error) {
	if dir == "" {
		dir = "/repo"
	}
	env := append(os.Environ(), "GOFLAGS=-mod=mod", "GOWORK=off", "GOPROXY=off", "GOSUMDB=off", "GOTOOLCHAIN=local")
	if goarch != "" {
		env = append(env, "GOARCH="+goarch)
	}
	cfg := &packages.Config{Mode: packages.LoadAllSyntax, Dir: dir, Env: env, Tests: false}
	pkgs, err := packages.Load(cfg, "./...")
	if err != nil {
		return nil, err
	}
	p := &Program{Dir: dir, Pkgs: map[string]*packages.Package{}, SSA: map[string]*ssa.Package{}, GOARCH: goarch}
	var errs []string
	packages.Visit(pkgs, nil, func(pk *packages.Package) {
		for _, e := range pk.Errors {
			errs = append(errs, e.Error())
		}
	})
	if len(errs) > 0 {
		return nil, fmt.Errorf("load errors: %s", strings.Join(errs, "; "))
	}
	for _, pk := range pkgs {
		if strings.HasPrefix(pk.PkgPath, ModPath) {
			p.Pkgs[pk.PkgPath] = pk
			p.Fset = pk.Fset
		}
	}
	if want > 0 && len(p.Pkgs) != want {
		return nil, fmt.Errorf("loaded %d module packages, want %d", len(p.Pkgs), want)
	}
	if len(p.Pkgs) == 0 {
		return nil, fmt.Errorf("no module packages loaded from %s", dir)
	}
	p.All = pkgs
	prog, spkgs := ssautil.AllPackages(pkgs, ssa.InstantiateGenerics)
	prog.Build()
	p.Prog = prog
	for i, sp := range spkgs {
		if sp != nil {
			p.SSA[pkgs[i].PkgPath] = sp
		}
	}
	// dependencies too
	for _, sp := range prog.AllPackages() {
		if _, ok := p.SSA[sp.Pkg.Path()]; !ok {
			p.SSA[sp.Pkg.Path()] = sp
		}
	}
	return p, nil
}

// Pkg returns the module package with the given path relative to the module
// root ("" = root).
func (p *Program) Pkg(rel string) *packages.Package {
	if rel == "" {
		return p.Pkgs[ModPath]
	}
	return p.Pkgs[ModPath+"/"+rel]
}

func (p *Program) SSAPkg(rel string) *ssa.Package {
	if rel == "" {
		return p.SSA[ModPath]
	}
	return p.SSA[ModPath+"/"+rel]
}

// InModule reports whether fn belongs to the module.
func (p *Program) InModule(fn *ssa.Function) bool {
	for fn.Parent() != nil {
		fn = fn.Parent()
	}
	if fn.Pkg != nil {
		return strings.HasPrefix(fn.Pkg.Pkg.Path(), ModPath)
	}
	// synthetic wrappers have no package: use the receiver / object.
	if o := fn.Object(); o != nil && o.Pkg() != nil {
		return strings.HasPrefix(o.Pkg().Path(), ModPath)
	}
	if fn.Signature.Recv() != nil {
		t := fn.Signature.Recv().Type()
		if pt, ok := t.(*types.Pointer); ok {
			t = pt.Elem()
		}
		if n, ok := types.Unalias(t).(*types.Named); ok && n.Obj().Pkg() != nil {
			return strings.HasPrefix(n.Obj().Pkg().Path(), ModPath)
		}
	}
	return false
}

// Func finds a package-level function or method by name, e.g.
// Func("internal/rfmt", "(*pp).printArg") or Func("internal/rfmt", "Sprintf").
func (p *Program) Func(rel, name string) *ssa.Function {
	sp := p.SSAPkg(rel)
	if sp == nil {
		return nil
	}
	if !strings.HasPrefix(name, "(") {
		return sp.Func(name)
	}
	// method: "(*T).m" or "(T).m"
	close := strings.Index(name, ")")
	recv := name[1:close]
	m := name[close+2:]
	ptr := strings.HasPrefix(recv, "*")
	recv = strings.TrimPrefix(recv, "*")
	tn := sp.Type(recv)
	if tn == nil {
		return nil
	}
	var t types.Type = tn.Type()
	if ptr {
		t = types.NewPointer(t)
	}
	sel := p.Prog.MethodSets.MethodSet(t).Lookup(sp.Pkg, m)
	if sel == nil {
		return nil
	}
	return p.Prog.MethodValue(sel)
}

// ModuleFunctions lists all source functions of the module (methods,
// closures included), sorted by name.
func (p *Program) ModuleFunctions() []*ssa.Function {
	var out []*ssa.Function
	for fn := range ssautil.AllFunctions(p.Prog) {
		if fn.Synthetic != "" && fn.Syntax() == nil {
			continue
		}
		if p.InModule(fn) && fn.Blocks != nil {
			out = append(out, fn)
		}
	}
	sort.Slice(out, func(i, j int) bool {
		if out[i].String() != out[j].String() {
			return out[i].String() < out[j].String()
		}
		return out[i].Pos() < out[j].Pos()
	})
	return out
}

// Pos renders a position relative to the repository.
func (p *Program) Pos(pos token.Pos) string {
	if !pos.IsValid() {
		return "?"
	}
	ps := p.Fset.Position(pos)
	f := ps.Filename
	if strings.HasPrefix(f, p.Dir+"/") {
		f = f[len(p.Dir)+1:]
	}
	return fmt.Sprintf("%s:%d", f, ps.Line)
}
