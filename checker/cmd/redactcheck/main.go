// Command redactcheck decides the properties of /verif/properties.jsonl for
// the current source of /repo by static analysis (see /verif/DESIGN.md).
package main

import (
	"encoding/json"
	"flag"
	"fmt"
	"os"
	"path/filepath"
	rdebug "runtime/debug"
	"runtime/pprof"
	"sort"
	"strconv"
	"strings"
	"time"

	"redactverif/load"
	"redactverif/report"
	"redactverif/rules"
)

func main() {
	prop := flag.String("p", "", "property id (C01..C17)")
	tier := flag.String("tier", "quick", "quick|thorough")
	repo := flag.String("repo", "/repo", "repository to analyse")
	verif := flag.String("verif", "/verif", "verification directory (evidence, known findings)")
	debug := flag.String("debug", "", "debug dump: abuf|afmt|labels")
	only := flag.String("rule", "", "run a single rule id")
	oracle := flag.String("oracle", "/verif/checker/oracle", "directory of the reference fmt sources")
	replay := flag.String("replay", "", "re-evaluate the obligation recorded in a replay file on the current tree")
	survey := flag.Bool("survey", false, "developer command: run every registered rule once and print one status line per rule (no evidence written)")
	genEvo := flag.Bool("gen-evolution", false, "developer command: regenerate oracle/*/evolution.json from the current tree")
	flag.Parse()
	if t := os.Getenv("VERIF_TIER"); t != "" && *tier == "quick" {
		*tier = t
	}
	seed := 0
	if s := os.Getenv("VERIF_SEED"); s != "" {
		seed, _ = strconv.Atoi(s)
	}
	if pf := os.Getenv("REDACTCHECK_PROF"); pf != "" {
		if f, err := os.Create(pf); err == nil {
			pprof.StartCPUProfile(f)
			defer pprof.StopCPUProfile()
		}
	}
	rdebug.SetGCPercent(800)        // the analysis allocates many short-lived states; memory is not the constraint
	rdebug.SetMemoryLimit(20 << 30) // ... up to a point: past 20 GiB collect eagerly instead of growing
	start := time.Now()
	defer func() {
		if r := recover(); r != nil {
			fmt.Printf("UNDECIDED property=%s checker panic: %v\n", *prop, r)
			panic(r)
		}
	}()
	p, err := load.Load(*repo, "", 10)
	if err != nil {
		// nothing was analysed: not a pass
		os.MkdirAll(filepath.Join(*verif, "evidence", "violations"), 0o755)
		path := filepath.Join(*verif, "evidence", "violations", *prop+"-1.json")
		b, _ := json.MarshalIndent(map[string]interface{}{"property": *prop, "undecided": fmt.Sprintf("cannot load %s: %v", *repo, err)}, "", " ")
		os.WriteFile(path, b, 0o644)
		fmt.Printf("VIOLATION property=%s replay=%s\n", *prop, path)
		fmt.Printf("UNDECIDED property=%s cannot load %s: %v\n", *prop, *repo, err)
		os.Exit(1)
	}
	ctx := &rules.Ctx{P: p, Tier: *tier, Oracle: *oracle}
	rules.InitRoles(ctx)
	if *genEvo {
		if err := rules.GenEvolution(ctx); err != nil {
			fmt.Println(err)
			os.Exit(2)
		}
		return
	}
	if *debug != "" {
		rules.Debug(ctx, *debug)
		return
	}
	if *replay != "" {
		os.Exit(doReplay(ctx, *replay))
	}
	if *survey {
		doSurvey(ctx)
		return
	}
	ids, ok := rules.Properties[*prop]
	if !ok {
		fmt.Printf("unknown property %q\n", *prop)
		os.Exit(2)
	}
	if *only != "" {
		ids = []string{*only}
	}
	var results []*report.Result
	for _, id := range ids {
		f := rules.Registry[id]
		if f == nil {
			fmt.Printf("UNDECIDED property=%s rule %s not implemented\n", *prop, id)
			os.Exit(2)
		}
		results = append(results, f(ctx)...)
	}
	sort.SliceStable(results, func(i, j int) bool { return results[i].Rule < results[j].Rule })
	known, err := report.LoadKnown(*verif + "/known_findings.json")
	if err != nil {
		fmt.Printf("UNDECIDED property=%s cannot read known findings: %v\n", *prop, err)
		os.Exit(2)
	}
	v := report.Decide(*prop, *tier, results, known)
	extra := ctx.Extra()
	if *tier == "thorough" && *only == "" && os.Getenv("REDACTCHECK_NO_SELFTEST") == "" {
		// second load for GOARCH=386 (covers build-tagged and size-dependent code)
		if p386, err := load.Load(*repo, "386", 10); err != nil {
			fmt.Printf("UNDECIDED property=%s cannot load with GOARCH=386: %v\n", *prop, err)
			os.Exit(2)
		} else {
			ctx386 := &rules.Ctx{P: p386, Tier: "quick", Oracle: *oracle}
			var r386 []*report.Result
			for _, id := range ids {
				for _, r := range rules.Registry[id](ctx386) {
					r.Rule += "@386"
					r386 = append(r386, r)
				}
			}
			v386 := report.Decide(*prop, *tier, r386, known)
			v.Results = append(v.Results, r386...)
			v.Violations = append(v.Violations, v386.Violations...)
			v.Undecided = append(v.Undecided, v386.Undecided...)
			v.Vacuous = append(v.Vacuous, v386.Vacuous...)
			extra["goarch_386_functions"] = len(p386.ModuleFunctions())
		}
		self, _ := os.Executable()
		st, weak := summariseSelfTest(runSelfTest(self, *repo, *verif, *oracle, *prop))
		extra["selftest"] = st
		for _, w := range weak {
			fmt.Printf("SELFTEST-WEAK property=%s %s\n", *prop, w)
		}
		fmt.Printf("  self-test: %v mutants, %v killed, %v survived, %v skipped\n", st["mutants"], st["killed"], st["survived"], st["skipped"])
		// behaviour-preserving edits: the property's rules must stay silent
		bres := runBenignAll(self, *repo, *verif, *oracle, *prop)
		bc := map[string]int{}
		for _, b := range bres {
			bc[b.Status]++
			if b.Status == "alarm" {
				fmt.Printf("SELFTEST-FALSE-ALARM property=%s %s: %s\n", *prop, b.ID, b.Detail)
			}
			if b.Status == "known-alarm" {
				fmt.Printf("SELFTEST-KNOWN-LIMITATION property=%s %s: %s\n", *prop, b.ID, b.Detail)
			}
		}
		extra["benign_edits"] = map[string]interface{}{"edits": len(bres), "silent": bc["silent"], "alarm": bc["alarm"], "known_alarm": bc["known-alarm"], "skipped": bc["skipped"], "results": bres}
		fmt.Printf("  benign edits: %d tried, %d silent, %d alarm, %d known limitation, %d skipped\n", len(bres), bc["silent"], bc["alarm"], bc["known-alarm"], bc["skipped"])
	}
	code := v.Emit(*verif+"/evidence", time.Since(start).Seconds(), seed, extra)
	os.Exit(code)
}

// doSurvey runs every registered rule once on the loaded tree and prints one
// line per rule; the mutation campaign (tools/campaign.py) uses it to learn
// which rules a variant trips without paying one process per property.
func doSurvey(ctx *rules.Ctx) {
	var ids []string
	for id := range rules.Registry {
		ids = append(ids, id)
	}
	sort.Strings(ids)
	for _, id := range ids {
		func() {
			defer func() {
				if r := recover(); r != nil {
					fmt.Printf("SURVEY rule=%s status=panic msg=%v\n", id, r)
				}
			}()
			st, msg := "ok", ""
			for _, r := range rules.Registry[id](ctx) {
				switch {
				case len(r.Findings) > 0:
					st = "violation"
					if msg == "" {
						msg = r.Findings[0].Construct + ": " + r.Findings[0].Msg
					}
				case len(r.Undecided) > 0 && st == "ok":
					st, msg = "undecided", r.Undecided[0]
				case r.Obligations < r.Floor && st == "ok":
					st, msg = "vacuous", fmt.Sprintf("%d < floor %d", r.Obligations, r.Floor)
				}
			}
			fmt.Printf("SURVEY rule=%s status=%s msg=%s\n", id, st, msg)
		}()
	}
}

// doReplay re-runs the rule named in a replay file and reports whether the
// recorded construct still violates it.
func doReplay(ctx *rules.Ctx, path string) int {
	b, err := os.ReadFile(path)
	if err != nil {
		fmt.Println("cannot read replay file:", err)
		return 2
	}
	var rec struct {
		Property string         `json:"property"`
		Finding  report.Finding `json:"finding"`
	}
	if err := json.Unmarshal(b, &rec); err != nil {
		fmt.Println("malformed replay file:", err)
		return 2
	}
	rule := rec.Finding.Rule
	if rule == "" {
		fmt.Println("this replay file records an undecided or vacuous verdict, not a single obligation: run the property's check again")
		return 2
	}
	base := strings.TrimSuffix(rule, "@386")
	var f rules.RuleFunc
	for id, fn := range rules.Registry {
		if base == id || strings.HasPrefix(base, id+"/") {
			f = fn
		}
	}
	if f == nil {
		fmt.Printf("rule %s is not known to this checker\n", rule)
		return 2
	}
	for _, r := range f(ctx) {
		for _, fd := range r.Findings {
			if fd.Construct == rec.Finding.Construct && (fd.Rule == base || r.Rule == base) {
				fmt.Printf("VIOLATION property=%s replay=%s\n  rule %s at %s: %s\n  construct: %s\n", rec.Property, path, fd.Rule, fd.Pos, fd.Msg, fd.Construct)
				return 1
			}
		}
	}
	fmt.Printf("OK the obligation (%s, %s) holds on the current tree\n", rule, rec.Finding.Construct)
	return 0
}
