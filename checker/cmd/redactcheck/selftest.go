package main

import (
	"context"
	"encoding/json"
	"fmt"
	"os"
	"os/exec"
	"path/filepath"
	"sort"
	"strings"
	"sync"
	"time"
)

// Self-test (thorough tier): a frozen catalogue of seeded mutants is applied,
// one at a time, to a scratch copy of the CURRENT /repo (under os.TempDir,
// removed afterwards); the rule named by the mutant is re-run in a separate
// process and must report a violation whose text contains the expected
// fragment. A surviving mutant prints SELFTEST-WEAK; it is not a verdict on
// the property. A mutant whose pattern no longer exists is "skipped".

type edit struct{ File, Old, New string }

type mutant struct {
	ID       string
	Property string
	Rule     string
	Expect   string
	Edits    []edit
	Patch    string // alternative: a patch file (seeded change)
}

type selfResult struct {
	ID     string `json:"id"`
	Rule   string `json:"rule"`
	Status string `json:"status"` // killed | survived | skipped | nobuild
	Detail string `json:"detail,omitempty"`
}

func loadMutants(verif, prop string) []mutant {
	var all []mutant
	b, err := os.ReadFile(filepath.Join(verif, "checker/selftest/mutants.json"))
	if err == nil {
		var raw []struct {
			ID, Property, Rule, Expect string
			Edits                      []edit
		}
		if json.Unmarshal(b, &raw) == nil {
			for _, r := range raw {
				all = append(all, mutant{ID: r.ID, Property: r.Property, Rule: r.Rule, Expect: r.Expect, Edits: r.Edits})
			}
		}
	}
	// seeded changes kept from independent sub-agents
	metas, _ := filepath.Glob(filepath.Join(verif, "seeded/*/meta.json"))
	sort.Strings(metas)
	for _, mf := range metas {
		b, err := os.ReadFile(mf)
		if err != nil {
			continue
		}
		var meta struct {
			BreaksProperty string   `json:"breaks_property"`
			CaughtBy       []string `json:"caught_by"`
		}
		if json.Unmarshal(b, &meta) != nil || len(meta.CaughtBy) == 0 {
			continue
		}
		dir := filepath.Dir(mf)
		all = append(all, mutant{ID: "seeded/" + filepath.Base(dir), Property: meta.BreaksProperty, Rule: "", Expect: "", Patch: filepath.Join(dir, "patch.diff")})
	}
	var out []mutant
	for _, m := range all {
		if m.Property == prop {
			out = append(out, m)
		}
	}
	return out
}

// benign edits: behaviour-preserving refactors (benign/index.json) on which
// the property's rules must stay silent.
type benignEdit struct {
	ID         string   `json:"id"`
	Properties []string `json:"properties"`
	KnownAlarm *struct {
		Rule string `json:"rule"`
		Why  string `json:"why"`
	} `json:"known_alarm"`
}

func loadBenign(verif, prop string) []benignEdit {
	b, err := os.ReadFile(filepath.Join(verif, "benign/index.json"))
	if err != nil {
		return nil
	}
	var all, out []benignEdit
	if json.Unmarshal(b, &all) != nil {
		return nil
	}
	for _, e := range all {
		for _, p := range e.Properties {
			if p == prop {
				out = append(out, e)
			}
		}
	}
	return out
}

// runBenign applies one benign edit to a scratch copy and runs the
// property's quick check on it: status silent | alarm | known-alarm | skipped.
func runBenign(self, repo, verif, oracle, prop string, e benignEdit) selfResult {
	r := selfResult{ID: "benign/" + e.ID}
	dir, err := os.MkdirTemp("", "redactcheck-benign-")
	if err != nil {
		r.Status, r.Detail = "skipped", err.Error()
		return r
	}
	defer os.RemoveAll(dir)
	tree := filepath.Join(dir, "repo")
	vdir := filepath.Join(dir, "verif")
	os.MkdirAll(filepath.Join(vdir, "evidence"), 0o755)
	if kb, err := os.ReadFile(filepath.Join(verif, "known_findings.json")); err == nil {
		os.WriteFile(filepath.Join(vdir, "known_findings.json"), kb, 0o644)
	}
	if err := copyTree(repo, tree); err != nil {
		r.Status, r.Detail = "skipped", err.Error()
		return r
	}
	patch := filepath.Join(verif, "benign", e.ID+".diff")
	c2 := exec.Command("patch", "-s", "-p1", "-d", tree, "-i", patch)
	if out, err := c2.CombinedOutput(); err != nil {
		r.Status, r.Detail = "skipped", "benign edit no longer applies: "+firstLine(string(out))
		return r
	}
	env := append(os.Environ(), "GOFLAGS=-mod=mod", "GOPROXY=off", "GOSUMDB=off", "GOTOOLCHAIN=local", "GOWORK=off")
	build := exec.Command("go", "build", "./...")
	build.Dir = tree
	build.Env = env
	if out, err := build.CombinedOutput(); err != nil {
		r.Status, r.Detail = "skipped", "does not build: "+firstLine(string(out))
		return r
	}
	ctx, cancel := context.WithTimeout(context.Background(), 15*time.Minute)
	defer cancel()
	cmd := exec.CommandContext(ctx, self, "-p", prop, "-tier", "quick", "-repo", tree, "-verif", vdir, "-oracle", oracle)
	cmd.Env = env
	out, err := cmd.CombinedOutput()
	txt := string(out)
	if err == nil && !strings.Contains(txt, "VIOLATION") {
		r.Status = "silent"
		return r
	}
	r.Status = "alarm"
	for _, l := range strings.Split(txt, "\n") {
		if strings.Contains(l, "rule ") || strings.HasPrefix(l, "UNDECIDED") || strings.HasPrefix(l, "VACUOUS") {
			r.Detail = firstLine(l)
			break
		}
	}
	if e.KnownAlarm != nil {
		for _, rule := range strings.Split(e.KnownAlarm.Rule, ",") {
			if strings.Contains(txt, "rule "+strings.TrimSpace(rule)+" ") || strings.Contains(txt, " "+strings.TrimSpace(rule)+": ") {
				r.Status = "known-alarm"
				r.Detail = e.KnownAlarm.Rule + ": " + e.KnownAlarm.Why
			}
		}
	}
	return r
}

func runBenignAll(self, repo, verif, oracle, prop string) []selfResult {
	es := loadBenign(verif, prop)
	res := make([]selfResult, len(es))
	sem := make(chan struct{}, 6)
	var wg sync.WaitGroup
	for i, e := range es {
		wg.Add(1)
		go func(i int, e benignEdit) {
			defer wg.Done()
			sem <- struct{}{}
			defer func() { <-sem }()
			res[i] = runBenign(self, repo, verif, oracle, prop, e)
		}(i, e)
	}
	wg.Wait()
	return res
}

func copyTree(src, dst string) error {
	return filepath.Walk(src, func(p string, info os.FileInfo, err error) error {
		if err != nil {
			return err
		}
		rel, _ := filepath.Rel(src, p)
		if rel == ".git" || strings.HasPrefix(rel, ".git"+string(os.PathSeparator)) {
			if info.IsDir() {
				return filepath.SkipDir
			}
			return nil
		}
		if info.IsDir() {
			return os.MkdirAll(filepath.Join(dst, rel), 0o755)
		}
		b, err := os.ReadFile(p)
		if err != nil {
			return err
		}
		return os.WriteFile(filepath.Join(dst, rel), b, 0o644)
	})
}

func runSelfTest(self, repo, verif, oracle, prop string) []selfResult {
	muts := loadMutants(verif, prop)
	res := make([]selfResult, len(muts))
	sem := make(chan struct{}, 6)
	var wg sync.WaitGroup
	for i, m := range muts {
		wg.Add(1)
		go func(i int, m mutant) {
			defer wg.Done()
			sem <- struct{}{}
			defer func() { <-sem }()
			res[i] = runMutant(self, repo, verif, oracle, prop, m)
		}(i, m)
	}
	wg.Wait()
	return res
}

func runMutant(self, repo, verif, oracle, prop string, m mutant) selfResult {
	r := selfResult{ID: m.ID, Rule: m.Rule}
	dir, err := os.MkdirTemp("", "redactcheck-selftest-")
	if err != nil {
		r.Status, r.Detail = "skipped", err.Error()
		return r
	}
	defer os.RemoveAll(dir)
	tree := filepath.Join(dir, "repo")
	vdir := filepath.Join(dir, "verif")
	os.MkdirAll(filepath.Join(vdir, "evidence"), 0o755)
	if kb, err := os.ReadFile(filepath.Join(verif, "known_findings.json")); err == nil {
		os.WriteFile(filepath.Join(vdir, "known_findings.json"), kb, 0o644)
	}
	if err := copyTree(repo, tree); err != nil {
		r.Status, r.Detail = "skipped", err.Error()
		return r
	}
	env := append(os.Environ(), "GOFLAGS=-mod=mod", "GOPROXY=off", "GOSUMDB=off", "GOTOOLCHAIN=local", "GOWORK=off")
	if m.Patch != "" {
		cmd := exec.Command("git", "apply", "--unsafe-paths", "--directory="+tree, m.Patch)
		cmd.Dir = dir
		if out, err := cmd.CombinedOutput(); err != nil {
			// fall back to patch(1)
			c2 := exec.Command("patch", "-s", "-p1", "-d", tree, "-i", m.Patch)
			if out2, err2 := c2.CombinedOutput(); err2 != nil {
				r.Status, r.Detail = "skipped", "seeded patch no longer applies: "+strings.TrimSpace(string(out))+" "+strings.TrimSpace(string(out2))
				return r
			}
		}
	}
	for _, e := range m.Edits {
		p := filepath.Join(tree, e.File)
		b, err := os.ReadFile(p)
		if err != nil || !strings.Contains(string(b), e.Old) {
			r.Status, r.Detail = "skipped", "pattern no longer present in "+e.File
			return r
		}
		os.WriteFile(p, []byte(strings.Replace(string(b), e.Old, e.New, 1)), 0o644)
	}
	build := exec.Command("go", "build", "./...")
	build.Dir = tree
	build.Env = env
	if out, err := build.CombinedOutput(); err != nil {
		r.Status, r.Detail = "nobuild", firstLine(string(out))
		return r
	}
	args := []string{"-p", prop, "-tier", "quick", "-repo", tree, "-verif", vdir, "-oracle", oracle}
	if m.Rule != "" {
		args = append(args, "-rule", m.Rule)
	}
	ctx, cancel := context.WithTimeout(context.Background(), 15*time.Minute)
	defer cancel()
	cmd := exec.CommandContext(ctx, self, args...)
	cmd.Env = env
	out, _ := cmd.CombinedOutput()
	txt := string(out)
	if strings.Contains(txt, "VIOLATION property="+prop) && (m.Expect == "" || strings.Contains(txt, m.Expect)) {
		r.Status = "killed"
		for _, l := range strings.Split(txt, "\n") {
			if strings.Contains(l, "rule ") && (m.Expect == "" || true) {
				r.Detail = strings.TrimSpace(l)
				if len(r.Detail) > 200 {
					r.Detail = r.Detail[:200]
				}
				break
			}
		}
		return r
	}
	r.Status = "survived"
	r.Detail = firstLine(txt)
	return r
}

func firstLine(s string) string {
	s = strings.TrimSpace(s)
	if i := strings.Index(s, "\n"); i >= 0 {
		s = s[:i]
	}
	if len(s) > 200 {
		s = s[:200]
	}
	return s
}

func summariseSelfTest(rs []selfResult) (map[string]interface{}, []string) {
	count := map[string]int{}
	var weak []string
	for _, r := range rs {
		count[r.Status]++
		if r.Status == "survived" || r.Status == "nobuild" {
			weak = append(weak, fmt.Sprintf("%s (%s): %s %s", r.ID, r.Rule, r.Status, r.Detail))
		}
	}
	return map[string]interface{}{
		"mutants": len(rs), "killed": count["killed"], "survived": count["survived"], "skipped": count["skipped"], "nobuild": count["nobuild"], "results": rs,
	}, weak
}
