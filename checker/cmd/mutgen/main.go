// mutgen enumerates first-order syntactic mutants of the library's non-test
// sources as (file, offset, end, replacement) records. It is a developer tool
// for the mutation campaign (tools/campaign.py); no registered check uses it.
package main

import (
	"encoding/json"
	"flag"
	"fmt"
	"go/ast"
	"go/parser"
	"go/token"
	"os"
	"path/filepath"
	"strconv"
	"strings"
)

type Mutant struct {
	ID   int    `json:"id"`
	File string `json:"file"`
	Line int    `json:"line"`
	Func string `json:"func"`
	Op   string `json:"op"`
	Off  int    `json:"off"`
	End  int    `json:"end"`
	New  string `json:"new"`
	Old  string `json:"old"`
}

var swaps = map[token.Token][]string{
	token.EQL: {"!="}, token.NEQ: {"=="},
	token.LSS: {"<=", ">"}, token.LEQ: {"<"}, token.GTR: {">=", "<"}, token.GEQ: {">"},
	token.LAND: {"||"}, token.LOR: {"&&"},
	token.ADD: {"-"}, token.SUB: {"+"},
	token.AND: {"|"}, token.OR: {"&"}, token.AND_NOT: {"&"},
}

// identifiers of the same kind that a slip of the hand exchanges
var siblingIdents = [][]string{
	{"startSafeOverride", "startUnsafeOverride", "startUnsafe", "startPreRedactable"},
	{"SafeEscaped", "UnsafeEscaped", "SafeRaw", "PreRedactable"},
	{"StartS", "EndS"}, {"StartBytes", "EndBytes"}, {"StartLen", "EndLen"},
	{"overrideSafe", "overrideUnsafe", "noOverride"},
	{"safeWrapperType", "unsafeWrapperType"},
	{"redactableStringType", "redactableBytesType"},
	{"prevMode", "prevOverride"},
	{"doPrint", "doPrintln"},
	{"TakeRedactableString", "RedactableString"}, {"TakeRedactableBytes", "RedactableBytes"},
	{"SafeString", "UnsafeString"}, {"SafeRune", "UnsafeRune"}, {"SafeBytes", "UnsafeBytes"},
	{"ReStripSensitive", "ReStripMarkers"},
	{"RedactedS", "EscapeMarkS"},
}

func main() {
	repo := flag.String("repo", "/repo", "repository")
	flag.Parse()
	var out []Mutant
	filepath.Walk(*repo, func(path string, info os.FileInfo, err error) error {
		if err != nil {
			return nil
		}
		if info.IsDir() {
			if info.Name() == ".git" || info.Name() == "testdata" {
				return filepath.SkipDir
			}
			return nil
		}
		if !strings.HasSuffix(path, ".go") || strings.HasSuffix(path, "_test.go") {
			return nil
		}
		rel, _ := filepath.Rel(*repo, path)
		src, _ := os.ReadFile(path)
		fset := token.NewFileSet()
		f, err := parser.ParseFile(fset, path, src, 0)
		if err != nil {
			return nil
		}
		off := func(p token.Pos) int { return fset.Position(p).Offset }
		add := func(fn string, n ast.Node, op string, s, e token.Pos, repl string) {
			out = append(out, Mutant{File: rel, Line: fset.Position(n.Pos()).Line, Func: fn, Op: op,
				Off: off(s), End: off(e), New: repl, Old: string(src[off(s):off(e)])})
		}
		for _, d := range f.Decls {
			fd, ok := d.(*ast.FuncDecl)
			if !ok || fd.Body == nil {
				continue
			}
			name := fd.Name.Name
			if fd.Recv != nil && len(fd.Recv.List) > 0 {
				t := fd.Recv.List[0].Type
				if st, ok := t.(*ast.StarExpr); ok {
					t = st.X
				}
				if id, ok := t.(*ast.Ident); ok {
					name = id.Name + "." + name
				}
			}
			ast.Inspect(fd.Body, func(n ast.Node) bool {
				switch x := n.(type) {
				case *ast.BinaryExpr:
					for _, r := range swaps[x.Op] {
						add(name, x, "binop "+x.Op.String()+"->"+r, x.OpPos, x.OpPos+token.Pos(len(x.Op.String())), r)
					}
				case *ast.IfStmt:
					if be, ok := x.Cond.(*ast.BinaryExpr); !ok || (be.Op != token.EQL && be.Op != token.NEQ) {
						add(name, x, "negate-if", x.Cond.Pos(), x.Cond.End(), "!("+string(src[off(x.Cond.Pos()):off(x.Cond.End())])+")")
					}
					add(name, x, "if-false", x.Cond.Pos(), x.Cond.End(), "false && ("+string(src[off(x.Cond.Pos()):off(x.Cond.End())])+")")
					add(name, x, "if-true", x.Cond.Pos(), x.Cond.End(), "true || ("+string(src[off(x.Cond.Pos()):off(x.Cond.End())])+")")
				case *ast.ExprStmt:
					add(name, x, "del-call", x.Pos(), x.End(), "")
				case *ast.AssignStmt:
					if x.Tok != token.DEFINE {
						add(name, x, "del-assign", x.Pos(), x.End(), "")
					}
				case *ast.IncDecStmt:
					add(name, x, "del-incdec", x.Pos(), x.End(), "")
				case *ast.DeferStmt:
					add(name, x, "del-defer", x.Pos(), x.End(), "")
					add(name, x, "undefer", x.Pos(), x.Call.Pos(), "")
				case *ast.BranchStmt:
					if x.Tok == token.CONTINUE || x.Tok == token.BREAK {
						add(name, x, "del-"+x.Tok.String(), x.Pos(), x.End(), "")
					}
				case *ast.ReturnStmt:
					if len(x.Results) == 0 {
						add(name, x, "del-return", x.Pos(), x.End(), "")
					}
				case *ast.CaseClause:
					if len(x.Body) > 0 {
						add(name, x, "empty-case", x.Body[0].Pos(), x.Body[len(x.Body)-1].End(), "")
					}
				case *ast.BasicLit:
					if x.Kind == token.INT {
						if v, err := strconv.ParseInt(x.Value, 0, 64); err == nil {
							add(name, x, "int+1", x.Pos(), x.End(), strconv.FormatInt(v+1, 10))
							if v != 0 {
								add(name, x, "int-1", x.Pos(), x.End(), strconv.FormatInt(v-1, 10))
							}
						}
					}
				case *ast.BlockStmt:
					// swap two adjacent simple statements
					for i := 0; i+1 < len(x.List); i++ {
						a, b := x.List[i], x.List[i+1]
						simple := func(s ast.Stmt) bool {
							switch s.(type) {
							case *ast.ExprStmt, *ast.AssignStmt, *ast.DeferStmt, *ast.IncDecStmt:
								return true
							}
							return false
						}
						if simple(a) && simple(b) {
							ta := string(src[off(a.Pos()):off(a.End())])
							tb := string(src[off(b.Pos()):off(b.End())])
							add(name, a, "swap-stmts", a.Pos(), b.End(), tb+"\n"+ta)
						}
					}
				case *ast.Ident:
					for _, group := range siblingIdents {
						for _, g := range group {
							if x.Name == g {
								for _, o := range group {
									if o != g {
										add(name, x, "sibling "+g+"->"+o, x.Pos(), x.End(), o)
									}
								}
							}
						}
					}
					if x.Name == "true" {
						add(name, x, "true->false", x.Pos(), x.End(), "false")
					} else if x.Name == "false" {
						add(name, x, "false->true", x.Pos(), x.End(), "true")
					}
				case *ast.UnaryExpr:
					if x.Op == token.NOT {
						add(name, x, "drop-not", x.OpPos, x.OpPos+1, "")
					}
				}
				return true
			})
		}
		return nil
	})
	for i := range out {
		out[i].ID = i
	}
	b, _ := json.Marshal(out)
	os.Stdout.Write(b)
	fmt.Fprintf(os.Stderr, "%d mutants\n", len(out))
}
