// Package engine implements Engine A of DESIGN.md: an abstract interpreter
// over go/ssa whose facts are sets of configurations over a finite tracked
// state (ESP-style property simulation). It never executes the analysed code.
package engine

import (
	"fmt"
	"go/constant"
	"go/types"
	"sort"
	"strings"

	"golang.org/x/tools/go/ssa"
)

// AbsVal is an immutable abstract value of an SSA register or heap field.
type AbsVal interface {
	Key() string
}

// Top is the unknown value.
type Top struct{}

func (Top) Key() string { return "T" }

// Const is a known constant (bool, int, rune, string).
type Const struct{ V constant.Value }

func (c Const) Key() string { return "c" + c.V.ExactString() }

// NilV is the nil pointer / interface / slice / map / func.
type NilV struct{}

func (NilV) Key() string { return "nil" }

// NonNil is some non-nil reference of unknown identity.
type NonNil struct{}

func (NonNil) Key() string { return "nn" }

// Other is a symbolic scalar different from every literal it is compared
// with through == / != (used to root analyses "for a verb other than w").
type Other struct{}

func (Other) Key() string { return "oth" }

// Sym is an opaque symbolic value with identity (equal only to itself).
type Sym struct{ Name string }

func (s Sym) Key() string { return "sym:" + s.Name }

// Ptr is the address of (a sub-object of) an abstract object.
type Ptr struct {
	Obj  string
	Path string // "" = whole object, otherwise dotted field path
}

func (p Ptr) Key() string { return "&" + p.Obj + "/" + p.Path }

func (p Ptr) Sub(field string) Ptr {
	if p.Path == "" {
		return Ptr{p.Obj, field}
	}
	return Ptr{p.Obj, p.Path + "." + field}
}

// SliceOf is a slice value derived from a slice-typed field of an object.
type SliceOf struct {
	Obj  string
	Path string
}

func (s SliceOf) Key() string { return "[]" + s.Obj + "/" + s.Path }

// LenOf is len(S) of a tracked slice.
type LenOf struct{ S SliceOf }

func (l LenOf) Key() string { return "len" + l.S.Key() }

// StructV is a struct value; Fields maps dotted leaf paths to values.
// Missing leaves are Top.
type StructV struct {
	Fields map[string]AbsVal
}

func (s StructV) Key() string {
	ks := make([]string, 0, len(s.Fields))
	for k := range s.Fields {
		ks = append(ks, k)
	}
	sort.Strings(ks)
	var sb strings.Builder
	sb.WriteString("{")
	for _, k := range ks {
		sb.WriteString(k)
		sb.WriteString("=")
		sb.WriteString(s.Fields[k].Key())
		sb.WriteString(";")
	}
	sb.WriteString("}")
	return sb.String()
}

// TupleV is a multi-value result.
type TupleV struct{ Elems []AbsVal }

func (t TupleV) Key() string {
	var sb strings.Builder
	sb.WriteString("(")
	for _, e := range t.Elems {
		sb.WriteString(e.Key())
		sb.WriteString(",")
	}
	sb.WriteString(")")
	return sb.String()
}

// FuncV is a function value (closure) with bound free variables.
type FuncV struct {
	Fn       *ssa.Function
	Bindings []AbsVal
}

func (f FuncV) Key() string {
	var sb strings.Builder
	sb.WriteString("fn:")
	sb.WriteString(f.Fn.String())
	for _, b := range f.Bindings {
		sb.WriteString("|")
		sb.WriteString(b.Key())
	}
	return sb.String()
}

// IfaceV is an interface value whose dynamic type is known.
type IfaceV struct {
	Dyn types.Type
	V   AbsVal
}

func (i IfaceV) Key() string { return "i<" + i.Dyn.String() + ">" + i.V.Key() }

// PoolGet is the result of (*sync.Pool).Get, before the type assertion.
type PoolGet struct{}

func (PoolGet) Key() string { return "poolget" }

func isTop(v AbsVal) bool { _, ok := v.(Top); return ok }

func boolConst(b bool) AbsVal { return Const{constant.MakeBool(b)} }

// asBool returns (value, known).
func asBool(v AbsVal) (bool, bool) {
	if c, ok := v.(Const); ok && c.V.Kind() == constant.Bool {
		return constant.BoolVal(c.V), true
	}
	return false, false
}

// nilness: 0 unknown, 1 nil, 2 non-nil.
func nilness(v AbsVal) int {
	switch v := v.(type) {
	case NilV:
		return 1
	case NonNil, Ptr, FuncV, IfaceV, SliceOf:
		_ = v
		return 2
	}
	return 0
}

// Object is an abstract heap object: a flat map from tracked leaf paths to
// values. Paths not present are untracked (read as Top).
type Object struct {
	Type   types.Type
	Fields map[string]AbsVal
	// TrackAll: every leaf of Type is tracked (locals); otherwise only the
	// leaves admitted by Config.Track.
	TrackAll bool
}

func (o *Object) clone() *Object {
	n := &Object{Type: o.Type, TrackAll: o.TrackAll, Fields: make(map[string]AbsVal, len(o.Fields))}
	for k, v := range o.Fields {
		n.Fields[k] = v
	}
	return n
}

func (o *Object) key() string {
	ks := make([]string, 0, len(o.Fields))
	for k := range o.Fields {
		ks = append(ks, k)
	}
	sort.Strings(ks)
	var sb strings.Builder
	for _, k := range ks {
		sb.WriteString(k)
		sb.WriteString("=")
		sb.WriteString(o.Fields[k].Key())
		sb.WriteString(";")
	}
	return sb.String()
}

// Heap maps object ids to objects.
type Heap map[string]*Object

func (h Heap) clone() Heap {
	n := make(Heap, len(h))
	for k, v := range h {
		n[k] = v.clone()
	}
	return n
}

func (h Heap) key() string {
	ks := make([]string, 0, len(h))
	for k := range h {
		ks = append(ks, k)
	}
	sort.Strings(ks)
	var sb strings.Builder
	for _, k := range ks {
		sb.WriteString(k)
		sb.WriteString(":<")
		sb.WriteString(h[k].key())
		sb.WriteString(">")
	}
	return sb.String()
}

// Get returns the tracked value of obj.path (Top if untracked).
func (h Heap) Get(obj, path string) AbsVal {
	o := h[obj]
	if o == nil {
		return Top{}
	}
	if v, ok := o.Fields[path]; ok {
		return v
	}
	return Top{}
}

// String renders a heap compactly for reports.
func (h Heap) String() string {
	ks := make([]string, 0, len(h))
	for k := range h {
		ks = append(ks, k)
	}
	sort.Strings(ks)
	var sb strings.Builder
	for _, k := range ks {
		fmt.Fprintf(&sb, "%s{%s} ", k, h[k].key())
	}
	return strings.TrimSpace(sb.String())
}

// refs appends the object ids referenced by v.
func refs(v AbsVal, out *[]string) {
	switch v := v.(type) {
	case Ptr:
		*out = append(*out, v.Obj)
	case SliceOf:
		*out = append(*out, v.Obj)
	case LenOf:
		*out = append(*out, v.S.Obj)
	case StructV:
		ks := make([]string, 0, len(v.Fields))
		for k := range v.Fields {
			ks = append(ks, k)
		}
		sort.Strings(ks)
		for _, k := range ks {
			refs(v.Fields[k], out)
		}
	case TupleV:
		for _, e := range v.Elems {
			refs(e, out)
		}
	case FuncV:
		for _, b := range v.Bindings {
			refs(b, out)
		}
	case IfaceV:
		refs(v.V, out)
	}
}

// rename rewrites object ids in v through m (ids absent from m are kept).
func rename(v AbsVal, m map[string]string) AbsVal {
	switch v := v.(type) {
	case Ptr:
		if n, ok := m[v.Obj]; ok {
			return Ptr{n, v.Path}
		}
	case SliceOf:
		if n, ok := m[v.Obj]; ok {
			return SliceOf{n, v.Path}
		}
	case LenOf:
		if n, ok := m[v.S.Obj]; ok {
			return LenOf{SliceOf{n, v.S.Path}}
		}
	case StructV:
		nf := make(map[string]AbsVal, len(v.Fields))
		for k, f := range v.Fields {
			nf[k] = rename(f, m)
		}
		return StructV{nf}
	case TupleV:
		ne := make([]AbsVal, len(v.Elems))
		for i, e := range v.Elems {
			ne[i] = rename(e, m)
		}
		return TupleV{ne}
	case FuncV:
		nb := make([]AbsVal, len(v.Bindings))
		for i, b := range v.Bindings {
			nb[i] = rename(b, m)
		}
		return FuncV{v.Fn, nb}
	case IfaceV:
		return IfaceV{v.Dyn, rename(v.V, m)}
	}
	return v
}
