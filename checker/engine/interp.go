package engine

import (
	"fmt"
	"go/constant"
	"go/token"
	"go/types"
	"os"
	"sort"
	"strings"

	"golang.org/x/tools/go/ssa"
)

// TrackSpec names a tracked leaf: field Field declared in named struct type
// Type (fully qualified, e.g. "github.com/x/buffer.Buffer").
type TrackSpec struct{ Type, Field string }

// Config parameterises one analysis run.
type Config struct {
	// Ambient lists heap objects that are visible in every frame under their
	// own id (model state read and written by the hooks, not by the program).
	Ambient []string
	Prog    *ssa.Program
	// InModule reports whether fn's body is interpreted.
	InModule func(fn *ssa.Function) bool
	// Tracked leaves of heap (non-local) objects.
	Track map[TrackSpec]bool
	// SliceIdent: slice-typed leaves whose loads yield SliceOf values.
	SliceIdent map[TrackSpec]bool
	// Ghosts: per named struct type, ghost leaves and their zero values.
	Ghosts map[string]map[string]AbsVal
	// PoolInvariant gives the leaves assumed for an object of named type t
	// obtained from a sync.Pool (relative dotted paths, ghosts included).
	PoolInvariant func(t string) map[string]AbsVal
	// NoPanicPkgs: explicit panic instructions in these packages are not
	// modelled (documented, out-of-claim panics).
	NoPanicPkgs map[string]bool
	// Wide: thorough tier — every dynamic call may panic.
	Wide  bool
	Hooks Hooks
	// NoMerge disables the merging of register environments at block
	// entries (full path sensitivity on registers; for small functions).
	NoMerge bool
	// MaxStates bounds the exploration of one function entry (safety net).
	MaxStates int
}

// Hooks let a run observe micro-events and maintain ghost state.
type Hooks interface {
	// OnStore is called before a store to a tracked object; a non-nil
	// result replaces the stored value (ghost maintenance).
	OnStore(c *Ctx, instr ssa.Instruction, addr Ptr, val AbsVal) AbsVal
	// OnCall is called before any call whose callee is statically known
	// (callee may be external). Returning handled=true makes the
	// interpreter skip the call and use ret as its result.
	OnCall(c *Ctx, instr ssa.Instruction, callee *ssa.Function, args []AbsVal) (handled bool, ret AbsVal)
	// OnBuiltin is called before copy/append builtins.
	OnBuiltin(c *Ctx, instr ssa.Instruction, name string, args []AbsVal)
	// OnDynamic is called before a call whose target is unknown.
	OnDynamic(c *Ctx, instr ssa.Instruction, args []AbsVal, userCode bool)
	// AfterCall is called once per outcome of a statically known in-module call.
	AfterCall(c *Ctx, instr ssa.Instruction, callee *ssa.Function, args []AbsVal, before Heap, after Heap, exc bool)
	// OnSliceStore is called before an element store into a tracked slice.
	OnSliceStore(c *Ctx, instr ssa.Instruction, so SliceOf, val AbsVal)
	// LenIsZero resolves len(so) == 0 from ghost state.
	LenIsZero(c *Ctx, so SliceOf) (zero bool, known bool)
	// DynamicResult may supply the result of a call whose target is
	// unknown (handled=true: the call has exactly this normal outcome).
	DynamicResult(c *Ctx, instr ssa.Instruction, args []AbsVal) (ret AbsVal, handled bool)
	// OnPanic is called at an explicit panic statement that is modelled.
	OnPanic(c *Ctx, instr ssa.Instruction)
	// OnEscape is called when a tracked slice (or the address of its
	// field) is converted, or returned from fn.
	OnEscape(c *Ctx, instr ssa.Instruction, v AbsVal, how string)
}

// ValueHook is an optional extension of Hooks: a rule set that models a value
// domain of its own (e.g. strings under construction) may supply the abstract
// value of a conversion, make, binary operation or append.
type ValueHook interface {
	EvalValue(c *Ctx, v ssa.Value, ops []AbsVal) (AbsVal, bool)
}

// Eval is the abstract value of v in the current frame.
func (c *Ctx) Eval(v ssa.Value) AbsVal { return c.It.eval(c.Frame, v) }

func (it *Interp) valueHook(fn *ssa.Function, st *State, v ssa.Value, ops ...AbsVal) (AbsVal, bool) {
	if vh, ok := it.Cfg.Hooks.(ValueHook); ok {
		return vh.EvalValue(it.ctx(fn, st), v, ops)
	}
	return nil, false
}

// FieldAlias gives some struct fields a canonical name (their role) under
// which paths, track specifications and reports refer to them, whatever the
// source calls them. Set once, before any interpreter is created.
var FieldAlias = map[*types.Var]string{}

// FieldName is the canonical name of a struct field.
func FieldName(f *types.Var) string {
	if a, ok := FieldAlias[f]; ok {
		return a
	}
	return f.Name()
}

// BaseHooks is a no-op Hooks for embedding.
type BaseHooks struct{}

func (BaseHooks) OnStore(*Ctx, ssa.Instruction, Ptr, AbsVal) AbsVal { return nil }
func (BaseHooks) OnCall(*Ctx, ssa.Instruction, *ssa.Function, []AbsVal) (bool, AbsVal) {
	return false, nil
}
func (BaseHooks) OnBuiltin(*Ctx, ssa.Instruction, string, []AbsVal)                          {}
func (BaseHooks) OnDynamic(*Ctx, ssa.Instruction, []AbsVal, bool)                            {}
func (BaseHooks) AfterCall(*Ctx, ssa.Instruction, *ssa.Function, []AbsVal, Heap, Heap, bool) {}
func (BaseHooks) OnSliceStore(*Ctx, ssa.Instruction, SliceOf, AbsVal)                        {}
func (BaseHooks) LenIsZero(*Ctx, SliceOf) (bool, bool)                                       { return false, false }
func (BaseHooks) OnPanic(*Ctx, ssa.Instruction)                                              {}
func (BaseHooks) OnEscape(*Ctx, ssa.Instruction, AbsVal, string)                             {}

// Ctx is what a hook sees.
type Ctx struct {
	It    *Interp
	Fn    *ssa.Function
	Heap  Heap // mutable: ghost updates go here
	Stack []ssa.Instruction
	Frame *State
}

// Event is a recorded observation.
type Event struct {
	Kind   string
	Instr  ssa.Instruction
	Fn     *ssa.Function
	Detail map[string]string // rule-specific, canonical
	Chain  []string
	Args   []ssa.Value // SSA operands of interest (for label lookup)
	Count  int
}

func (e *Event) key() string {
	ks := make([]string, 0, len(e.Detail))
	for k := range e.Detail {
		ks = append(ks, k)
	}
	sort.Strings(ks)
	var sb strings.Builder
	sb.WriteString(e.Kind)
	sb.WriteString("@")
	if e.Instr != nil {
		sb.WriteString(e.Fn.String())
		sb.WriteString("#")
		sb.WriteString(instrTag(e.Instr))
	}
	for _, k := range ks {
		sb.WriteString("|" + k + "=" + e.Detail[k])
	}
	return sb.String()
}

// Outcome is one exit of a function entry.
type Outcome struct {
	Heap      Heap
	Ret       AbsVal
	Exc       bool // exits by panic
	Recovered bool // (deferred call in panic context) recover() was called
}

func (o *Outcome) key() string {
	return fmt.Sprintf("%v/%v/%s/%s", o.Exc, o.Recovered, o.Ret.Key(), o.Heap.key())
}

// Summary of one (function, abstract entry).
type Summary struct {
	Fn       *ssa.Function
	Args     []AbsVal
	Bindings []AbsVal
	Entry    Heap
	PanicCtx bool
	Outcomes map[string]*Outcome
	round    int
	busy     bool
	final    bool // computed without consulting any incomplete summary
	computed bool
	deps     map[*Summary]int // consulted summaries and the outcome count seen
	seq      int
}

func (s *Summary) SortedOutcomes() []*Outcome {
	ks := make([]string, 0, len(s.Outcomes))
	for k := range s.Outcomes {
		ks = append(ks, k)
	}
	sort.Strings(ks)
	r := make([]*Outcome, 0, len(ks))
	for _, k := range ks {
		r = append(r, s.Outcomes[k])
	}
	return r
}

// Interp is one analysis run.
type Interp struct {
	Cfg       Config
	Summaries map[string]*Summary
	Events    map[string]*Event
	Undecided []string
	round     int
	changed   bool
	stack     []ssa.Instruction
	crossBlk  map[*ssa.Function]map[ssa.Value]bool
	pathCache map[string]*pathInfo
	Steps     int
	States    int

	StatesByFn    map[string]int
	sawIncomplete bool
	cur           *Summary
	relevant      map[*ssa.Parameter]int // 0 unknown, 1 relevant, 2 irrelevant
}

func New(cfg Config) *Interp {
	if cfg.MaxStates == 0 {
		cfg.MaxStates = 200000
	}
	return &Interp{Cfg: cfg, Summaries: map[string]*Summary{}, Events: map[string]*Event{},
		crossBlk: map[*ssa.Function]map[ssa.Value]bool{}, pathCache: map[string]*pathInfo{}, relevant: map[*ssa.Parameter]int{}, StatesByFn: map[string]int{}}
}

func (it *Interp) undecided(format string, a ...interface{}) {
	msg := fmt.Sprintf(format, a...)
	for _, u := range it.Undecided {
		if u == msg {
			return
		}
	}
	it.Undecided = append(it.Undecided, msg)
}

// Record stores an event (deduplicated by kind, site and detail).
func (it *Interp) Record(e Event) {
	k := e.key()
	if old, ok := it.Events[k]; ok {
		old.Count++
		return
	}
	e.Count = 1
	for _, s := range it.stack {
		e.Chain = append(e.Chain, siteString(s))
	}
	it.Events[k] = &e
}

// instrTag is a run-independent identifier of an instruction in its function.
func instrTag(i ssa.Instruction) string {
	if cb, ok := i.(interface{ Inner() ssa.Instruction }); ok {
		return "cb:" + instrTag(cb.Inner())
	}
	b := i.Block()
	if b == nil {
		return "?"
	}
	for k, in := range b.Instrs {
		if in == i {
			return fmt.Sprintf("%04d.%04d", b.Index, k)
		}
	}
	return fmt.Sprintf("%04d.?", b.Index)
}

func siteString(i ssa.Instruction) string {
	if i == nil {
		return "?"
	}
	fn := i.Parent()
	pos := i.Pos()
	if !pos.IsValid() {
		if c, ok := i.(ssa.CallInstruction); ok {
			pos = c.Common().Pos()
		}
	}
	p := fn.Prog.Fset.Position(pos)
	return fmt.Sprintf("%s (%s:%d)", fn.String(), shortFile(p.Filename), p.Line)
}

func shortFile(f string) string {
	if i := strings.Index(f, "/repo/"); i >= 0 {
		return f[i+6:]
	}
	return f
}

// Root describes an analysis entry.
type Root struct {
	Fn   *ssa.Function
	Args []AbsVal
	Heap Heap
}

// Run analyses the roots to a global fixpoint over summaries.
func (it *Interp) Run(roots []Root) {
	for {
		it.round++
		it.changed = false
		for _, r := range roots {
			it.stack = it.stack[:0]
			it.analyze(r.Fn, r.Args, r.Heap, false)
		}
		if !it.changed {
			return
		}
		if it.round > 60 {
			it.undecided("summary fixpoint did not converge in 60 rounds")
			return
		}
	}
}

// noteDep records that the summary being computed consults s.
func (it *Interp) noteDep(s *Summary) {
	if it.cur != nil && it.cur != s {
		it.cur.deps[s] = -1 // count filled in by seenDep after the outcomes are read
	}
}

// seenDep records how many outcomes of s the current computation used.
func (it *Interp) seenDep(s *Summary) {
	if it.cur != nil && it.cur != s {
		it.cur.deps[s] = len(s.Outcomes)
	}
}

// Rounds reports how many global iterations were needed.
func (it *Interp) Rounds() int { return it.round }

// SummaryFor returns the summary of a root after Run.
func (it *Interp) SummaryFor(fn *ssa.Function, args []AbsVal, heap Heap, panicCtx bool) *Summary {
	return it.Summaries[summaryKey(fn, args, heap, panicCtx)]
}

func summaryKey(fn *ssa.Function, args []AbsVal, heap Heap, panicCtx bool) string {
	var sb strings.Builder
	fmt.Fprintf(&sb, "%p|%s|%v|", fn, fn.String(), panicCtx)
	for _, a := range args {
		sb.WriteString(a.Key())
		sb.WriteString(",")
	}
	sb.WriteString("|")
	sb.WriteString(heap.key())
	return sb.String()
}

type deferRec struct {
	call   *ssa.Defer
	callee AbsVal // FuncV, or nil for static/invoke handled through call.Common()
	args   []AbsVal
}

func (d deferRec) key() string {
	var sb strings.Builder
	fmt.Fprintf(&sb, "%p(", d.call)
	for _, a := range d.args {
		sb.WriteString(a.Key() + ",")
	}
	sb.WriteString(")")
	return sb.String()
}

// State is the abstract state of one frame.
type State struct {
	// Entry is the heap with which the frame was entered (shared, read-only).
	Entry     Heap
	Regs      map[ssa.Value]AbsVal
	Heap      Heap
	Defers    []deferRec
	Panicking bool // frame is unwinding because of a panic
}

// DeferredCallees lists the statically known callees on the defer stack,
// innermost last.
func (s *State) DeferredCallees() []string {
	var out []string
	for _, d := range s.Defers {
		if f := d.call.Common().StaticCallee(); f != nil {
			out = append(out, f.String())
		} else {
			out = append(out, "?")
		}
	}
	return out
}

// Reg returns the abstract value of an SSA value in this frame.
func (s *State) Reg(v ssa.Value) AbsVal {
	if a, ok := s.Regs[v]; ok {
		return a
	}
	return Top{}
}

func (s *State) clone() *State {
	n := &State{Entry: s.Entry, Regs: make(map[ssa.Value]AbsVal, len(s.Regs)), Heap: s.Heap.clone(), Panicking: s.Panicking}
	for k, v := range s.Regs {
		n.Regs[k] = v
	}
	n.Defers = append([]deferRec(nil), s.Defers...)
	return n
}

func (s *State) key() string {
	type kv struct{ n, v string }
	rs := make([]kv, 0, len(s.Regs))
	for k, v := range s.Regs {
		rs = append(rs, kv{k.Name(), v.Key()})
	}
	sort.Slice(rs, func(i, j int) bool { return rs[i].n < rs[j].n })
	var sb strings.Builder
	for _, r := range rs {
		sb.WriteString(r.n + "=" + r.v + ";")
	}
	sb.WriteString("#")
	sb.WriteString(s.Heap.key())
	sb.WriteString("#")
	for _, d := range s.Defers {
		sb.WriteString(d.key())
	}
	if s.Panicking {
		sb.WriteString("!P")
	}
	return sb.String()
}

type work struct {
	blk   *ssa.BasicBlock // nil = unwinding (running defers after panic / recover)
	idx   int
	prev  *ssa.BasicBlock
	st    *State
	entry bool // block entry: memoise / merge here
}

// groupKey identifies the states that are merged at a block entry: equal
// tracked heap, defer stack and unwinding flag (property simulation).
func (s *State) groupKey() string {
	var sb strings.Builder
	sb.WriteString(s.Heap.key())
	sb.WriteString("#")
	for _, d := range s.Defers {
		sb.WriteString(d.key())
	}
	if s.Panicking {
		sb.WriteString("!P")
	}
	if _, ok := s.Regs[recoveredMarker]; ok {
		sb.WriteString("!R")
	}
	return sb.String()
}

// joinRegs joins b into a (flat lattice: unequal values become Top, i.e.
// are dropped). It reports whether the result differs from a.
func joinRegs(a, b map[ssa.Value]AbsVal) (map[ssa.Value]AbsVal, bool) {
	changed := false
	out := make(map[ssa.Value]AbsVal, len(a))
	for k, v := range a {
		if w, ok := b[k]; ok && w.Key() == v.Key() {
			out[k] = v
		} else {
			changed = true
		}
	}
	return out, changed
}

// enter moves st along the edge from->to: phis of `to` are evaluated in
// parallel for that edge.
func (it *Interp) enter(fn *ssa.Function, st *State, from, to *ssa.BasicBlock) work {
	pi := -1
	for i, p := range to.Preds {
		if p == from {
			pi = i
			break
		}
	}
	idx := 0
	vals := map[*ssa.Phi]AbsVal{}
	for ; idx < len(to.Instrs); idx++ {
		ph, ok := to.Instrs[idx].(*ssa.Phi)
		if !ok {
			break
		}
		if pi < 0 {
			it.undecided("phi without predecessor in %s", fn)
			break
		}
		vals[ph] = it.eval(st, ph.Edges[pi])
	}
	for ph, v := range vals {
		setReg(st, ph, v)
	}
	return work{blk: to, idx: idx, prev: from, st: st, entry: true}
}

func (it *Interp) analyze(fn *ssa.Function, args []AbsVal, heap Heap, panicCtx bool) *Summary {
	return it.analyzeB(fn, args, nil, heap, panicCtx)
}

func (it *Interp) analyzeB(fn *ssa.Function, args, bindings []AbsVal, heap Heap, panicCtx bool) *Summary {
	key := summaryKey(fn, append(append([]AbsVal{}, args...), bindings...), heap, panicCtx)
	sum := it.Summaries[key]
	if sum == nil {
		sum = &Summary{Fn: fn, Args: args, Bindings: bindings, Entry: heap, PanicCtx: panicCtx, Outcomes: map[string]*Outcome{}, seq: len(it.Summaries)}
		it.Summaries[key] = sum
		it.changed = true
	}
	it.noteDep(sum)
	if sum.final {
		return sum
	}
	if sum.busy || sum.round == it.round {
		it.sawIncomplete = true
		return sum
	}
	sum.round = it.round
	if sum.computed && os.Getenv("REDACTCHECK_NAIVE") == "" {
		// semi-naive: recompute only if something it consulted has grown.
		ds := make([]*Summary, 0, len(sum.deps))
		for d := range sum.deps {
			ds = append(ds, d)
		}
		sort.Slice(ds, func(i, j int) bool { return ds[i].seq < ds[j].seq })
		saveCur := it.cur
		it.cur = nil
		for _, d := range ds {
			it.analyzeB(d.Fn, d.Args, d.Bindings, d.Entry, d.PanicCtx)
		}
		it.cur = saveCur
		stale := false
		for d, seen := range sum.deps {
			if len(d.Outcomes) != seen {
				stale = true
				break
			}
		}
		if !stale {
			it.sawIncomplete = true // still provisional
			return sum
		}
	}
	sum.busy = true
	sum.computed = true
	sum.deps = map[*Summary]int{}
	outerSaw := it.sawIncomplete
	it.sawIncomplete = false
	saveCur := it.cur
	it.cur = sum
	defer func() {
		it.cur = saveCur
		sum.busy = false
		if !it.sawIncomplete && len(it.Undecided) == 0 {
			sum.final = true
		}
		it.sawIncomplete = it.sawIncomplete || outerSaw
	}()

	if fn.Blocks == nil {
		it.undecided("function without body reached as in-module: %s", fn)
		return sum
	}
	st := &State{Entry: heap, Regs: map[ssa.Value]AbsVal{}, Heap: heap.clone()}
	for i, p := range fn.Params {
		if i < len(args) {
			if !isTop(args[i]) {
				st.Regs[p] = args[i]
			}
		}
	}
	for i, fv := range fn.FreeVars {
		if i < len(bindings) && !isTop(bindings[i]) {
			st.Regs[fv] = bindings[i]
		}
	}
	cross := it.crossBlock(fn)
	table := map[string]map[ssa.Value]AbsVal{}
	wl := []work{{blk: fn.Blocks[0], st: st, entry: true}}
	nstates := 0
	addOutcome := func(o *Outcome) {
		k := o.key()
		if _, ok := sum.Outcomes[k]; !ok {
			sum.Outcomes[k] = o
			it.changed = true
		}
	}
	for len(wl) > 0 {
		w := wl[len(wl)-1]
		wl = wl[:len(wl)-1]
		if w.blk != nil && w.entry {
			// prune dead registers, then memoise / merge.
			for r := range w.st.Regs {
				if !cross[r] {
					if _, isParam := r.(*ssa.Parameter); !isParam {
						if _, isFV := r.(*ssa.FreeVar); !isFV {
							if ri, ok := r.(ssa.Instruction); ok && ri.Block() != w.blk {
								delete(w.st.Regs, r)
							}
						}
					}
				}
			}
			var k string
			if it.Cfg.NoMerge {
				k = fmt.Sprintf("%d|%s", w.blk.Index, w.st.key())
				if _, seen := table[k]; seen {
					continue
				}
				table[k] = nil
			} else {
				k = fmt.Sprintf("%d|%s", w.blk.Index, w.st.groupKey())
				if old, seen := table[k]; seen {
					joined, changed := joinRegs(old, w.st.Regs)
					if !changed {
						continue
					}
					table[k] = joined
					w.st.Regs = copyRegs(joined)
				} else {
					table[k] = copyRegs(w.st.Regs)
				}
			}
			nstates++
			it.States++
			it.StatesByFn[fn.String()]++
			if nstates > it.Cfg.MaxStates {
				it.undecided("state bound exceeded in %s", fn)
				return sum
			}
			if it.States > 20*it.Cfg.MaxStates {
				// whole-run safety net: a diverging abstraction must end in
				// "not decided", never in an exhausted machine
				it.undecided("total state bound exceeded (while in %s)", fn)
				return sum
			}
		}
		if w.blk == nil {
			// unwinding: run remaining defers.
			st := w.st
			if len(st.Defers) == 0 {
				if st.Panicking {
					_, rec := st.Regs[recoveredMarker]
					addOutcome(&Outcome{Heap: st.Heap, Ret: Top{}, Exc: true, Recovered: rec})
				} else if fn.Recover != nil {
					wl = append(wl, work{blk: fn.Recover, st: st, entry: true})
				} else {
					_, rec := st.Regs[recoveredMarker]
					addOutcome(&Outcome{Heap: st.Heap, Ret: zeroRet(fn), Recovered: rec})
				}
				continue
			}
			d := st.Defers[len(st.Defers)-1]
			st.Defers = st.Defers[:len(st.Defers)-1]
			for _, r := range it.callDeferred(fn, st, d, st.Panicking) {
				ns := &State{Entry: st.Entry, Regs: st.Regs, Heap: r.heap, Defers: append([]deferRec(nil), st.Defers...), Panicking: st.Panicking}
				if r.recovered {
					ns.Panicking = false
				}
				if r.exc {
					ns.Panicking = true
				}
				wl = append(wl, work{blk: nil, st: ns})
			}
			continue
		}
		// execute instructions of the block from idx.
		it.execBlock(fn, sum, w, panicCtx, &wl, addOutcome)
	}
	return sum
}

func zeroRet(fn *ssa.Function) AbsVal {
	res := fn.Signature.Results()
	if res.Len() == 0 {
		return Top{}
	}
	if res.Len() == 1 {
		return Top{}
	}
	el := make([]AbsVal, res.Len())
	for i := range el {
		el[i] = Top{}
	}
	return TupleV{el}
}

func (it *Interp) crossBlock(fn *ssa.Function) map[ssa.Value]bool {
	if m, ok := it.crossBlk[fn]; ok {
		return m
	}
	m := map[ssa.Value]bool{}
	for _, b := range fn.Blocks {
		for _, ins := range b.Instrs {
			v, ok := ins.(ssa.Value)
			if !ok {
				continue
			}
			refs := v.Referrers()
			if refs == nil {
				continue
			}
			for _, r := range *refs {
				if r.Block() != b {
					m[v] = true
					break
				}
				if _, isPhi := r.(*ssa.Phi); isPhi {
					m[v] = true
					break
				}
				// a Defer keeps its operands alive until RunDefers
				if _, isDefer := r.(*ssa.Defer); isDefer {
					// values are captured into deferRec at defer time
				}
			}
		}
	}
	it.crossBlk[fn] = m
	return m
}

type callResult struct {
	heap      Heap
	ret       AbsVal
	exc       bool
	recovered bool
}

// execBlock runs w.st through w.blk starting at w.idx, pushing successors.
func (it *Interp) execBlock(fn *ssa.Function, sum *Summary, w work, panicCtx bool, wl *[]work, addOutcome func(*Outcome)) {
	st := w.st
	blk := w.blk
	for idx := w.idx; idx < len(blk.Instrs); idx++ {
		it.Steps++
		ins := blk.Instrs[idx]
		switch ins := ins.(type) {
		case *ssa.Phi:
			it.undecided("phi reached outside block entry in %s", fn)
		case *ssa.DebugRef:
		case *ssa.Alloc:
			id := fmt.Sprintf("L%d.%d", blk.Index, idx)
			elem := ins.Type().Underlying().(*types.Pointer).Elem()
			o := &Object{Type: elem, Fields: map[string]AbsVal{}, TrackAll: !ins.Heap || true}
			// Heap allocations of module struct types are tracked by filter.
			if ins.Heap && it.hasTrackedLeaves(elem) {
				o.TrackAll = false
			}
			it.zeroInit(o, "", elem)
			st.Heap[id] = o
			setReg(st, ins, Ptr{id, ""})
		case *ssa.Store:
			addr := it.eval(st, ins.Addr)
			val := it.eval(st, ins.Val)
			if p, ok := addr.(Ptr); ok {
				if it.Cfg.Hooks != nil {
					if nv := it.Cfg.Hooks.OnStore(it.ctx(fn, st), ins, p, val); nv != nil {
						val = nv
					}
				}
				it.store(st.Heap, p, val, ins.Val.Type())
			} else if so, ok := addr.(SliceOf); ok && it.Cfg.Hooks != nil {
				it.Cfg.Hooks.OnSliceStore(it.ctx(fn, st), ins, so, val)
			}
		case *ssa.UnOp:
			setReg(st, ins, it.unop(st, ins))
		case *ssa.BinOp:
			x, y := it.eval(st, ins.X), it.eval(st, ins.Y)
			if lo, ok := x.(LenOf); ok && it.Cfg.Hooks != nil && (ins.Op == token.EQL || ins.Op == token.NEQ) {
				if c, ok := y.(Const); ok && c.V.Kind() == constant.Int && constant.Sign(c.V) == 0 {
					if z, known := it.Cfg.Hooks.LenIsZero(it.ctx(fn, st), lo.S); known {
						setReg(st, ins, boolConst(z == (ins.Op == token.EQL)))
						continue
					}
				}
			}
			if hv, ok := it.valueHook(fn, st, ins, x, y); ok {
				setReg(st, ins, hv)
				continue
			}
			setReg(st, ins, it.binop(x, y, ins.Op))
		case *ssa.FieldAddr:
			x := it.eval(st, ins.X)
			if p, ok := x.(Ptr); ok {
				fld := ins.X.Type().Underlying().(*types.Pointer).Elem().Underlying().(*types.Struct).Field(ins.Field)
				setReg(st, ins, p.Sub(FieldName(fld)))
			} else {
				setReg(st, ins, Top{})
			}
		case *ssa.Field:
			x := it.eval(st, ins.X)
			if sv, ok := x.(StructV); ok {
				fld := ins.X.Type().Underlying().(*types.Struct).Field(ins.Field)
				setReg(st, ins, structField(sv, FieldName(fld)))
			} else {
				setReg(st, ins, Top{})
			}
		case *ssa.Slice:
			x := it.eval(st, ins.X)
			if hv, ok := it.valueHook(fn, st, ins, x); ok {
				setReg(st, ins, hv)
				continue
			}
			if so, ok := x.(SliceOf); ok {
				setReg(st, ins, so)
			} else {
				setReg(st, ins, Top{})
			}
		case *ssa.IndexAddr:
			x := it.eval(st, ins.X)
			if so, ok := x.(SliceOf); ok {
				setReg(st, ins, so) // address into the tracked slice
			} else if p, ok := x.(Ptr); ok {
				// element of a local array at a constant index
				if c, ok := it.eval(st, ins.Index).(Const); ok && c.V.Kind() == constant.Int {
					if o := st.Heap[p.Obj]; o != nil && o.TrackAll {
						path := "[" + c.V.ExactString() + "]"
						if p.Path != "" {
							path = p.Path + "." + path
						}
						setReg(st, ins, Ptr{p.Obj, path})
						continue
					}
				}
				setReg(st, ins, Top{})
			} else {
				setReg(st, ins, Top{})
			}
		case *ssa.Lookup:
			// constant string indexed by a constant
			if cs, ok := it.eval(st, ins.X).(Const); ok && cs.V.Kind() == constant.String && !ins.CommaOk {
				if ci, ok := it.eval(st, ins.Index).(Const); ok && ci.V.Kind() == constant.Int {
					sv := constant.StringVal(cs.V)
					if i, ok := constant.Int64Val(ci.V); ok && i >= 0 && int(i) < len(sv) {
						setReg(st, ins, Const{V: constant.MakeInt64(int64(sv[i]))})
						continue
					}
				}
			}
			ik := it.eval(st, ins.Index)
			if _, isOther := ik.(Other); isOther {
				// different from every literal, hence from every key of a constant table
				ik = Const{V: constant.MakeString("\x00<no such key>")}
			}
			if ck, ok := ik.(Const); ok {
				if v, ok := staticLookup(ins, ck); ok {
					setReg(st, ins, v)
					continue
				}
			}
			setReg(st, ins, Top{})
		case *ssa.Convert:
			x := it.eval(st, ins.X)
			it.escape(fn, st, ins, x, "convert")
			if hv, ok := it.valueHook(fn, st, ins, x); ok {
				setReg(st, ins, hv)
				continue
			}
			setReg(st, ins, convertVal(x, ins.X.Type(), ins.Type()))
		case *ssa.ChangeType:
			x := it.eval(st, ins.X)
			it.escape(fn, st, ins, x, "convert")
			setReg(st, ins, x)
		case *ssa.ChangeInterface:
			setReg(st, ins, it.eval(st, ins.X))
		case *ssa.MakeInterface:
			setReg(st, ins, IfaceV{ins.X.Type(), it.eval(st, ins.X)})
		case *ssa.MakeClosure:
			bs := make([]AbsVal, len(ins.Bindings))
			for i, b := range ins.Bindings {
				bs[i] = it.eval(st, b)
			}
			setReg(st, ins, FuncV{ins.Fn.(*ssa.Function), bs})
		case *ssa.Extract:
			t := it.eval(st, ins.Tuple)
			if tv, ok := t.(TupleV); ok && ins.Index < len(tv.Elems) {
				setReg(st, ins, tv.Elems[ins.Index])
			} else {
				setReg(st, ins, Top{})
			}
		case *ssa.TypeAssert:
			outs := it.typeAssert(fn, st, ins, blk, idx)
			if len(outs) == 1 {
				setReg(st, ins, outs[0])
			} else {
				for _, o := range outs[1:] {
					ns := st.clone()
					setReg(ns, ins, o)
					*wl = append(*wl, work{blk: blk, idx: idx + 1, prev: w.prev, st: ns})
				}
				setReg(st, ins, outs[0])
			}
		case *ssa.MakeSlice:
			if hv, ok := it.valueHook(fn, st, ins, it.eval(st, ins.Len)); ok {
				setReg(st, ins, hv)
				continue
			}
			setReg(st, ins, Top{})
		case *ssa.Index:
			// an array value (aggregate of its elements) indexed by a constant
			if sv, ok := it.eval(st, ins.X).(StructV); ok {
				if ci, ok := it.eval(st, ins.Index).(Const); ok && ci.V.Kind() == constant.Int {
					key := "[" + ci.V.ExactString() + "]"
					if v, ok := sv.Fields[key]; ok {
						setReg(st, ins, v)
						continue
					}
					sub := map[string]AbsVal{}
					for k, v := range sv.Fields {
						if strings.HasPrefix(k, key+".") {
							sub[k[len(key)+1:]] = v
						}
					}
					if len(sub) > 0 {
						setReg(st, ins, StructV{sub})
						continue
					}
				}
			}
			// constant string indexed by a constant
			if cs, ok := it.eval(st, ins.X).(Const); ok && cs.V.Kind() == constant.String {
				if ci, ok := it.eval(st, ins.Index).(Const); ok && ci.V.Kind() == constant.Int {
					sv := constant.StringVal(cs.V)
					if i, ok := constant.Int64Val(ci.V); ok && i >= 0 && int(i) < len(sv) {
						setReg(st, ins, Const{V: constant.MakeInt64(int64(sv[i]))})
						continue
					}
				}
			}
			setReg(st, ins, Top{})
		case *ssa.MakeMap, *ssa.MakeChan, *ssa.Range, *ssa.Next, *ssa.SliceToArrayPointer, *ssa.MultiConvert:
			setReg(st, ins.(ssa.Value), Top{})
		case *ssa.MapUpdate:
		case *ssa.Defer:
			d := deferRec{call: ins}
			c := ins.Common()
			if c.IsInvoke() {
				d.args = append(d.args, it.eval(st, c.Value))
			} else {
				switch c.Value.(type) {
				case *ssa.Function, *ssa.Builtin:
				default:
					d.callee = it.eval(st, c.Value)
				}
			}
			for _, a := range c.Args {
				d.args = append(d.args, it.eval(st, a))
			}
			if loopDepth(blk) {
				// A call deferred inside a loop runs once per iteration, but
				// only when the function returns. The abstraction keeps one
				// pending instance per site (otherwise the defer stack grows
				// without bound) and reports the construct to the rules.
				it.Record(Event{Kind: "deferloop", Instr: ins, Fn: fn, Detail: map[string]string{"callee": ins.Common().String()}})
				dup := false
				for _, o := range st.Defers {
					if o.call == ins {
						dup = true
					}
				}
				if dup {
					continue
				}
			}
			st.Defers = append(st.Defers, d)
		case *ssa.RunDefers:
			if len(st.Defers) == 0 {
				continue
			}
			d := st.Defers[len(st.Defers)-1]
			rest := st.Defers[:len(st.Defers)-1]
			rs := it.callDeferred(fn, st, d, false)
			for _, r := range rs {
				ns := &State{Entry: st.Entry, Regs: copyRegs(st.Regs), Heap: r.heap, Defers: append([]deferRec(nil), rest...)}
				if r.exc {
					ns.Panicking = true
					*wl = append(*wl, work{blk: nil, st: ns})
				} else {
					*wl = append(*wl, work{blk: blk, idx: idx, prev: w.prev, st: ns})
				}
			}
			return
		case *ssa.Go, *ssa.Send, *ssa.Select:
			it.undecided("concurrency construct %T in %s", ins, fn)
		case *ssa.Call:
			rs := it.call(fn, st, ins, ins.Common(), nil, nil, panicCtx)
			if len(rs) == 0 {
				return // no outcome yet (recursion bottom)
			}
			for _, r := range rs {
				ns := &State{Entry: st.Entry, Regs: copyRegs(st.Regs), Heap: r.heap, Defers: append([]deferRec(nil), st.Defers...)}
				if r.exc {
					ns.Panicking = true
					*wl = append(*wl, work{blk: nil, st: ns})
					continue
				}
				setReg(ns, ins, r.ret)
				if r.recovered {
					// recover() was called directly in this frame: remember
					// it so that the outcome tells the unwinding caller.
					ns.Regs[recoveredMarker] = boolConst(true)
				}
				*wl = append(*wl, work{blk: blk, idx: idx + 1, prev: w.prev, st: ns})
			}
			return
		case *ssa.Panic:
			if it.Cfg.NoPanicPkgs[pkgPath(fn)] {
				return // not modelled: path ends
			}
			if it.Cfg.Hooks != nil {
				it.Cfg.Hooks.OnPanic(it.ctx(fn, st), ins)
			}
			st.Panicking = true
			*wl = append(*wl, work{blk: nil, st: st})
			return
		case *ssa.Return:
			var ret AbsVal = Top{}
			if len(ins.Results) == 1 {
				ret = it.eval(st, ins.Results[0])
			} else if len(ins.Results) > 1 {
				el := make([]AbsVal, len(ins.Results))
				for i, r := range ins.Results {
					el[i] = it.eval(st, r)
				}
				ret = TupleV{el}
			}
			for _, r := range ins.Results {
				it.escape(fn, st, ins, it.eval(st, r), "return")
			}
			_, rec := st.Regs[recoveredMarker]
			addOutcome(&Outcome{Heap: st.Heap, Ret: ret, Recovered: rec})
			return
		case *ssa.Jump:
			*wl = append(*wl, it.enter(fn, st, blk, blk.Succs[0]))
			return
		case *ssa.If:
			c := it.eval(st, ins.Cond)
			if b, ok := asBool(c); ok {
				if b {
					*wl = append(*wl, it.enter(fn, st, blk, blk.Succs[0]))
				} else {
					*wl = append(*wl, it.enter(fn, st, blk, blk.Succs[1]))
				}
			} else {
				s2 := st.clone()
				it.refine(st, ins.Cond, true)
				it.refine(s2, ins.Cond, false)
				*wl = append(*wl, it.enter(fn, s2, blk, blk.Succs[1]))
				*wl = append(*wl, it.enter(fn, st, blk, blk.Succs[0]))
			}
			return
		default:
			if v, ok := ins.(ssa.Value); ok {
				setReg(st, v, Top{})
			}
		}
	}
}

func (it *Interp) escape(fn *ssa.Function, st *State, ins ssa.Instruction, v AbsVal, how string) {
	if it.Cfg.Hooks == nil {
		return
	}
	switch x := v.(type) {
	case SliceOf, LenOf:
		it.Cfg.Hooks.OnEscape(it.ctx(fn, st), ins, x, how)
	case Ptr:
		if o := st.Heap[x.Obj]; o != nil && x.Path != "" && how == "convert" {
			if it.resolve(o.Type, x.Path).slice {
				it.Cfg.Hooks.OnEscape(it.ctx(fn, st), ins, x, how)
			}
		}
	}
}

// recoveredMarker is a pseudo-register set in a frame in which recover()
// returned non-nil.
var recoveredMarker ssa.Value = &ssa.Parameter{}

func copyRegs(m map[ssa.Value]AbsVal) map[ssa.Value]AbsVal {
	n := make(map[ssa.Value]AbsVal, len(m))
	for k, v := range m {
		n[k] = v
	}
	return n
}

func setReg(st *State, v ssa.Value, a AbsVal) {
	if isTop(a) {
		delete(st.Regs, v)
		return
	}
	st.Regs[v] = a
}

func pkgPath(fn *ssa.Function) string {
	for fn.Parent() != nil {
		fn = fn.Parent()
	}
	if fn.Pkg != nil {
		return fn.Pkg.Pkg.Path()
	}
	if o := fn.Object(); o != nil && o.Pkg() != nil {
		return o.Pkg().Path()
	}
	return ""
}

// loopDepth reports whether blk lies on a cycle of the CFG.
func loopDepth(blk *ssa.BasicBlock) bool {
	seen := map[*ssa.BasicBlock]bool{}
	var stack []*ssa.BasicBlock
	stack = append(stack, blk.Succs...)
	for len(stack) > 0 {
		b := stack[len(stack)-1]
		stack = stack[:len(stack)-1]
		if b == blk {
			return true
		}
		if seen[b] {
			continue
		}
		seen[b] = true
		stack = append(stack, b.Succs...)
	}
	return false
}

func (it *Interp) ctx(fn *ssa.Function, st *State) *Ctx {
	return &Ctx{It: it, Fn: fn, Heap: st.Heap, Stack: it.stack, Frame: st}
}

// refine narrows the state along a branch on an unknown condition when the
// condition is a nil-comparison of a register (keeps comma-ok correlation).
func (it *Interp) refine(st *State, cond ssa.Value, truth bool) {
	b, ok := cond.(*ssa.BinOp)
	if !ok || (b.Op != token.EQL && b.Op != token.NEQ) {
		return
	}
	var reg ssa.Value
	if c, ok := b.Y.(*ssa.Const); ok && c.IsNil() {
		reg = b.X
	} else if c, ok := b.X.(*ssa.Const); ok && c.IsNil() {
		reg = b.Y
	}
	if reg == nil {
		return
	}
	if _, isConst := reg.(*ssa.Const); isConst {
		return
	}
	isNil := (b.Op == token.EQL) == truth
	if _, known := st.Regs[reg]; known {
		return
	}
	if isNil {
		st.Regs[reg] = NilV{}
	} else {
		st.Regs[reg] = NonNil{}
	}
}

func (it *Interp) eval(st *State, v ssa.Value) AbsVal {
	switch v := v.(type) {
	case *ssa.Const:
		if v.Value == nil {
			// nil or zero value of aggregate type
			switch v.Type().Underlying().(type) {
			case *types.Struct:
				return zeroStruct{v.Type()}
			case *types.Pointer, *types.Interface, *types.Slice, *types.Map, *types.Signature, *types.Chan:
				return NilV{}
			case *types.Basic:
				return NilV{}
			}
			return Top{}
		}
		return Const{v.Value}
	case *ssa.Function:
		return FuncV{v, nil}
	case *ssa.Global:
		return Top{}
	case *ssa.Builtin:
		return Top{}
	}
	if a, ok := st.Regs[v]; ok {
		return a
	}
	return Top{}
}

// zeroStruct is the zero value of a struct type (expanded on store).
type zeroStruct struct{ T types.Type }

func (z zeroStruct) Key() string { return "zero<" + z.T.String() + ">" }

func structField(sv StructV, name string) AbsVal {
	if v, ok := sv.Fields[name]; ok {
		return v
	}
	sub := map[string]AbsVal{}
	pre := name + "."
	for k, v := range sv.Fields {
		if strings.HasPrefix(k, pre) {
			sub[k[len(pre):]] = v
		}
	}
	if len(sub) > 0 {
		return StructV{sub}
	}
	return Top{}
}

func convertVal(v AbsVal, from, to types.Type) AbsVal {
	if _, ok := v.(SliceOf); ok {
		if _, toSlice := to.Underlying().(*types.Slice); toSlice {
			return v
		}
		return Top{} // string(b) copies
	}
	switch v := v.(type) {
	case Const:
		fb, ok1 := from.Underlying().(*types.Basic)
		tb, ok2 := to.Underlying().(*types.Basic)
		if ok1 && ok2 && fb.Info()&types.IsInteger != 0 && tb.Info()&types.IsInteger != 0 {
			return v
		}
		if ok1 && ok2 && fb.Info()&types.IsString != 0 && tb.Info()&types.IsString != 0 {
			return v
		}
		return Top{}
	case Other, Sym:
		return v
	case NilV:
		return v
	}
	return Top{}
}

func (it *Interp) unop(st *State, ins *ssa.UnOp) AbsVal {
	x := it.eval(st, ins.X)
	switch ins.Op {
	case token.MUL:
		if p, ok := x.(Ptr); ok {
			return it.load(st.Heap, p, ins.Type())
		}
		return Top{}
	case token.NOT:
		if b, ok := asBool(x); ok {
			return boolConst(!b)
		}
	}
	return Top{}
}

func (it *Interp) binop(x, y AbsVal, op token.Token) AbsVal {
	switch op {
	case token.EQL, token.NEQ:
		eq, known := absEqual(x, y)
		if !known {
			return Top{}
		}
		if op == token.NEQ {
			eq = !eq
		}
		return boolConst(eq)
	case token.LSS, token.LEQ, token.GTR, token.GEQ:
		cx, ok1 := x.(Const)
		cy, ok2 := y.(Const)
		if ok1 && ok2 && cx.V.Kind() != constant.Bool {
			return boolConst(constant.Compare(cx.V, op, cy.V))
		}
	case token.LAND, token.LOR:
	case token.ADD, token.SUB, token.MUL:
		// integer constants fold (loop counters over constant tables)
		cx, ok1 := x.(Const)
		cy, ok2 := y.(Const)
		// (only in the exhaustive NoMerge runs: elsewhere a folded counter,
		// e.g. a recursion depth, would make every level a new context)
		if it.Cfg.NoMerge && ok1 && ok2 && cx.V.Kind() == constant.Int && cy.V.Kind() == constant.Int {
			return Const{V: constant.BinaryOp(cx.V, op, cy.V)}
		}
	}
	return Top{}
}

func absEqual(x, y AbsVal) (eq, known bool) {
	switch xv := x.(type) {
	case Const:
		switch yv := y.(type) {
		case Const:
			if xv.V.Kind() == yv.V.Kind() || (isNum(xv.V) && isNum(yv.V)) {
				return constant.Compare(xv.V, token.EQL, yv.V), true
			}
		case Other:
			return false, true
		}
	case Other:
		if _, ok := y.(Const); ok {
			return false, true
		}
	case Sym:
		if ys, ok := y.(Sym); ok && ys == xv {
			return true, true
		}
	case NilV:
		switch nilness(y) {
		case 1:
			return true, true
		case 2:
			return false, true
		}
	case Ptr:
		switch yv := y.(type) {
		case Ptr:
			return xv == yv, true
		case NilV:
			return false, true
		}
	}
	if _, ok := y.(NilV); ok {
		switch nilness(x) {
		case 1:
			return true, true
		case 2:
			return false, true
		}
	}
	return false, false
}

func isNum(v constant.Value) bool {
	return v.Kind() == constant.Int || v.Kind() == constant.Float
}

// ---- heap access -----------------------------------------------------

type pathInfo struct {
	decl    string // fully-qualified named struct type declaring the leaf ("" if unknown)
	field   string
	typ     types.Type
	tracked bool
	slice   bool
}

// resolve walks t along path and reports the declaring struct of the leaf.
func (it *Interp) resolve(t types.Type, path string) *pathInfo {
	ck := t.String() + "|" + path
	if pi, ok := it.pathCache[ck]; ok {
		return pi
	}
	pi := &pathInfo{}
	cur := t
	decl := ""
	parts := strings.Split(path, ".")
	if path == "" {
		parts = nil
	}
	ok := true
	for i, p := range parts {
		if n, isNamed := cur.(*types.Named); isNamed {
			decl = n.Obj().Pkg().Path() + "." + n.Obj().Name()
		} else if a, isAlias := cur.(*types.Alias); isAlias {
			if n, isNamed := types.Unalias(a).(*types.Named); isNamed {
				decl = n.Obj().Pkg().Path() + "." + n.Obj().Name()
			}
		}
		if strings.HasPrefix(p, "#") {
			// ghost leaf of the struct at cur
			if i != len(parts)-1 {
				ok = false
				break
			}
			pi.decl, pi.field = decl, p
			if g := it.Cfg.Ghosts[decl]; g != nil {
				if _, has := g[p]; has {
					pi.tracked = true
				}
			}
			it.pathCache[ck] = pi
			return pi
		}
		s, isStruct := cur.Underlying().(*types.Struct)
		if !isStruct {
			ok = false
			break
		}
		found := false
		for j := 0; j < s.NumFields(); j++ {
			if FieldName(s.Field(j)) == p {
				cur = s.Field(j).Type()
				found = true
				break
			}
		}
		if !found {
			ok = false
			break
		}
		pi.field = p
		pi.decl = decl
	}
	if ok {
		pi.typ = cur
		spec := TrackSpec{pi.decl, pi.field}
		pi.tracked = it.Cfg.Track[spec]
		pi.slice = it.Cfg.SliceIdent[spec]
	}
	it.pathCache[ck] = pi
	return pi
}

func namedString(t types.Type) string {
	t = types.Unalias(t)
	if n, ok := t.(*types.Named); ok && n.Obj().Pkg() != nil {
		return n.Obj().Pkg().Path() + "." + n.Obj().Name()
	}
	return ""
}

// hasTrackedLeaves reports whether t (a struct type) contains tracked leaves.
func (it *Interp) hasTrackedLeaves(t types.Type) bool {
	found := false
	it.walkLeaves(t, "", 0, func(path string, lt types.Type, decl, field string) {
		if it.Cfg.Track[TrackSpec{decl, field}] || it.Cfg.SliceIdent[TrackSpec{decl, field}] {
			found = true
		}
	})
	if it.Cfg.Ghosts[namedString(t)] != nil {
		found = true
	}
	return found
}

// walkLeaves enumerates the non-struct leaves of t.
func (it *Interp) walkLeaves(t types.Type, prefix string, depth int, f func(path string, lt types.Type, decl, field string)) {
	if depth > 6 {
		return
	}
	s, ok := t.Underlying().(*types.Struct)
	if !ok {
		return
	}
	decl := namedString(t)
	for i := 0; i < s.NumFields(); i++ {
		fl := s.Field(i)
		p := FieldName(fl)
		if prefix != "" {
			p = prefix + "." + FieldName(fl)
		}
		if _, isStruct := fl.Type().Underlying().(*types.Struct); isStruct {
			it.walkLeaves(fl.Type(), p, depth+1, f)
			continue
		}
		f(p, fl.Type(), decl, FieldName(fl))
	}
}

// walkGhosts enumerates ghost leaves of t and of its nested structs.
func (it *Interp) walkGhosts(t types.Type, prefix string, depth int, f func(path string, zero AbsVal)) {
	if depth > 6 {
		return
	}
	s, ok := t.Underlying().(*types.Struct)
	if !ok {
		return
	}
	if g := it.Cfg.Ghosts[namedString(t)]; g != nil {
		for name, z := range g {
			p := name
			if prefix != "" {
				p = prefix + "." + name
			}
			f(p, z)
		}
	}
	for i := 0; i < s.NumFields(); i++ {
		fl := s.Field(i)
		if _, isStruct := fl.Type().Underlying().(*types.Struct); isStruct {
			p := FieldName(fl)
			if prefix != "" {
				p = prefix + "." + FieldName(fl)
			}
			it.walkGhosts(fl.Type(), p, depth+1, f)
		}
	}
}

func zeroOf(t types.Type) AbsVal {
	switch u := t.Underlying().(type) {
	case *types.Basic:
		switch {
		case u.Info()&types.IsBoolean != 0:
			return boolConst(false)
		case u.Info()&types.IsInteger != 0:
			return Const{constant.MakeInt64(0)}
		case u.Info()&types.IsString != 0:
			return Const{constant.MakeString("")}
		case u.Kind() == types.UnsafePointer:
			return NilV{}
		}
		return Top{}
	case *types.Pointer, *types.Interface, *types.Slice, *types.Map, *types.Signature, *types.Chan:
		return NilV{}
	}
	return Top{}
}

// zeroInit sets the tracked leaves of o under prefix (of type t) to zero.
func (it *Interp) zeroInit(o *Object, prefix string, t types.Type) {
	if _, isStruct := t.Underlying().(*types.Struct); !isStruct {
		if o.TrackAll {
			if z := zeroOf(t); !isTop(z) {
				o.Fields[prefix] = z
			}
		}
		return
	}
	it.walkLeaves(t, prefix, 0, func(path string, lt types.Type, decl, field string) {
		if o.TrackAll || it.Cfg.Track[TrackSpec{decl, field}] {
			if z := zeroOf(lt); !isTop(z) {
				o.Fields[path] = z
			}
		}
	})
	it.walkGhosts(t, prefix, 0, func(path string, zero AbsVal) {
		o.Fields[path] = zero
	})
}

func (it *Interp) load(h Heap, p Ptr, t types.Type) AbsVal {
	o := h[p.Obj]
	if o == nil {
		return Top{}
	}
	if v, ok := o.Fields[p.Path]; ok {
		return v
	}
	if pi := it.resolve(o.Type, p.Path); pi.slice {
		return SliceOf{p.Obj, p.Path}
	}
	_, isStruct := t.Underlying().(*types.Struct)
	if _, isArray := t.Underlying().(*types.Array); isArray && o.TrackAll {
		isStruct = true // a local array is an aggregate of its elements
	}
	if isStruct {
		sub := map[string]AbsVal{}
		pre := p.Path + "."
		if p.Path == "" {
			pre = ""
		}
		for k, v := range o.Fields {
			if strings.HasPrefix(k, pre) && k != p.Path {
				sub[k[len(pre):]] = v
			}
		}
		return StructV{sub}
	}
	return Top{}
}

func (it *Interp) store(h Heap, p Ptr, val AbsVal, t types.Type) {
	o := h[p.Obj]
	if o == nil {
		return
	}
	_, isStruct := t.Underlying().(*types.Struct)
	if _, isArray := t.Underlying().(*types.Array); isArray && o.TrackAll {
		isStruct = true
	}
	if isStruct {
		pre := p.Path + "."
		if p.Path == "" {
			pre = ""
		}
		for k := range o.Fields {
			if strings.HasPrefix(k, pre) && (pre != "" || true) {
				delete(o.Fields, k)
			}
		}
		switch v := val.(type) {
		case StructV:
			for k, fv := range v.Fields {
				full := pre + k
				if o.TrackAll || it.resolve(o.Type, full).tracked {
					if !isTop(fv) {
						o.Fields[full] = fv
					}
				}
			}
		case zeroStruct:
			it.zeroInit(o, p.Path, t)
		}
		return
	}
	if o.TrackAll || it.resolve(o.Type, p.Path).tracked {
		if isTop(val) {
			delete(o.Fields, p.Path)
		} else {
			o.Fields[p.Path] = val
		}
	}
}

// typeAssert evaluates a TypeAssert; more than one result means a fork.
func (it *Interp) typeAssert(fn *ssa.Function, st *State, ins *ssa.TypeAssert, blk *ssa.BasicBlock, idx int) []AbsVal {
	x := it.eval(st, ins.X)
	mk := func(v AbsVal, ok bool) AbsVal {
		if ins.CommaOk {
			return TupleV{[]AbsVal{v, boolConst(ok)}}
		}
		return v
	}
	switch xv := x.(type) {
	case PoolGet:
		if pt, ok := ins.AssertedType.(*types.Pointer); ok {
			name := namedString(pt.Elem())
			if inv := it.Cfg.PoolInvariant; inv != nil {
				if leaves := inv(name); leaves != nil {
					id := fmt.Sprintf("P%d.%d", blk.Index, idx)
					o := &Object{Type: pt.Elem(), Fields: map[string]AbsVal{}}
					for k, v := range leaves {
						o.Fields[k] = v
					}
					st.Heap[id] = o
					return []AbsVal{mk(Ptr{id, ""}, true)}
				}
			}
		}
		it.undecided("sync.Pool object of unmodelled type in %s", fn)
		return []AbsVal{mk(Top{}, true)}
	case IfaceV:
		ok := false
		if types.IsInterface(ins.AssertedType) {
			ok = types.Implements(xv.Dyn, ins.AssertedType.Underlying().(*types.Interface))
			if ok {
				return []AbsVal{mk(xv, true)}
			}
		} else {
			ok = types.Identical(xv.Dyn, ins.AssertedType)
			if ok {
				return []AbsVal{mk(xv.V, true)}
			}
		}
		if ins.CommaOk {
			return []AbsVal{mk(zeroOf(ins.AssertedType), false)}
		}
		return []AbsVal{Top{}}
	case NilV:
		if ins.CommaOk {
			return []AbsVal{mk(zeroOf(ins.AssertedType), false)}
		}
	}
	if !ins.CommaOk {
		return []AbsVal{Top{}}
	}
	var succ AbsVal = Top{}
	switch ins.AssertedType.Underlying().(type) {
	case *types.Interface, *types.Pointer:
		succ = NonNil{}
	}
	return []AbsVal{mk(succ, true), mk(zeroOf(ins.AssertedType), false)}
}

func (BaseHooks) DynamicResult(*Ctx, ssa.Instruction, []AbsVal) (AbsVal, bool) { return nil, false }
