package engine

import (
	"fmt"
	"go/token"
	"go/types"
	"sort"
	"strings"

	"golang.org/x/tools/go/ssa"
)

// callDeferred executes one deferred call. inPanic tells whether the frame
// is unwinding (so that a direct recover() in the callee is effective).
func (it *Interp) callDeferred(fn *ssa.Function, st *State, d deferRec, inPanic bool) []callResult {
	return it.callWith(fn, st, d.call, d.call.Common(), d.args, d.callee, inPanic, true)
}

// call evaluates the operands of a call instruction and performs it.
func (it *Interp) call(fn *ssa.Function, st *State, instr ssa.CallInstruction, c *ssa.CallCommon, _ []AbsVal, _ AbsVal, framePanicCtx bool) []callResult {
	var args []AbsVal
	var calleeVal AbsVal
	if c.IsInvoke() {
		args = append(args, it.eval(st, c.Value))
	} else {
		switch c.Value.(type) {
		case *ssa.Function, *ssa.Builtin:
		default:
			calleeVal = it.eval(st, c.Value)
		}
	}
	for _, a := range c.Args {
		args = append(args, it.eval(st, a))
	}
	return it.callWith(fn, st, instr, c, args, calleeVal, framePanicCtx, false)
}

// callWith performs a call with already evaluated operands.
//   - for a normal call, ctxFlag is the panic context of the *current* frame
//     (needed by the recover builtin);
//   - for a deferred call, ctxFlag is whether the frame is unwinding, which
//     becomes the callee's panic context.
func (it *Interp) callWith(fn *ssa.Function, st *State, instr ssa.CallInstruction, c *ssa.CallCommon, args []AbsVal, calleeVal AbsVal, ctxFlag bool, deferred bool) []callResult {
	var callee *ssa.Function
	calleePanicCtx := false
	if deferred {
		calleePanicCtx = ctxFlag
	}
	if c.IsInvoke() {
		recv := args[0]
		if iv, ok := recv.(IfaceV); ok {
			callee = it.lookupMethod(iv.Dyn, c.Method)
			if callee != nil {
				args = append([]AbsVal{iv.V}, args[1:]...)
			}
		}
		if callee == nil {
			user := !sealedInterface(c.Value.Type())
			return it.unknownCall(fn, st, instr, args, resultArity(c), user)
		}
	} else {
		switch v := c.Value.(type) {
		case *ssa.Function:
			callee = v
		case *ssa.Builtin:
			return it.builtin(fn, st, instr, v, args, ctxFlag && !deferred, deferred && ctxFlag)
		default:
			if fv, ok := calleeVal.(FuncV); ok {
				callee = fv.Fn
				// free variables are bound through the frame below
				return it.clearRec(it.invoke(fn, st, instr, callee, args, fv.Bindings, calleePanicCtx), deferred)
			}
			return it.unknownCall(fn, st, instr, args, resultArity(c), true)
		}
	}
	return it.clearRec(it.invoke(fn, st, instr, callee, args, nil, calleePanicCtx), deferred)
}

// clearRec drops the callee's "recovered" flag for ordinary calls: only a
// deferred call made while unwinding can stop the caller's panic.
func (it *Interp) clearRec(rs []callResult, deferred bool) []callResult {
	if deferred {
		return rs
	}
	for i := range rs {
		rs[i].recovered = false
	}
	return rs
}

func resultArity(c *ssa.CallCommon) int {
	return c.Signature().Results().Len()
}

func topResult(n int) AbsVal {
	if n <= 1 {
		return Top{}
	}
	el := make([]AbsVal, n)
	for i := range el {
		el[i] = Top{}
	}
	return TupleV{el}
}

// sealedInterface reports whether t is an interface that code outside its
// declaring package cannot implement (it has unexported methods), e.g.
// reflect.Type. Calls through it never enter user code.
func sealedInterface(t types.Type) bool {
	it, ok := t.Underlying().(*types.Interface)
	if !ok {
		return false
	}
	for i := 0; i < it.NumMethods(); i++ {
		if !it.Method(i).Exported() {
			return true
		}
	}
	return false
}

func (it *Interp) lookupMethod(dyn types.Type, m *types.Func) *ssa.Function {
	ms := it.Cfg.Prog.MethodSets.MethodSet(dyn)
	sel := ms.Lookup(m.Pkg(), m.Name())
	if sel == nil {
		return nil
	}
	return it.Cfg.Prog.MethodValue(sel)
}

// invoke calls a statically known function.
func (it *Interp) invoke(fn *ssa.Function, st *State, instr ssa.CallInstruction, callee *ssa.Function, args []AbsVal, bindings []AbsVal, calleePanicCtx bool) []callResult {
	if it.Cfg.Hooks != nil {
		if handled, ret := it.Cfg.Hooks.OnCall(it.ctx(fn, st), instr, callee, args); handled {
			return []callResult{{heap: st.Heap, ret: ret}}
		}
	}
	if !it.Cfg.InModule(callee) || callee.Blocks == nil {
		return it.external(fn, st, instr, callee, args)
	}
	// synthetic wrappers (promoted methods, bound methods) have bodies too.
	all := args
	if len(bindings) > 0 {
		all = append(append([]AbsVal{}, args...), bindings...)
	}
	// constants that the callee cannot branch on or store are abstracted
	// away (fewer distinct entries).
	args = append([]AbsVal{}, args...)
	for i, a := range args {
		if _, isConst := a.(Const); isConst && i < len(callee.Params) {
			if !it.paramRelevant(callee.Params[i]) {
				args[i] = Top{}
			}
		}
	}
	all = args
	if len(bindings) > 0 {
		all = append(append([]AbsVal{}, args...), bindings...)
	}
	// canonicalise the visible part of the reachable heap: an interior
	// pointer exposes only the leaves below it (frame rule).
	order, vis := visible(st.Heap, all)
	// ambient objects (the analysis's own model state, addressed by name from
	// the hooks) accompany every call under their own name
	ambient := map[string]bool{}
	for _, id := range it.Cfg.Ambient {
		if _, ok := st.Heap[id]; ok {
			ambient[id] = true
			if len(vis[id]) == 0 {
				order = append(order, id)
			}
			vis[id] = []string{""}
		}
	}
	fwd := map[string]string{}
	back := map[string]string{}
	for i, id := range order {
		n := fmt.Sprintf("in%d", i)
		if ambient[id] {
			n = id
		}
		fwd[id] = n
		back[n] = id
	}
	ch := Heap{}
	for _, id := range order {
		o := st.Heap[id]
		no := &Object{Type: o.Type, TrackAll: o.TrackAll, Fields: make(map[string]AbsVal, len(o.Fields))}
		for k, v := range o.Fields {
			if under(k, vis[id]) {
				no.Fields[k] = rename(v, fwd)
			}
		}
		ch[fwd[id]] = no
	}
	cargs := make([]AbsVal, len(args))
	for i, a := range args {
		cargs[i] = rename(a, fwd)
	}
	var cbind []AbsVal
	for _, b := range bindings {
		cbind = append(cbind, rename(b, fwd))
	}
	it.stack = append(it.stack, instr)
	sum := it.analyzeB(callee, cargs, cbind, ch, calleePanicCtx)
	it.stack = it.stack[:len(it.stack)-1]
	it.seenDep(sum)

	tag := callTag(instr)
	var out []callResult
	for _, o := range sum.SortedOutcomes() {
		// import: rename callee-fresh objects, keep only the reachable ones.
		nb := map[string]string{}
		for k, v := range back {
			nb[k] = v
		}
		var roots []AbsVal
		roots = append(roots, o.Ret)
		for _, id := range order {
			roots = append(roots, Ptr{fwd[id], ""})
		}
		keep := reachable(o.Heap, roots)
		for _, id := range keep {
			if _, ok := nb[id]; !ok {
				nb[id] = tag + "/" + id
			}
		}
		nh := Heap{}
		for id, obj := range st.Heap {
			if _, passed := fwd[id]; !passed {
				nh[id] = obj.clone()
			}
		}
		for _, id := range keep {
			obj := o.Heap[id]
			no := &Object{Type: obj.Type, TrackAll: obj.TrackAll, Fields: make(map[string]AbsVal, len(obj.Fields))}
			for k, v := range obj.Fields {
				no.Fields[k] = rename(v, nb)
			}
			if orig, passed := back[id]; passed {
				// leaves the callee could not see are unchanged
				for k, v := range st.Heap[orig].Fields {
					if !under(k, vis[orig]) {
						no.Fields[k] = v
					}
				}
			}
			nh[nb[id]] = no
		}
		res := callResult{heap: nh, ret: rename(o.Ret, nb), exc: o.Exc, recovered: o.Recovered}
		if it.Cfg.Hooks != nil {
			it.Cfg.Hooks.AfterCall(&Ctx{It: it, Fn: fn, Heap: nh, Stack: it.stack, Frame: st}, instr, callee, args, st.Heap, nh, o.Exc)
		}
		out = append(out, res)
	}
	return out
}

func callTag(instr ssa.Instruction) string {
	if cb, ok := instr.(cbInstr); ok {
		return "cb:" + cb.m.Name()
	}
	b := instr.Block()
	for i, in := range b.Instrs {
		if in == instr {
			return fmt.Sprintf("c%d.%d", b.Index, i)
		}
	}
	return "c?"
}

// under reports whether leaf path k lies below one of the prefixes.
func under(k string, prefixes []string) bool {
	for _, p := range prefixes {
		if p == "" || k == p || strings.HasPrefix(k, p+".") {
			return true
		}
	}
	return false
}

// visible computes, for the objects reachable from roots, the path prefixes
// through which they are reachable, in deterministic order.
func visible(h Heap, roots []AbsVal) ([]string, map[string][]string) {
	vis := map[string][]string{}
	var order []string
	type ap struct{ obj, path string }
	var work []ap
	addRefs := func(v AbsVal) {
		var walk func(v AbsVal)
		walk = func(v AbsVal) {
			switch x := v.(type) {
			case Ptr:
				work = append(work, ap{x.Obj, x.Path})
			case SliceOf:
				work = append(work, ap{x.Obj, sliceOwner(x.Path)})
			case LenOf:
				work = append(work, ap{x.S.Obj, sliceOwner(x.S.Path)})
			case StructV:
				ks := make([]string, 0, len(x.Fields))
				for k := range x.Fields {
					ks = append(ks, k)
				}
				sort.Strings(ks)
				for _, k := range ks {
					walk(x.Fields[k])
				}
			case TupleV:
				for _, e := range x.Elems {
					walk(e)
				}
			case FuncV:
				for _, b := range x.Bindings {
					walk(b)
				}
			case IfaceV:
				walk(x.V)
			}
		}
		walk(v)
	}
	for _, r := range roots {
		addRefs(r)
	}
	for len(work) > 0 {
		a := work[0]
		work = work[1:]
		o := h[a.obj]
		if o == nil {
			continue
		}
		if under(a.path, vis[a.obj]) && len(vis[a.obj]) > 0 {
			continue
		}
		if _, seen := vis[a.obj]; !seen {
			order = append(order, a.obj)
		}
		// drop prefixes subsumed by the new one
		var np []string
		for _, p := range vis[a.obj] {
			if !under(p, []string{a.path}) {
				np = append(np, p)
			}
		}
		vis[a.obj] = append(np, a.path)
		ks := make([]string, 0, len(o.Fields))
		for k := range o.Fields {
			if under(k, []string{a.path}) {
				ks = append(ks, k)
			}
		}
		sort.Strings(ks)
		for _, k := range ks {
			addRefs(o.Fields[k])
		}
	}
	for _, ps := range vis {
		sort.Strings(ps)
	}
	return order, vis
}

// sliceOwner: the struct that owns a slice field (its ghosts travel with it).
func sliceOwner(path string) string {
	if i := strings.LastIndex(path, "."); i >= 0 {
		return path[:i]
	}
	return ""
}

// paramRelevant reports whether the callee can branch on, store or forward
// parameter p (so that a constant argument is worth keeping).
func (it *Interp) paramRelevant(p *ssa.Parameter) bool {
	switch it.relevant[p] {
	case 1:
		return true
	case 2:
		return false
	}
	it.relevant[p] = 1 // cycles: conservative
	res := false
	var visit func(v ssa.Value, depth int)
	visit = func(v ssa.Value, depth int) {
		if res || depth > 4 {
			if depth > 4 {
				res = true
			}
			return
		}
		refs := v.Referrers()
		if refs == nil {
			return
		}
		for _, r := range *refs {
			switch r := r.(type) {
			case *ssa.BinOp:
				switch r.Op {
				case token.EQL, token.NEQ, token.LSS, token.LEQ, token.GTR, token.GEQ:
					res = true
				}
			case *ssa.If, *ssa.Store, *ssa.Phi, *ssa.Return, *ssa.MakeClosure, *ssa.Defer, *ssa.UnOp:
				res = true
			case *ssa.Convert:
				visit(r, depth+1)
			case *ssa.ChangeType:
				visit(r, depth+1)
			case *ssa.MakeInterface:
				visit(r, depth+1)
			case *ssa.Call:
				c := r.Common()
				f := c.StaticCallee()
				if f == nil || f.Blocks == nil || !it.Cfg.InModule(f) {
					if _, isB := c.Value.(*ssa.Builtin); isB {
						res = true // copy/append of a marker constant etc.
					}
					if it.Cfg.NoMerge {
						res = true // exact runs: the hooks model library calls on the constants they receive
					}
					continue
				}
				for i, a := range c.Args {
					if a == v && i < len(f.Params) {
						if it.paramRelevant(f.Params[i]) {
							res = true
						}
					}
				}
			}
			if res {
				return
			}
		}
	}
	visit(p, 0)
	if res {
		it.relevant[p] = 1
	} else {
		it.relevant[p] = 2
	}
	return res
}

// reachable lists object ids reachable from roots, in deterministic DFS order.
func reachable(h Heap, roots []AbsVal) []string {
	var order []string
	seen := map[string]bool{}
	var visit func(id string)
	visit = func(id string) {
		if seen[id] {
			return
		}
		o := h[id]
		if o == nil {
			return
		}
		seen[id] = true
		order = append(order, id)
		ks := make([]string, 0, len(o.Fields))
		for k := range o.Fields {
			ks = append(ks, k)
		}
		sort.Strings(ks)
		for _, k := range ks {
			var rs []string
			refs(o.Fields[k], &rs)
			for _, r := range rs {
				visit(r)
			}
		}
	}
	for _, r := range roots {
		var rs []string
		refs(r, &rs)
		for _, id := range rs {
			visit(id)
		}
	}
	return order
}

// external models a call to a function outside the module.
func (it *Interp) external(fn *ssa.Function, st *State, instr ssa.CallInstruction, callee *ssa.Function, args []AbsVal) []callResult {
	name := callee.String()
	switch name {
	case "(*sync.Pool).Get":
		return []callResult{{heap: st.Heap, ret: PoolGet{}}}
	case "(*sync.Pool).Put":
		return []callResult{{heap: st.Heap, ret: Top{}}}
	}
	n := callee.Signature.Results().Len()
	// Library code that receives a reference to an object with exported
	// methods may call them back (fmt.Fprint(w=printer, ...)).
	if given := it.callbackTargets(st.Heap, args); len(given) > 0 {
		return it.callbackClosure(fn, st, instr, given, n, false)
	}
	return []callResult{{heap: st.Heap, ret: topResult(n)}}
}

// unknownCall models a call whose target is not known statically.
func (it *Interp) unknownCall(fn *ssa.Function, st *State, instr ssa.CallInstruction, args []AbsVal, nres int, userCode bool) []callResult {
	if it.Cfg.Hooks != nil {
		it.Cfg.Hooks.OnDynamic(it.ctx(fn, st), instr, args, userCode)
		if ret, handled := it.Cfg.Hooks.DynamicResult(it.ctx(fn, st), instr, args); handled {
			return []callResult{{heap: st.Heap, ret: ret}}
		}
	}
	mayPanic := userCode || it.Cfg.Wide
	if given := it.callbackTargets(st.Heap, args); len(given) > 0 {
		return it.callbackClosure(fn, st, instr, given, nres, mayPanic)
	}
	out := []callResult{{heap: st.Heap, ret: topResult(nres)}}
	if mayPanic {
		out = append(out, callResult{heap: st.Heap.clone(), ret: Top{}, exc: true})
	}
	return out
}

// callbackTargets lists the objects referenced by args whose pointer type
// has exported methods implemented in the module.
func (it *Interp) callbackTargets(h Heap, args []AbsVal) []Ptr {
	var out []Ptr
	seen := map[string]bool{}
	var scan func(v AbsVal)
	scan = func(v AbsVal) {
		switch v := v.(type) {
		case Ptr:
			if seen[v.Key()] {
				return
			}
			seen[v.Key()] = true
			o := h[v.Obj]
			if o == nil || v.Path != "" {
				return
			}
			if len(it.exportedMethods(types.NewPointer(o.Type))) > 0 {
				out = append(out, v)
			}
		case IfaceV:
			scan(v.V)
		case StructV:
			for _, f := range v.Fields {
				scan(f)
			}
		}
	}
	for _, a := range args {
		scan(a)
	}
	return out
}

func (it *Interp) exportedMethods(t types.Type) []*ssa.Function {
	ms := it.Cfg.Prog.MethodSets.MethodSet(t)
	var out []*ssa.Function
	for i := 0; i < ms.Len(); i++ {
		sel := ms.At(i)
		if !sel.Obj().Exported() {
			continue
		}
		f := it.Cfg.Prog.MethodValue(sel)
		if f == nil || !it.Cfg.InModule(f) {
			continue
		}
		out = append(out, f)
	}
	return out
}

// callbackClosure: code outside the module holds references to the given
// objects for the duration of the call and may invoke any finite sequence of
// their exported methods with arbitrary arguments, recover panics coming out
// of them, and return or panic at any point.
func (it *Interp) callbackClosure(fn *ssa.Function, st *State, instr ssa.CallInstruction, given []Ptr, nres int, mayPanic bool) []callResult {
	type cfgState struct{ heap Heap }
	seen := map[string]Heap{}
	var order []string
	add := func(h Heap) bool {
		k := h.key()
		if _, ok := seen[k]; ok {
			return false
		}
		seen[k] = h
		order = append(order, k)
		return true
	}
	add(st.Heap)
	for i := 0; i < len(order); i++ {
		h := seen[order[i]]
		for _, g := range given {
			o := h[g.Obj]
			if o == nil {
				continue
			}
			for _, m := range it.exportedMethods(types.NewPointer(o.Type)) {
				args := make([]AbsVal, len(m.Params))
				args[0] = g
				for j := 1; j < len(args); j++ {
					args[j] = Top{}
				}
				tmp := &State{Entry: st.Entry, Regs: st.Regs, Heap: h.clone(), Defers: nil}
				it.Record(Event{Kind: "callback", Instr: instr, Fn: fn, Detail: map[string]string{"method": m.String()}})
				for _, r := range it.invoke(fn, tmp, cbInstr{instr, m}, m, args, nil, false) {
					add(r.heap)
				}
			}
		}
		if len(order) > 5000 {
			it.undecided("callback closure too large at %s", siteString(instr))
			break
		}
	}
	var out []callResult
	for _, k := range order {
		out = append(out, callResult{heap: seen[k], ret: topResult(nres)})
		if mayPanic {
			out = append(out, callResult{heap: seen[k].clone(), ret: Top{}, exc: true})
		}
	}
	return out
}

// cbInstr stands for "the call of method m made by outside code during
// instr"; it only serves as a distinct call-site tag.
type cbInstr struct {
	ssa.CallInstruction
	m *ssa.Function
}

func (c cbInstr) String() string { return "callback " + c.m.String() }

// Inner returns the call during which the callback happens.
func (c cbInstr) Inner() ssa.Instruction { return c.CallInstruction }

// IsCallback reports whether the stack entry is a modelled callback.
func IsCallback(i ssa.Instruction) (*ssa.Function, bool) {
	if c, ok := i.(cbInstr); ok {
		return c.m, true
	}
	return nil, false
}

func (it *Interp) builtin(fn *ssa.Function, st *State, instr ssa.CallInstruction, b *ssa.Builtin, args []AbsVal, framePanicCtx bool, deferredInPanic bool) []callResult {
	switch b.Name() {
	case "recover":
		// Effective only when called directly by a deferred function while
		// its caller is unwinding, and only once.
		if deferredInPanic {
			// `defer recover()` itself: recovers.
			return []callResult{{heap: st.Heap, ret: NonNil{}, recovered: true}}
		}
		if framePanicCtx {
			if _, done := st.Regs[recoveredMarker]; !done {
				return []callResult{{heap: st.Heap, ret: NonNil{}, recovered: true}}
			}
		}
		return []callResult{{heap: st.Heap, ret: NilV{}}}
	case "len":
		if len(args) == 1 {
			if so, ok := args[0].(SliceOf); ok {
				return []callResult{{heap: st.Heap, ret: LenOf{so}}}
			}
		}
	case "copy", "append":
		if it.Cfg.Hooks != nil {
			it.Cfg.Hooks.OnBuiltin(it.ctx(fn, st), instr, b.Name(), args)
		}
		if b.Name() == "append" && len(args) > 0 {
			if v := instr.Value(); v != nil {
				if hv, ok := it.valueHook(fn, st, v, args...); ok {
					return []callResult{{heap: st.Heap, ret: hv}}
				}
			}
			if so, ok := args[0].(SliceOf); ok {
				return []callResult{{heap: st.Heap, ret: so}}
			}
		}
	}
	return []callResult{{heap: st.Heap, ret: Top{}}}
}

// DescribeStack renders the current call chain.
func DescribeStack(stack []ssa.Instruction) string {
	var parts []string
	for _, s := range stack {
		parts = append(parts, siteString(s))
	}
	return strings.Join(parts, " -> ")
}
