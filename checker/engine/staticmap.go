package engine

import (
	"go/constant"
	"go/types"

	"golang.org/x/tools/go/ssa"
	"golang.org/x/tools/go/ssa/ssautil"
)

// A package-level map that the package initialiser fills from constants and
// that nothing else in the program can write (no other store to the variable,
// no update, delete or escape of the map value loaded from it) is a constant
// table: a lookup with a constant key has one result.

type staticMap struct {
	ok      bool
	entries map[string]constant.Value // key: ExactString of the constant key
}

var staticMaps = map[*ssa.Global]*staticMap{}

func staticMapOf(g *ssa.Global) *staticMap {
	if m, ok := staticMaps[g]; ok {
		return m
	}
	m := &staticMap{entries: map[string]constant.Value{}}
	staticMaps[g] = m
	if g.Pkg == nil {
		return m
	}
	init := g.Pkg.Func("init")
	if init == nil {
		return m
	}
	// the one store in the initialiser
	var mk ssa.Value
	stores := 0
	for fn := range ssautil.AllFunctions(g.Pkg.Prog) {
		for _, b := range fn.Blocks {
			for _, ins := range b.Instrs {
				for _, op := range ins.Operands(nil) {
					if *op != ssa.Value(g) {
						continue
					}
					switch x := ins.(type) {
					case *ssa.Store:
						if x.Addr == ssa.Value(g) && fn == init {
							stores++
							mk = x.Val
							continue
						}
						return m
					case *ssa.UnOp:
						// a load: every use of the loaded map must only read it
						if refs := x.Referrers(); refs != nil {
							for _, r := range *refs {
								switch u := r.(type) {
								case *ssa.Lookup:
									if u.X != ssa.Value(x) {
										return m
									}
								case *ssa.Range, *ssa.DebugRef:
								case *ssa.Call:
									bi, isBi := u.Call.Value.(*ssa.Builtin)
									if !isBi || bi.Name() != "len" {
										return m
									}
								default:
									return m
								}
							}
						}
					default:
						return m
					}
				}
			}
		}
	}
	mm, isMk := mk.(*ssa.MakeMap)
	if stores != 1 || !isMk || mm.Parent() != init {
		return m
	}
	if refs := mm.Referrers(); refs != nil {
		for _, r := range *refs {
			switch u := r.(type) {
			case *ssa.MapUpdate:
				k, ok1 := u.Key.(*ssa.Const)
				v, ok2 := u.Value.(*ssa.Const)
				if u.Map != ssa.Value(mm) || !ok1 || !ok2 || k.Value == nil || v.Value == nil {
					return m
				}
				m.entries[k.Value.ExactString()] = v.Value
			case *ssa.Store:
				if u.Val != ssa.Value(mm) || u.Addr != ssa.Value(g) {
					return m
				}
			case *ssa.DebugRef:
			default:
				return m
			}
		}
	}
	m.ok = true
	return m
}

// staticLookup evaluates m[key] on a constant table.
func staticLookup(ins *ssa.Lookup, key Const) (AbsVal, bool) {
	ld, ok := ins.X.(*ssa.UnOp)
	if !ok {
		return nil, false
	}
	g, ok := ld.X.(*ssa.Global)
	if !ok {
		return nil, false
	}
	m := staticMapOf(g)
	if !m.ok || key.V == nil {
		return nil, false
	}
	mt, ok := g.Type().(*types.Pointer).Elem().Underlying().(*types.Map)
	if !ok {
		return nil, false
	}
	v, found := m.entries[key.V.ExactString()]
	if !found {
		b, ok := mt.Elem().Underlying().(*types.Basic)
		if !ok {
			return nil, false
		}
		switch {
		case b.Info()&types.IsString != 0:
			v = constant.MakeString("")
		case b.Info()&types.IsBoolean != 0:
			v = constant.MakeBool(false)
		case b.Info()&types.IsInteger != 0:
			v = constant.MakeInt64(0)
		default:
			return nil, false
		}
	}
	if ins.CommaOk {
		return TupleV{Elems: []AbsVal{Const{V: v}, Const{V: constant.MakeBool(found)}}}, true
	}
	return Const{V: v}, true
}
