// Package report holds obligations, findings, evidence and known-finding
// plumbing shared by all rule sets.
package report

import (
	"encoding/json"
	"fmt"
	"os"
	"path/filepath"
	"sort"
	"strings"
)

// Finding is one violated obligation.
type Finding struct {
	Rule      string   `json:"rule"`
	Construct string   `json:"construct"` // stable key: package.function / construct
	Pos       string   `json:"pos"`
	Msg       string   `json:"msg"`
	Chain     []string `json:"chain,omitempty"`
	Config    string   `json:"config,omitempty"`
}

// Result is the outcome of one rule.
type Result struct {
	Rule        string    `json:"rule"`
	Text        string    `json:"text"`
	Obligations int       `json:"obligations"`
	Discharged  int       `json:"discharged"`
	Floor       int       `json:"floor"`
	Analysed    string    `json:"analysed,omitempty"`
	Samples     []string  `json:"samples,omitempty"`
	Findings    []Finding `json:"findings,omitempty"`
	Undecided   []string  `json:"undecided,omitempty"`
	Notes       []string  `json:"notes,omitempty"`
	seen        map[string]bool
}

func NewResult(rule, text string, floor int) *Result {
	return &Result{Rule: rule, Text: text, Floor: floor, seen: map[string]bool{}}
}

// Ok records a discharged obligation.
func (r *Result) Ok(sample string) {
	r.Obligations++
	r.Discharged++
	if len(r.Samples) < 6 && sample != "" {
		r.Samples = append(r.Samples, sample)
	}
}

// Fail records a violated obligation (deduplicated by construct+msg).
func (r *Result) Fail(construct, pos, msg string, chain []string, config string) {
	k := construct + "|" + msg
	if r.seen == nil {
		r.seen = map[string]bool{}
	}
	r.Obligations++
	if r.seen[k] {
		return
	}
	r.seen[k] = true
	r.Findings = append(r.Findings, Finding{Rule: r.Rule, Construct: construct, Pos: pos, Msg: msg, Chain: chain, Config: config})
}

// Check is Ok or Fail depending on cond.
func (r *Result) Check(cond bool, construct, pos, msg string) {
	if cond {
		r.Ok(construct)
	} else {
		r.Fail(construct, pos, msg, nil, "")
	}
}

func (r *Result) Undecide(msg string) { r.Undecided = append(r.Undecided, msg) }
func (r *Result) Note(msg string)     { r.Notes = append(r.Notes, msg) }

// Known is one entry of known_findings.json.
type Known struct {
	Property  string `json:"property"`
	Rule      string `json:"rule"`
	Construct string `json:"construct"`
	What      string `json:"what"`
	Status    string `json:"status"` // "known" or "fixed"
	Commit    string `json:"commit,omitempty"`
}

func LoadKnown(path string) ([]Known, error) {
	b, err := os.ReadFile(path)
	if err != nil {
		if os.IsNotExist(err) {
			return nil, nil
		}
		return nil, err
	}
	var ks []Known
	if err := json.Unmarshal(b, &ks); err != nil {
		return nil, err
	}
	return ks, nil
}

// Verdict summarises a property run.
type Verdict struct {
	Property   string
	Tier       string
	Results    []*Result
	Violations []Finding
	KnownHits  []Known
	Undecided  []string
	Vacuous    []string
}

// Decide classifies findings against the known list.
func Decide(prop, tier string, results []*Result, known []Known) *Verdict {
	v := &Verdict{Property: prop, Tier: tier, Results: results}
	for _, r := range results {
		for _, u := range r.Undecided {
			v.Undecided = append(v.Undecided, r.Rule+": "+u)
		}
		if r.Obligations < r.Floor {
			v.Vacuous = append(v.Vacuous, fmt.Sprintf("%s: %d obligations, floor %d (rule went vacuous)", r.Rule, r.Obligations, r.Floor))
		}
		for _, f := range r.Findings {
			matched := false
			for _, k := range known {
				if k.Status == "known" && k.Property == prop && k.Rule == f.Rule && k.Construct == f.Construct {
					dup := false
					for _, h := range v.KnownHits {
						if h == k {
							dup = true
						}
					}
					if !dup {
						v.KnownHits = append(v.KnownHits, k)
					}
					matched = true
					break
				}
			}
			if !matched {
				v.Violations = append(v.Violations, f)
			}
		}
	}
	return v
}

// Emit prints verdict lines, writes replay files and the evidence file, and
// returns the process exit code.
func (v *Verdict) Emit(evidenceDir string, wall float64, seed int, extra map[string]interface{}) int {
	os.MkdirAll(filepath.Join(evidenceDir, "violations"), 0o755)
	// stale replay files of this property are removed first
	old, _ := filepath.Glob(filepath.Join(evidenceDir, "violations", v.Property+"-*.json"))
	for _, o := range old {
		os.Remove(o)
	}
	for _, k := range v.KnownHits {
		fmt.Printf("KNOWN-FINDING: property=%s %s [%s %s]\n", v.Property, k.What, k.Rule, k.Construct)
	}
	code := 0
	for i, f := range v.Violations {
		path := filepath.Join(evidenceDir, "violations", fmt.Sprintf("%s-%d.json", v.Property, i+1))
		b, _ := json.MarshalIndent(map[string]interface{}{"property": v.Property, "finding": f}, "", " ")
		os.WriteFile(path, b, 0o644)
		fmt.Printf("VIOLATION property=%s replay=%s\n", v.Property, path)
		fmt.Printf("  rule %s at %s: %s\n  construct: %s\n", f.Rule, f.Pos, f.Msg, f.Construct)
		if f.Config != "" {
			fmt.Printf("  configuration: %s\n", f.Config)
		}
		if len(f.Chain) > 0 {
			fmt.Printf("  reached through: %s\n", strings.Join(f.Chain, " -> "))
		}
		code = 1
	}
	// a rule that cannot decide, or that no longer finds what it is about, has
	// not shown the property: reported as a violation of its own kind (with a
	// replay file like any other), never as a pass
	n := len(v.Violations)
	for _, u := range v.Undecided {
		n++
		path := filepath.Join(evidenceDir, "violations", fmt.Sprintf("%s-%d.json", v.Property, n))
		b, _ := json.MarshalIndent(map[string]interface{}{"property": v.Property, "undecided": u}, "", " ")
		os.WriteFile(path, b, 0o644)
		fmt.Printf("VIOLATION property=%s replay=%s\n", v.Property, path)
		fmt.Printf("UNDECIDED property=%s %s\n", v.Property, u)
		code = 1
	}
	for _, u := range v.Vacuous {
		n++
		path := filepath.Join(evidenceDir, "violations", fmt.Sprintf("%s-%d.json", v.Property, n))
		b, _ := json.MarshalIndent(map[string]interface{}{"property": v.Property, "vacuous": u}, "", " ")
		os.WriteFile(path, b, 0o644)
		fmt.Printf("VIOLATION property=%s replay=%s\n", v.Property, path)
		fmt.Printf("VACUOUS property=%s %s\n", v.Property, u)
		code = 1
	}
	obl, dis := 0, 0
	var samples []interface{}
	var rules []map[string]interface{}
	for _, r := range v.Results {
		obl += r.Obligations
		dis += r.Discharged
		for _, s := range r.Samples {
			if len(samples) < 40 {
				samples = append(samples, r.Rule+": "+s)
			}
		}
		rules = append(rules, map[string]interface{}{
			"rule": r.Rule, "text": r.Text, "obligations": r.Obligations, "discharged": r.Discharged,
			"floor": r.Floor, "analysed": r.Analysed, "findings": r.Findings, "notes": r.Notes,
		})
		fmt.Printf("  %-7s %4d/%-4d obligations discharged (floor %d) %s\n", r.Rule, r.Discharged, r.Obligations, r.Floor, r.Analysed)
	}
	if len(samples) == 0 {
		samples = append(samples, "no obligations")
	}
	cov := map[string]interface{}{
		"explanation": "static analysis of /repo's current source: each rule is applied to every matching construct; an obligation is one (rule, construct, configuration) instance; 'discharged' counts those that hold. No code of /repo is executed.",
		"obligations": obl,
		"discharged":  dis,
		"evaluations": obl,
		"distinct_nontrivial": distinct(v.Results),
		"rule":        "obligations are enumerated from the type-checked program (AST/SSA/call graph/abstract configurations); distinct = distinct (rule, construct) keys",
		"samples":     samples,
		"rules":       rules,
		"known_findings_reported": len(v.KnownHits),
		"checker_cmd": strings.Join(os.Args, " "),
		"trusted_base": []string{"go/types", "go/ssa (x/tools v0.29.0)", "regexp/syntax parser", "abstraction assumptions listed under assumptions"},
	}
	for k, x := range extra {
		cov[k] = x
	}
	ev := map[string]interface{}{
		"property_id": v.Property,
		"tier":        v.Tier,
		"seed":        seed,
		"level":       "other",
		"coverage":    cov,
		"wall_s":      wall,
		"violations":  len(v.Violations),
		"assumptions": assumptions(extra),
	}
	b, _ := json.MarshalIndent(ev, "", " ")
	if err := os.WriteFile(filepath.Join(evidenceDir, v.Property+".json"), b, 0o644); err != nil {
		fmt.Println("cannot write evidence:", err)
		return 2
	}
	if code == 0 {
		fmt.Printf("OK property=%s tier=%s obligations=%d discharged=%d known_findings=%d\n", v.Property, v.Tier, obl, dis, len(v.KnownHits))
	}
	return code
}

func assumptions(extra map[string]interface{}) []string {
	base := []string{
		"user code reaches a printer only through its exported methods (all fields are unexported)",
		"panics are modelled at calls that can enter user code and at explicit panic statements outside package buffer; memory exhaustion is outside the claim",
		"A-empty: an open envelope implies a non-empty buffer",
	}
	if a, ok := extra["assumptions"].([]string); ok {
		base = append(base, a...)
		delete(extra, "assumptions")
	}
	return base
}

func distinct(rs []*Result) int {
	set := map[string]bool{}
	for _, r := range rs {
		for _, s := range r.Samples {
			set[r.Rule+s] = true
		}
		// every obligation has a distinct construct key by construction;
		// count conservatively as discharged+findings per rule.
	}
	n := 0
	for _, r := range rs {
		n += r.Discharged + len(r.Findings)
	}
	if n < len(set) {
		n = len(set)
	}
	return n
}

// SortFindings orders findings deterministically.
func SortFindings(fs []Finding) {
	sort.Slice(fs, func(i, j int) bool {
		if fs[i].Rule != fs[j].Rule {
			return fs[i].Rule < fs[j].Rule
		}
		return fs[i].Construct < fs[j].Construct
	})
}
