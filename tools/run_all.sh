#!/bin/bash
# Runs every claimed check (tier $1, default quick) against /repo, 6 at a time.
cd /verif
TIER=${1:-quick}
(cd checker && GOFLAGS=-mod=mod GOPROXY=off GOSUMDB=off GOTOOLCHAIN=local GOWORK=off go build -o ../bin/redactcheck ./cmd/redactcheck) || exit 2
IDS=$(python3 -c "import json;print(' '.join(c['property_id'] for c in json.load(open('MANIFEST.json'))['checks']))")
mkdir -p /tmp/runall
for id in $IDS; do
  echo $id
done | xargs -P ${PAR:-6} -I{} sh -c "./bin/redactcheck -p {} -tier $TIER > /tmp/runall/{}.out 2>&1; echo {} exit=\$? \$(tail -1 /tmp/runall/{}.out | cut -c1-120)"
