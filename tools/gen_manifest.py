#!/usr/bin/env python3
"""Regenerates /verif/MANIFEST.json from the rule table of the checker.
Claimed properties = keys of CLAIMS; every other property of
properties.jsonl is listed under not_applicable with its reason."""
import json, re, sys

TECH_A = "static analysis: path-sensitive typestate dataflow over go/ssa (abstract interpretation over a finite tracked state, with summaries, defers, panic edges and modelled user callbacks)"
TECH_AB = TECH_A + " + explicit-flow provenance labels on SSA values"
TECH_D = "static analysis: repository-specific structural rules over the type-checked AST / SSA (dominance, table agreement, constant folding)"

CLAIMS = {
 "C01": ("Decides the non-arithmetic part of well-formedness: (C01.a) the marker/mode protocol of the buffer, proved inductively over every exported Buffer method and every entry configuration; (C01.b) only redactable payloads are written in raw mode; (C01.d) every printer function restores mode/override on every normal and panicking exit; (C05.b) literal text is written in an escaped safe mode. Does not decide the byte arithmetic of the escape scanner.", "§5 C01", TECH_AB),
 "C16": ("All entry points follow one protocol around doPrint*/doPrintf with the caller's arguments unchanged (C16.a), F* variants deliver one Write of the taken bytes and return the writer's results (C16.b), the builder route sets raw mode then prints into its own buffer (C16.c), the nested route borrows and hands back the buffer and is cleared before free (C16.d), the argument-list printers are never entered under the safe override of an enclosing operand (C16.e). Equality up to merging of adjacent envelopes is not decided.", "§5 C16", TECH_D),
 "C17": ("Dispatch order in the method dispatcher by CFG edge-cut reachability (C17.a), arguments handed to the hook and to SafeFormat/Format incl. the %w rewrite (C17.b), dispatcher reached on all three detection routes (C17.c), bypass under Unsafe in every reachable configuration (C06.e), who writes/reads the hook variable (C17.e), registration stores the user's function and is exposed by the root package (C17.f), containment of hook panics (C11.c, C11.g). What an installed hook renders is user code.", "§5 C17", TECH_D + " + Engine A events"),
 "C02": ("Static non-interference for explicit flows: (C02.a) no operand-derived value reaches a buffer write outside unsafe mode unless a safe override is in force, for every (kind, verb) branch and every reachable configuration. Implicit flows and the numeric renderings are not decided.", "§5 C02", TECH_AB),
 "C03": ("(C03.a) line splitting is requested exactly when unsafe data is sealed, in every reachable buffer configuration; with C01.a/I2 every envelope is escaped-and-split before it is closed. The splitter's byte arithmetic is not decided.", "§5 C03", TECH_A),
 "C04": ("(C04.a) the import base reconstructed by undoing the recorded patch (fmtsort/sort.go verbatim) equals, function by function, the standard library's fmt (or differs from it exactly by the recorded upstream evolution); (C04.a3) after erasing the instrumentation forms every function of the fork is identical (i) to the import base's and (ii) — without using the recorded patch, so a stale .diff is noted and not reported — to the reference fmt's up to the recorded evolution, i.e. the fork classifies output but does not change what fmt computes; (C04.b) writePadding, which the fork rewrote, emits exactly n pad bytes. A sufficient-side cross-check of the fork's own mechanism for fidelity; it says nothing about Go versions other than the two reference toolchains.", "§5 C04", "static analysis: fork conformance — reverse application of the recorded patch, function-by-function comparison of the normalised import base with the reference fmt sources (cross-checking siblings), structural SSA rule for writePadding"),
 "C05": ("Both directions of the classification at the granularity of write events: nothing tainted outside (C02.a), no public text inside envelopes (C05.b), full rendering of safe values visible (C05.c), state restored after every leaf at every depth on every exit (C01.d); declassifiers are exactly the sanctioned tests (C02.b) and a recognised wrapper is acted upon (C06.g); the registry is consulted with the dynamic type on all routes (C05.e, C05.g) and registration through the public API is effective (C17.f).", "§5 C05", TECH_AB),
 "C06": ("The override discipline over every re-entrant path: (C06.a) every write under an effective unsafe context (own or borrowed through nested printers) is enveloped; (C05.c) safe override keeps writes visible; (C06.c) outermost wins in the four start* helpers; (C06.e) redact-specific dispatch is bypassed under Unsafe(); (C06.g) where a wrapper type is recognised the override of its side is installed before anything is printed, restored by a deferred call, the content (field 0, one level deeper) is printed and the operand reported as handled.", "§5 C06", TECH_AB),
 "C07": ("Decides the two marker patterns as regular languages (DFA construction from regexp/syntax, equivalence with start·(Σ∖{start,end})*·end and {start,end}, prefix-freeness), the replacement constants that make Redact/StripMarkers/EscapeMarkers exact and idempotent, and agreement of the string and []byte variants. Trusts Go's regexp for leftmost-first matching and ReplaceAll.", "§5 C07", "static analysis: constant folding of the pattern expressions + regular-language decision procedure (regexp/syntax program -> DFA, product-automaton equivalence)"),
 "C08": ("(C08.a) redactable operands are inlined raw by a direct buffer write in every configuration outside Unsafe(), escaped inside; (C08.b) a redactable operand flows nowhere else. The induction over re-print histories is an argument, not an analysis result.", "§5 C08", TECH_AB),
 "C09": ("Per SafeWriter method and per implementation: side from the parameter type, exactly one buffer write on the single path, payload is the parameter, mode of its side in every reachable configuration, verb/signedness agreement of the numeric emitters, fmt.State writes are unsafe; (C09.g) buffer growth keeps the old content, extends by exactly the request and the write methods store at the returned index; (C09.h) selecting the mode already in force is the identity, so escaping stays deferred across the pieces of one payload; the contract is checked on every path of a method, helpers of the same receiver read in place; with C01.a/C01.b for the buffer below and C16.c for the builder's print route. The two textual equalities for arbitrary payloads need the escaper's arithmetic and are not decided.", "§5 C09", TECH_AB + " + structural SSA rules"),
 "C10": ("(C07) the regex half exactly; (C10.scan) structural necessary conditions of the byte scanner: start offset, window length = marker length, tight look-ahead guard, skip lengths, plain iterations advance by one, dangling-tail rule on every path; (C10.b) EscapeBytes shape; (C10.f) copy-on-write and a single allocation of the output per path, path-sensitively; (C09.h) laziness across a no-op mode change; (C10.g) plain writes never escape or validate; (C03.c) splitter shape. Byte-exactness for all contents is not decided.", "§5 C10", TECH_D + " + path-sensitive abstract interpretation for copy-on-write"),
 "C11": ("Containment of user-method panics: (C11.c) no uncontained panicking exit from the dispatcher, re-raise only for nested panics, the panic report is written in the caller's classification; (C01.d) restorers run on panic paths.", "§5 C11", TECH_A),
 "C12": ("Pool hygiene (C12.b): every printer handed to sync.Pool.Put has no override, no captured error, a reset buffer; newPrinter re-establishes the per-call flags; (C12.d) a borrowed buffer is handed back on every exit; (C12.f) the width and precision left in the pooled formatter by an earlier call are never read: every load is under its presence flag (forward must-analysis); (C12.a/e) no shared mutable state outside the pool and the registries. No schedule is explored.", "§5 C12", TECH_A),
 "C14": ("MakeFormat is interpreted abstractly for all 2^7 fmt.State configurations x 4 verb classes and must return exactly the directive; pp.Flag for all 2^7 flag states x 6 characters; the wrappers and ReproducePrintf are checked structurally; (C14.p) the directive parser whose state MakeFormat reads is fmt's (Engine C restricted to the parser). The concrete round trip through fmt's parser is not executed.", "§5 C14", "static analysis: exhaustive abstract interpretation of MakeFormat/pp.Flag over their finite configuration space (go/ssa) + structural SSA rules"),
 "C15": ("(C15.b/c) every function to which the format loop hands a verb either captures or rejects a %w and leaves the pair alone for other verbs, for every state of (wrapErrs, wrappedErr) and every route of the operand; (C15.d) HelperForErrorf arms, formats, reads and frees in that order; (C12.b) pool reuse clears the slot. Text equality with fmt.Errorf is C04's business.", "§5 C15", TECH_A),
 "C13": ("(C13.a) accessors never write the receiver, (C13.c) Reset/Take* end in the zero configuration, for every entry configuration of the buffer state machine.", "§5 C13", TECH_A),
}

NA_REASON = "no check registered yet in this commit; DESIGN.md §5 lists the static clauses planned for it"

def main():
    props=[json.loads(l) for l in open('/verif/properties.jsonl')]
    checks=[]
    for pid,(text,ref,tech) in sorted(CLAIMS.items()):
        checks.append({
          "property_id":pid,
          "quick_cmd":f"./check {pid} quick",
          "thorough_cmd":f"./check {pid} thorough",
          "evidence_file":f"/verif/evidence/{pid}.json",
          "replay_cmd_template":"./bin/redactcheck -replay {path}",
          "engine":"redactcheck",
          "level_claimed":{"category":"other","text":text,"design_ref":ref},
          "level_note":"Trusted: go/types, go/ssa lowering, documented semantics of regexp and reflect, the abstraction assumptions printed in the evidence file. Structural necessary conditions of the property; not a behavioural proof.",
          "technique":tech,
        })
    na=[{"property_id":p["id"],"reason":NA_REASON} for p in props if p["id"] not in CLAIMS]
    m={"version":1,
     "setup_cmd":"cd /verif/checker && GOFLAGS=-mod=mod GOPROXY=off GOSUMDB=off GOTOOLCHAIN=local GOWORK=off go build -o /verif/bin/redactcheck ./cmd/redactcheck",
     "hooks":{"guard":"verif","enable":"none needed: static analysis reads /repo's source; no instrumentation is compiled in","baseline_off_cmd":"cd /repo && go test -vet=off -count=1 ./...","source_commits":[],"add_only":True},
     "engines":[{"name":"redactcheck","path":"/verif/checker","serves_properties":sorted(CLAIMS),"kind_free_text":"repository-specific static analyser (go/packages + go/ssa): typestate abstract interpreter (Engine A), provenance labels (Engine B), fork conformance (Engine C), structural rules (Engine D)"}],
     "checks":checks,
     "not_applicable":na,
     "notes":"All checks are static: they parse, type-check and lower /repo's current source on every run and never execute it. Known findings: /verif/known_findings.json."}
    json.dump(m,open('/verif/MANIFEST.json','w'),indent=1)
    print("claimed:",sorted(CLAIMS),"n/a:",[x["property_id"] for x in na])

main()
