#!/usr/bin/env python3
"""campaign_recheck.py <results.jsonl> <out.jsonl>: re-surveys, with the current
checker, the suite-surviving mutants of an earlier campaign on which some rule
fired, and reports those no rule fires on any more (lost detection)."""
import json, os, subprocess, sys, shutil, tempfile, threading
from concurrent.futures import ThreadPoolExecutor
rs=[json.loads(l) for l in open(sys.argv[1])]
out=sys.argv[2]
todo=[r for r in rs if r['status']=='survivor' and r.get('fired')]
done=set()
if os.path.exists(out):
    for l in open(out): done.add(json.loads(l)['id'])
lock=threading.Lock()
def run(m):
    if m['id'] in done: return
    d=tempfile.mkdtemp(prefix='re.',dir='/tmp/campaign')
    try:
        subprocess.run(['rsync','-a','--exclude','.git','/repo/',d+'/'],check=True)
        p=os.path.join(d,m['file']); s=open(p,'rb').read()
        open(p,'wb').write(s[:m['off']]+m['new'].encode()+s[m['end']:])
        sv=subprocess.run(['/verif/bin/redactcheck','-survey','-repo',d,'-verif','/verif','-oracle','/verif/checker/oracle'],capture_output=True,text=True,errors='replace',timeout=900)
        fired=[l.split(' ')[1][5:] for l in sv.stdout.splitlines() if l.startswith('SURVEY') and 'status=ok' not in l]
        n=sum(1 for l in sv.stdout.splitlines() if l.startswith('SURVEY'))
        res={'id':m['id'],'file':m['file'],'line':m['line'],'func':m['func'],'op':m['op'],'old':m['old'][:80],'new':m['new'][:50],'before':sorted(m['fired'].keys()),'now':fired,'rules_run':n}
    except Exception as e:
        res={'id':m['id'],'error':str(e)}
    finally:
        shutil.rmtree(d,ignore_errors=True)
    with lock: open(out,'a').write(json.dumps(res)+'\n')
with ThreadPoolExecutor(int(os.environ.get('PAR','4'))) as ex: list(ex.map(run,todo))
print('done',len(todo))
