#!/usr/bin/env python3
"""campaign.py <mutants.json> <out.jsonl> [file-substring ...]
Mutation campaign (developer tool, not a registered check): every first-order
mutant produced by bin/mutgen is applied to a scratch copy of /repo; mutants
that still build and pass the existing suite are surveyed with every rule
(bin/redactcheck -survey). The survivors no rule fires on are the interesting
ones: each is either behaviour-preserving or a gap."""
import json, os, subprocess, sys, shutil, tempfile, threading
from concurrent.futures import ThreadPoolExecutor
muts = json.load(open(sys.argv[1])); out = sys.argv[2]; filt = sys.argv[3:]
env = dict(os.environ, GOFLAGS='-mod=mod', GOPROXY='off', GOSUMDB='off', GOTOOLCHAIN='local', GOWORK='off')
done = set()
if os.path.exists(out):
    for l in open(out):
        done.add(json.loads(l)['id'])
lock = threading.Lock(); sem = threading.Semaphore(int(os.environ.get('SURVEY_PAR', '5')))
def run(m):
    if m['id'] in done: return
    if filt and not any(f in m['file'] for f in filt): return
    d = tempfile.mkdtemp(prefix='mut.', dir='/tmp/campaign')
    res = dict(m)
    try:
        subprocess.run(['rsync', '-a', '--exclude', '.git', '/repo/', d + '/'], check=True)
        p = os.path.join(d, m['file']); s = open(p, 'rb').read()
        assert s[m['off']:m['end']].decode() == m['old'], 'stale mutant list'
        open(p, 'wb').write(s[:m['off']] + m['new'].encode() + s[m['end']:])
        b = subprocess.run(['go', 'build', './...'], cwd=d, env=env, capture_output=True, text=True, errors='replace')
        if b.returncode != 0:
            res['status'] = 'nobuild'
        else:
            try:
                t = subprocess.run(['go', 'test', '-vet=off', '-count=1', './...'], cwd=d, env=env, capture_output=True, text=True, errors='replace', timeout=120)
                res['status'] = 'killed-by-tests' if t.returncode != 0 else 'survivor'
            except subprocess.TimeoutExpired:
                res['status'] = 'killed-by-tests'
        if res['status'] == 'survivor':
            with sem:
                sv = subprocess.run(['/verif/bin/redactcheck', '-survey', '-repo', d, '-verif', '/verif', '-oracle', '/verif/checker/oracle'], capture_output=True, text=True, errors='replace', timeout=900)
            fired = {}
            n = 0
            for l in sv.stdout.splitlines():
                if l.startswith('SURVEY rule='):
                    n += 1
                    parts = l.split(' ', 3)
                    rule = parts[1][5:]; st = parts[2][7:]
                    if st != 'ok':
                        fired[rule] = st + ': ' + (parts[3][4:300] if len(parts) > 3 else '')
            res['rules_run'] = n
            res['fired'] = fired
            if n < 40:
                res['survey_error'] = (sv.stdout[-300:] + sv.stderr[-300:])
    except Exception as e:
        res['status'] = 'error'; res['error'] = str(e)
    finally:
        shutil.rmtree(d, ignore_errors=True)
    with lock:
        open(out, 'a').write(json.dumps(res) + '\n')
with ThreadPoolExecutor(int(os.environ.get('PAR', '12'))) as ex:
    list(ex.map(run, muts))
print('done')
