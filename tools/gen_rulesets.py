#!/usr/bin/env python3
"""Rewrites the rule-set table of DESIGN.md (between the two <!-- rule-sets --> markers)
from checker/rules/ctx.go, so that the document and the checker cannot disagree."""
import re
src = open('/verif/checker/rules/ctx.go').read()
body = src[src.index('var Properties = map[string][]string{'):]
body = body[:body.index('\n}\n')]
sets = {}
for m in re.finditer(r'"(C\d\d)":\s*\{([^}]*)\}', body):
    sets[m.group(1)] = [x.strip().strip('"') for x in m.group(2).split(',') if x.strip()]
rows = ['| property | rules run by its check (`rules/ctx.go`) |', '|---|---|']
for k in sorted(sets):
    rows.append('| %s | %s |' % (k, ', '.join(sets[k])))
d = open('/verif/DESIGN.md').read()
mark = '<!-- rule-sets -->'
a0 = d.index(mark) + len(mark)
b = d.index(mark, a0)
a = d.index('| property |', a0)
assert a < b
d = d[:a] + '\n'.join(rows) + '\n\n' + d[b:]
open('/verif/DESIGN.md', 'w').write(d)
print('rule-set table: %d properties' % len(sets))
