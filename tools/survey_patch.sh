#!/bin/bash
# usage: survey_patch.sh <patch>... -- applies each patch to a scratch copy of /repo and lists the rules that fire.
export GOFLAGS=-mod=mod GOPROXY=off GOSUMDB=off GOTOOLCHAIN=local GOWORK=off
for d in "$@"; do
  D=$(mktemp -d /tmp/survey.XXXXXX)
  rsync -a --exclude .git /repo/ $D/
  ( cd $D && git init -q . && git apply "$d" ) || { echo "$d: DOES NOT APPLY"; rm -rf $D; continue; }
  echo "== $d"
  /verif/bin/redactcheck -survey -repo $D -verif /verif -oracle /verif/checker/oracle 2>&1 | grep -v 'status=ok' | cut -c1-${W:-300} | sed 's/^/    /'
  rm -rf $D
done
