#!/bin/bash
# usage: benign_try.sh <diff>...   -- applies each behaviour-preserving diff to a
# scratch copy of /repo, runs the suite and every rule (survey); any non-ok rule
# is a false alarm to be triaged. Developer tool; no registered check uses it.
export GOFLAGS=-mod=mod GOPROXY=off GOSUMDB=off GOTOOLCHAIN=local GOWORK=off
NRULES=$(/verif/bin/redactcheck -survey -repo /repo -verif /verif -oracle /verif/checker/oracle 2>/dev/null | grep -c '^SURVEY')
for d in "$@"; do
  D=$(mktemp -d /tmp/benign.XXXXXX)
  rsync -a --exclude .git /repo/ $D/
  ( cd $D && git init -q . && git add -A && git commit -qm base >/dev/null && git apply "$d" ) || { echo "$d: DOES NOT APPLY"; rm -rf $D; continue; }
  ( cd $D && go build ./... && go test -vet=off -count=1 ./... >/dev/null 2>&1 ) || echo "$d: BUILD/TEST FAILS"
  out=$(timeout 600 /verif/bin/redactcheck -survey -repo $D -verif /verif -oracle /verif/checker/oracle 2>&1)
  bad=$(echo "$out" | grep '^SURVEY' | grep -v 'status=ok')
  n=$(echo "$out" | grep -c '^SURVEY')
  if [ -z "$bad" ] && [ "$n" -eq "$NRULES" ]; then echo "$d: silent ($n rules)"; else echo "$d: ALARM ($n of $NRULES rules ran)"; echo "$bad" | sed 's/^/    /'; echo "$out" | grep -v '^SURVEY' | tail -3; fi
  rm -rf $D
done
