#!/usr/bin/env python3
"""seed_keep.py <src dir> <dest name> <property> <needs> <caught-by (comma list or 'none')> [note]
Copies a confirmed seeded change into /verif/seeded/<dest name>/ with meta.json."""
import sys, os, shutil, json, glob
src, name, prop, needs, caught = sys.argv[1:6]
note = sys.argv[6] if len(sys.argv) > 6 else ""
dst = os.path.join('/verif/seeded', name)
os.makedirs(dst, exist_ok=True)
shutil.copy(os.path.join(src, 'patch.diff'), dst)
for t in glob.glob(os.path.join(src, '*_test.go')):
    # stored with a .txt suffix so that no Go tool ever picks it up from /verif
    shutil.copy(t, os.path.join(dst, os.path.basename(t) + '.txt'))
if os.path.exists(os.path.join(src, 'notes.md')):
    shutil.copy(os.path.join(src, 'notes.md'), dst)
meta = {
  "breaks_property": prop,
  "needs_to_manifest": needs,
  "origin": "independent sub-agent given only the property text and a scratch worktree of /repo",
  "confirmed_by": "tools/seed_verify.sh on a scratch copy of /repo: existing suite passes with the change; demonstration fails with it and passes without it",
  "checks_run": "bin/redactcheck -repo <scratch copy with patch applied> -p <property>",
  "caught_by": [] if caught == 'none' else caught.split(','),
  "note": note,
}
json.dump(meta, open(os.path.join(dst, 'meta.json'), 'w'), indent=1)
print("kept", dst)
