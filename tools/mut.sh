#!/bin/bash
# usage: mut.sh <property> <python-expr-file-edit...>
# Applies an edit (python snippet operating on file content `s`) to a scratch
# copy of /repo and runs the checker on it. For checker development only.
# mut.sh PROP FILE 'python code transforming s' [rule]
set -u
PROP=$1; FILE=$2; CODE=$3; RULE=${4:-}
D=$(mktemp -d /tmp/mut.XXXXXX)
rsync -a --exclude .git /repo/ $D/
python3 - "$D/$FILE" <<PY
import sys,re
p=sys.argv[1]
s=open(p).read()
o=s
$CODE
if s==o:
    print("MUTATION DID NOT APPLY"); sys.exit(3)
open(p,'w').write(s)
PY
rc=$?
if [ $rc -ne 0 ]; then rm -rf $D; exit $rc; fi
mkdir -p $D.verif; cp /verif/known_findings.json $D.verif/; (cd $D && GOFLAGS=-mod=mod GOPROXY=off go build ./... ) || { echo "MUTANT DOES NOT BUILD"; rm -rf $D; exit 4; }
if [ -n "$RULE" ]; then
/verif/bin/redactcheck -repo $D -verif $D.verif -p $PROP -rule $RULE | grep -v '^  C' | head -${LINES_MAX:-12}
else
/verif/bin/redactcheck -repo $D -verif $D.verif -p $PROP | grep -v '^  C' | head -${LINES_MAX:-12}
fi
rm -rf $D $D.verif
