#!/bin/bash
# usage: seed_verify.sh <seed dir containing patch.diff and *_test.go> [props...]
# Confirms a seeded change in a scratch copy of /repo: (1) builds and passes
# the existing suite, (2) the demonstration fails with it, (3) passes without
# it; then runs the listed checks on the changed tree.
set -u
S=$1; shift
export GOFLAGS=-mod=mod GOPROXY=off GOSUMDB=off GOTOOLCHAIN=local GOWORK=off
D=$(mktemp -d /tmp/seedv.XXXXXX)
rsync -a --exclude .git /repo/ $D/
cd $D && git init -q . && git add -A && git commit -qm base >/dev/null
git apply $S/patch.diff || { echo "PATCH DOES NOT APPLY"; rm -rf $D; exit 3; }
go build ./... || { echo "DOES NOT BUILD"; rm -rf $D; exit 4; }
echo "--- suite with change:"; go test -vet=off -count=1 ./... 2>&1 | grep -v "no test files" | sed 's/^/    /'
# place demo files: keep their package directory if notes say so; default root
for t in $S/*_test.go; do
  pkgline=$(grep -m1 '^package ' $t | awk '{print $2}')
  dest=$D
  case $pkgline in
    redact|redact_test) dest=$D;;
    builder|builder_test) dest=$D/builder;;
    buffer) dest=$D/internal/buffer;;
    escape) dest=$D/internal/escape;;
    rfmt) dest=$D/internal/rfmt;;
    markers) dest=$D/internal/markers;;
    fmtforward) dest=$D/internal/fmtforward;;
  esac
  cp $t $dest/
  echo "--- demo $(basename $t) in ${dest#$D} WITH change:"; (cd $dest && go test -vet=off -count=1 -run 'Seed|Demo' . 2>&1 | tail -4 | sed 's/^/    /')
done
git stash -q
for t in $S/*_test.go; do
  pkgline=$(grep -m1 '^package ' $t | awk '{print $2}')
  dest=$D
  case $pkgline in
    builder|builder_test) dest=$D/builder;;
    buffer) dest=$D/internal/buffer;;
    escape) dest=$D/internal/escape;;
    rfmt) dest=$D/internal/rfmt;;
    markers) dest=$D/internal/markers;;
    fmtforward) dest=$D/internal/fmtforward;;
  esac
  echo "--- demo $(basename $t) WITHOUT change:"; (cd $dest && go test -vet=off -count=1 -run 'Seed|Demo' . 2>&1 | tail -3 | sed 's/^/    /')
done
git stash pop -q
find $D -name '*seed*_test.go' -delete; find $D -name '*demo*_test.go' -delete
mkdir -p $D.verif; cp /verif/known_findings.json $D.verif/
for p in "$@"; do
  echo "--- check $p on changed tree:"; /verif/bin/redactcheck -repo $D -verif $D.verif -p $p | grep -v '^  C' | cut -c1-400 | head -${LINES_MAX:-8} | sed 's/^/    /'
done
cd /; rm -rf $D $D.verif
